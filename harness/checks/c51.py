"""C51 Pauli algebra agrees with matrix algebra.

(M) spec/alg/PauliAlg.tla is the exact Pauli algebra (letters, phased words, Gaussian-dyadic coefficients, sentences) written
    from the textbook definitions.  spec/gen/PauliAlgGen.tla makes TLC decide, ON THE REFERENCE ITSELF, that the algebra equals
    matrix algebra in the exact ring (CMat): for EVERY pair of words on <= 3 wires mat(a*b) = mat(a) mat(b) with its phase,
    commutes <=> AB = BA, anticommutes <=> AB = -BA, mat([a,b]) = AB - BA, tr; and for TLC-generated pairs of small sentences
    mat(st) = mat(s)mat(t), mat(s+t), mat(cs), mat([s,t]) = ST - TS, 2^n trace(s) = tr mat(s), and every coefficient of s is
    tr(P_w mat(s))/2^n (the textbook Pauli decomposition).
(R) spec -> code: every case is emitted with the expected results (products, sums, differences, scalar multiples, commutators,
    traces as exact sentences; the exact matrix in a wire order) and replayed into PauliWord / PauliSentence arithmetic,
    to_mat dense / csr with buffer sizes, qp.matrix, operation(), operator arithmetic + qp.pauli.pauli_sentence,
    qp.commutator(pauli=True), qp.pauli_decompose (dense, sparse, Hermitian and general) and pauli_word_to_matrix.
(T) code -> spec: seeded larger sentences (<= 5 wires, <= 8 terms, structured so that many words share a sparsity pattern) are
    pushed through the real classes, every result is recorded as an exact Gaussian-dyadic sentence and re-validated by TLC
    (spec/trace/Trace_PauliAlg.tla) against PauliAlg; TLC also emits their exact matrices for the numeric to_mat / round-trip
    comparisons (1e-8).
"""
import copy
import json
import random

import numpy as np
import scipy.sparse as sps

import pennylane as qp
from pennylane.pauli import PauliSentence, PauliWord

from .. import lib
from ..lib import CheckResult, ring_matrix_to_numpy
from ..paulis import (LET, Agg, dict_to_terms, gd_to_number, labels_for, make_op, make_pw, ps_to_dict, sentence_diff,
                      show_terms, terms_to_dict, wire_order)

PID = "C51"
M = 3
TOL = 1e-8


# ------------------------------------------------------------------------------------------------ helpers
def build_ps(terms, labels, rng=None, route=0):
    """PauliSentence from terms.  route 0: dict constructor with exactly merged coefficients; 1: repeated `+`; 2: repeated `+=`."""
    if route == 0:
        d = {}
        for t in terms:
            pw = make_pw(t["w"], labels, rng)
            d[pw] = d.get(pw, 0) + gd_to_number(t["c"], rng)
        return PauliSentence(d)
    ps = PauliSentence({})
    for t in terms:
        term = gd_to_number(t["c"], rng) * make_pw(t["w"], labels, rng)
        if route == 1:
            ps = ps + term
        else:
            ps += term
    return ps


def build_op(terms, labels):
    """Operator form (Sum of SProd of Prod) of a non-empty term list, built without going through PauliSentence."""
    summands = []
    for t in terms:
        c = gd_to_number(t["c"])
        w = make_op(t["w"], labels)
        summands.append(w if c == 1 else qp.s_prod(c, w))
    return summands[0] if len(summands) == 1 else qp.sum(*summands)


class Ctx:
    def __init__(self):
        self.agg = Agg()
        self.n_eval = 0
        self.stats = {}

    def count(self, k, d=1):
        self.stats[k] = self.stats.get(k, 0) + d

    def sent(self, key, thunk, exp_terms, labels, case):
        """Run thunk() -> PauliSentence-like and compare with the expected exact sentence."""
        self.n_eval += 1
        try:
            got = thunk()
            if isinstance(got, PauliWord):
                got = PauliSentence({got: 1.0})
            d = ps_to_dict(got, labels) if isinstance(got, PauliSentence) else None
            if d is None:
                why = f"result {got!r} is not a Pauli sentence over the input wires"
            else:
                expd = {w + (0,) * (len(labels) - len(w)): v for w, v in terms_to_dict(exp_terms).items()}
                why = sentence_diff(d, expd)
        except Exception as e:  # noqa: BLE001 - an exception on a valid input is itself a failure of the property
            why = f"raised {type(e).__name__}: {e}"
            key = f"{key}:{type(e).__name__}"
        if why:
            self.agg.add(key, f"{why}; expected {show_terms(exp_terms)} for case {_short(case)}",
                         {"case": _small(case), "labels": [str(l) for l in labels], "check": key, "expected": exp_terms})
            return False
        return True

    def mat(self, key, thunk, exp, case, labels):
        self.n_eval += 1
        try:
            got = thunk()
            if sps.issparse(got):
                got = got.toarray()
            got = np.asarray(got)
            if got.shape != exp.shape:
                why = f"shape {got.shape}, expected {exp.shape}"
            elif not np.allclose(got, exp, atol=TOL, rtol=0):
                why = f"max abs error {float(np.max(np.abs(got - exp))):.3g}"
            else:
                why = None
        except Exception as e:  # noqa: BLE001
            why = f"raised {type(e).__name__}: {e}"
            key = f"{key}:{type(e).__name__}"
        if why:
            self.agg.add(key, f"matrix differs from the exact matrix: {why}; case {_short(case)}",
                         {"case": _small(case), "labels": [str(l) for l in labels], "check": key})
            return False
        return True

    def value(self, key, thunk, exp, case, labels):
        self.n_eval += 1
        try:
            got = thunk()
            why = None if (got == exp if isinstance(exp, bool) else abs(complex(got) - exp) <= 1e-9) else f"got {got}, expected {exp}"
        except Exception as e:  # noqa: BLE001
            why = f"raised {type(e).__name__}: {e}"
            key = f"{key}:{type(e).__name__}"
        if why:
            self.agg.add(key, f"{why}; case {_short(case)}", {"case": _small(case), "labels": [str(l) for l in labels], "check": key})
            return False
        return True


def _small(case):
    return {k: v for k, v in case.items() if k not in ("mat", "matp")}


def _short(case):
    if case.get("kind") == "pair":
        return f"a={''.join(LET[c] for c in case['a'])} b={''.join(LET[c] for c in case['b'])}"
    if case.get("kind") == "word":
        return f"word={''.join(LET[c] for c in case['a'])} order={case['ord']}"
    return f"s={show_terms(case.get('s', []))} t={show_terms(case.get('t', []))} c={case.get('cf')} order={case.get('ord')}"


def buffers(dim, default=True):
    """buffer_size values (bytes) giving 1, 2, 3 matrices per batch of the sparse builder, and the default (1 GB: the builder
    allocates the whole buffer, ~7 ms per call, so the default is exercised on a quarter of the cases only)."""
    per = 24 * dim
    return ([None] if default else []) + [1, 2 * per, 3 * per]


def sparsity_classes(terms, ordr):
    """number of distinct (X/Y vs I/Z) patterns among the distinct words, and the number of distinct words"""
    ws = {tuple(t["w"]) for t in terms}
    return len({tuple(1 if c in (1, 2) else 0 for c in w) for w in ws}), len(ws)


# ------------------------------------------------------------------------------------------------ REPLAY
def replay_pair(cx, case, rng, full_ops):
    n = case["n"]
    L = labels_for(rng, n)[:n]
    a, b = make_pw(case["a"], L, rng), make_pw(case["b"], L, rng)
    ph = [1, 1j, -1, -1j][case["prod"]["p"]]
    prod = [{"w": case["prod"]["w"], "c": [int(ph.real), int(ph.imag), 0]}]
    cx.sent("word:matmul", lambda: a @ b, prod, L, case)
    cx.value("word:commutes_with", lambda: bool(a.commutes_with(b)), case["com"], case, L)
    cx.sent("word:commutator", lambda: a.commutator(b), case["comm"], L, case)
    cx.sent("word:add", lambda: a + b, case["sum"], L, case)
    cx.sent("word:sub", lambda: a - b, case["diff"], L, case)
    if full_ops:
        oa, ob = make_op(case["a"], L), make_op(case["b"], L)
        cx.sent("op:prod(words)", lambda: qp.pauli.pauli_sentence(qp.prod(oa, ob)), prod, L, case)
        cx.sent("op:commutator(words)", lambda: qp.commutator(oa, ob, pauli=True), case["comm"], L, case)
        cx.sent("word:sentence@word", lambda: PauliSentence({a: 1.0}) @ b, prod, L, case)
        cx.sent("word:sentence.commutator(word)", lambda: PauliSentence({a: 1.0}).commutator(b), case["comm"], L, case)
    if not case["com"]:
        cx.count("pairs_anticommuting")
    if case["prod"]["p"] in (1, 3):
        cx.count("pairs_with_imaginary_phase")


def replay_word(cx, case, rng, full=True):
    n = case["n"]
    L = labels_for(rng, n)
    wo = wire_order(case["ord"], L)
    exp = ring_matrix_to_numpy(case["mat"], M)
    pw = make_pw(case["a"], L[:n], rng)
    one = [{"w": case["a"] + [0], "c": [1, 0, 0]}]
    cx.mat("word:to_mat:dense", lambda: pw.to_mat(wire_order=wo), exp, case, L)
    cx.mat("word:to_mat:csr", lambda: pw.to_mat(wire_order=wo, format="csr"), exp, case, L)
    cx.mat("word:qp.matrix", lambda: qp.matrix(pw, wire_order=wo), exp, case, L)
    cx.mat("word:operation:matrix", lambda: qp.matrix(pw.operation(wire_order=wo), wire_order=wo), exp, case, L)
    cx.sent("word:operation:pauli_sentence", lambda: qp.pauli.pauli_sentence(pw.operation(wire_order=wo)), one, L, case)
    ps = PauliSentence({pw: 1.0})
    cx.mat("sent:to_mat:dense", lambda: ps.to_mat(wire_order=wo), exp, case, L)
    dflt = (sum(case["a"]) + sum(case["ord"])) % 4 == 0
    cx.mat("sent:to_mat:csr", lambda: ps.to_mat(wire_order=wo, format="csr", buffer_size=None if dflt else 48 * len(exp)), exp, case, L)
    if 0 in case["ord"]:
        cx.count("word_orders_with_foreign_wire")
    if case["ord"] != sorted(case["ord"]):
        cx.count("word_orders_permuted")
    if not full:
        return
    cx.sent("decompose:dense", lambda: qp.pauli_decompose(exp, wire_order=wo, pauli=True), one, L, case)
    cx.sent("decompose:sparse", lambda: qp.pauli_decompose(sps.csr_matrix(exp), wire_order=wo, pauli=True), one, L, case)
    if any(case["a"]):
        op = make_op(case["a"], L[:n])
        wm = {w: i for i, w in enumerate(wo)}
        cx.mat("word:pauli_word_to_matrix", lambda: qp.pauli.pauli_word_to_matrix(op, wire_map=wm), exp, case, L)
        cx.sent("word:string-roundtrip",
                lambda: qp.pauli.pauli_sentence(qp.pauli.string_to_pauli_word(qp.pauli.pauli_word_to_string(op, wire_map=wm), wire_map=wm)),
                one, L, case)


def replay_sent(cx, case, rng):
    n = case["n"]
    L = labels_for(rng, n)
    Ln = L[:n]
    wo = wire_order(case["ord"], L)
    dim = 2 ** len(wo)
    s, t = build_ps(case["s"], Ln, rng), build_ps(case["t"], Ln, rng)
    c = gd_to_number(case["cf"], rng)
    s0 = copy.deepcopy(dict(s))
    cx.sent("sent:add", lambda: s + t, case["add"], Ln, case)
    cx.sent("sent:sub", lambda: s - t, case["sub"], Ln, case)
    cx.sent("sent:scale", lambda: c * s, case["scale"], Ln, case)
    cx.sent("sent:scale-right", lambda: s * c, case["scale"], Ln, case)
    cx.sent("sent:truediv", lambda: s / (1 / c), case["scale"], Ln, case)
    cx.sent("sent:matmul", lambda: s @ t, case["mul"], Ln, case)
    cx.sent("sent:commutator", lambda: s.commutator(t), case["comm"], Ln, case)
    cx.sent("sent:add-scalar", lambda: s + c, case["addc"], Ln, case)
    cx.sent("sent:radd-scalar", lambda: c + s, case["addc"], Ln, case)
    cx.sent("sent:rsub-scalar", lambda: c - s, case["csub"], Ln, case)
    tr = complex(case["tr"][0], case["tr"][1]) / (1 << case["tr"][2])
    cx.value("sent:trace", lambda: s.trace(), tr, case, Ln)

    def iadd():
        x = copy.copy(s)
        x += t
        return x
    cx.sent("sent:iadd", iadd, case["add"], Ln, case)
    cx.sent("sent:build-by-add", lambda: build_ps(case["s"], Ln, None, 1), case["sn"], Ln, case)
    cx.sent("sent:build-by-iadd", lambda: build_ps(case["s"], Ln, None, 2), case["sn"], Ln, case)
    if dict(s) != s0:
        cx.agg.add("sent:operand-mutated", f"an arithmetic operation changed its left operand; case {_short(case)}", {"case": _small(case)})
    # PauliWord entry points when s is a bare word
    if len(case["s"]) == 1 and case["s"][0]["c"] == [1, 0, 0]:
        pw = make_pw(case["s"][0]["w"], Ln)
        cx.count("bare_word_operand_cases")
        cx.sent("word:add(sentence)", lambda: pw + t, case["add"], Ln, case)
        cx.sent("word:radd(sentence)", lambda: t + pw, case["add"], Ln, case)
        cx.sent("word:sub(sentence)", lambda: pw - t, case["sub"], Ln, case)
        cx.sent("word:matmul(sentence)", lambda: pw @ t, case["mul"], Ln, case)
        cx.sent("word:commutator(sentence)", lambda: pw.commutator(t), case["comm"], Ln, case)
        cx.sent("word:scale", lambda: c * pw, case["scale"], Ln, case)
        cx.sent("word:truediv", lambda: pw / (1 / c), case["scale"], Ln, case)
        cx.sent("word:add-scalar", lambda: pw + c, case["addc"], Ln, case)
        cx.sent("word:rsub-scalar", lambda: c - pw, case["csub"], Ln, case)
    # matrices
    exp = ring_matrix_to_numpy(case["mat"], M)
    expp = ring_matrix_to_numpy(case["matp"], M)
    cx.mat("sent:to_mat:dense", lambda: s.to_mat(wire_order=wo), exp, case, L)
    for b in buffers(dim, case["i"] % 4 == 0):
        cx.mat("sent:to_mat:csr" + ("" if b is None else ":buffer"), lambda b=b: s.to_mat(wire_order=wo, format="csr", buffer_size=b), exp, case, L)
    cx.mat("sent:to_mat:csc", lambda: s.to_mat(wire_order=wo, format="csc", buffer_size=2 * 24 * dim), exp, case, L)
    cx.mat("sent:qp.matrix", lambda: qp.matrix(s, wire_order=wo), exp, case, L)
    cx.mat("sent:operation:matrix", lambda: qp.matrix(s.operation(wire_order=wo), wire_order=wo), exp, case, L)
    cx.sent("sent:operation:pauli_sentence", lambda: qp.pauli.pauli_sentence(s.operation(wire_order=wo)), case["sn"], Ln, case)
    p = s @ t
    cx.mat("sent:matmul:to_mat:dense", lambda: p.to_mat(wire_order=wo), expp, case, L)
    for b in (1, 2 * 24 * dim):
        cx.mat("sent:matmul:to_mat:csr" + ("" if b is None else ":buffer"), lambda b=b: p.to_mat(wire_order=wo, format="csr", buffer_size=b), expp, case, L)
    ncls, nw = sparsity_classes(case["mul"], case["ord"])
    if nw > ncls:
        cx.count("sentences_with_words_sharing_a_sparsity_pattern")
    if ncls >= 2:
        cx.count("sentences_with_several_sparsity_patterns")
    if len(case["mul"]) < len(case["sn"]) * len(case["tn"]):
        cx.count("products_with_colliding_or_cancelling_words")
    # pauli_decompose round trips: exact matrix -> sentence
    zero = not case["sn"]
    herm = all(tm["c"][1] == 0 for tm in case["sn"])
    for kind, H in (("dense", exp), ("sparse", sps.csr_matrix(exp))):
        key = f"decompose:{kind}" + (":zero-matrix" if zero else "")
        cx.sent(key, lambda H=H: qp.pauli_decompose(H, wire_order=wo, pauli=True, check_hermitian=False), case["sn"], L, case)
        if herm:
            cx.sent(key + ":hermitian", lambda H=H: qp.pauli_decompose(H, wire_order=wo, pauli=True), case["sn"], L, case)
            cx.count("hermitian_decompositions")
        hide = rng.random() < 0.5

        def as_op(H=H, hide=hide):
            return qp.pauli_decompose(H, wire_order=wo, hide_identity=hide, check_hermitian=False)
        cx.sent(key + ":operator:pauli_sentence", lambda: qp.pauli.pauli_sentence(as_op()), case["sn"], L, case)
        cx.mat(key + ":operator:matrix", lambda: qp.matrix(as_op(), wire_order=wo), exp, case, L)
    # operator arithmetic + pauli_sentence
    if case["s"] and case["t"]:
        os_, ot = build_op(case["s"], Ln), build_op(case["t"], Ln)
        cx.sent("op:pauli_sentence", lambda: qp.pauli.pauli_sentence(os_), case["sn"], Ln, case)
        cx.sent("op:sum", lambda: qp.pauli.pauli_sentence(qp.sum(os_, ot)), case["add"], Ln, case)
        cx.sent("op:prod", lambda: qp.pauli.pauli_sentence(qp.prod(os_, ot)), case["mul"], Ln, case)
        cx.sent("op:s_prod", lambda: qp.pauli.pauli_sentence(qp.s_prod(c, os_)), case["scale"], Ln, case)
        cx.sent("op:commutator", lambda: qp.commutator(os_, ot, pauli=True), case["comm"], Ln, case)
        cx.sent("op:sentence.commutator(operator)", lambda: s.commutator(ot), case["comm"], Ln, case)
        cx.sent("op:LinearCombination", lambda: qp.pauli.pauli_sentence(
            qp.Hamiltonian([gd_to_number(tm["c"]) for tm in case["s"]], [make_op(tm["w"], Ln) for tm in case["s"]])), case["sn"], Ln, case)
        cx.mat("op:matrix", lambda: qp.matrix(os_, wire_order=wo), exp, case, L)
        cx.count("operator_form_cases")


# ------------------------------------------------------------------------------------------------ TRACE
COEF_POOL = [[1, 0, 0], [-1, 0, 0], [1, 0, 1], [0, 1, 0], [0, -1, 1], [2, 0, 0], [3, 0, 2], [-3, 2, 1], [1, 1, 0], [1, -1, 2], [0, 3, 1], [-5, 0, 3]]


def random_sentence(rng, n, kmax, related=None):
    """Structured random sentence: words are drawn from a few X-patterns so that several words share a sparsity pattern."""
    k = rng.randint(0 if rng.random() < 0.05 else 1, kmax)
    pats = [[rng.randint(0, 1) for _ in range(n)] for _ in range(rng.randint(1, 3))]
    terms = []
    for _ in range(k):
        if related and rng.random() < 0.4:
            w = list(rng.choice(related)["w"])
        else:
            p = rng.choice(pats)
            w = [rng.choice((1, 2)) if x else rng.choice((0, 3)) for x in p]
        terms.append({"w": w, "c": list(rng.choice(COEF_POOL))})
    return terms


def record(op, n, a, b, cf, out_ps, labels, emit=False, ordr=None):
    d = ps_to_dict(out_ps, labels) if out_ps is not None else None
    if d is None:
        terms, exact = [{"w": [9] * n, "c": [0, 0, 0]}], True     # foreign wire / not a sentence: malformed for the spec
    else:
        terms, exact = dict_to_terms({w: c for w, c in d.items()})
    return {"op": op, "n": n, "a": a, "b": b, "cf": cf, "out": terms, "exact": exact, "emit": emit, "ord": ordr or list(range(1, n + 1))}


def trace_part(cx, rng, npairs, max_n):
    recs, meta = [], []
    for _ in range(npairs):
        n = rng.choice([2, 3, 3, 4, 4, 5][: {2: 1, 3: 3, 4: 5, 5: 6}[max_n]])
        L = labels_for(rng, n)
        Ln = L[:n]
        a = random_sentence(rng, n, 8)
        b = random_sentence(rng, n, 6, related=a)
        cf = list(rng.choice(COEF_POOL))
        s, t = build_ps(a, Ln, rng), build_ps(b, Ln, rng)
        c = gd_to_number(cf, rng)
        perm = list(range(1, n + 1))
        rng.shuffle(perm)
        if n < 4 and rng.random() < 0.3:
            perm.insert(rng.randint(0, n), 0)
        wo = wire_order(perm, L)
        calls = [("mul", lambda: s @ t), ("add", lambda: s + t), ("sub", lambda: s - t), ("scale", lambda: c * s),
                 ("comm", lambda: s.commutator(t)), ("comm", lambda: -1.0 * t.commutator(s)),
                 ("trace", lambda: PauliSentence({PauliWord({}): s.trace()})),
                 ("same", lambda: qp.pauli.pauli_sentence(s.operation(wire_order=wo))),
                 ("same", lambda: copy.deepcopy(s)),
                 ("same", lambda: s.map_wires({l: l for l in Ln}))]
        if a:
            calls.append(("same", lambda: qp.pauli.pauli_sentence(build_op(a, Ln))))
        first_same = True
        for op, f in calls:
            try:
                out = f()
            except Exception as e:  # noqa: BLE001
                cx.agg.add(f"trace:{op}:{type(e).__name__}", f"{op} raised {type(e).__name__}: {e} for s={show_terms(a)} t={show_terms(b)}",
                           {"s": a, "t": b, "cf": cf, "op": op})
                continue
            emit = op == "same" and first_same and len(perm) <= 4
            if op == "same":
                first_same = False
            recs.append(record(op, n, a, b, cf, out, Ln, emit=emit, ordr=perm))
            meta.append({"L": L, "wo": wo, "s": s, "a": a, "b": b, "op": op})
    return recs, meta


def run_trace(name, recs):
    wd = lib.workdir(PID, name)
    (wd / "traces.json").write_text(json.dumps(recs))
    r = lib.run_tlc("Trace_PauliAlg", lib.cfg(constants={"M": M, "NTRACES": len(recs)}), wd, env={"TRACE_FILE": str(wd / "traces.json")})
    lib.require_ok(r, f"Trace_PauliAlg {name}")
    verd = {t[1] - 1: t[2] for t in r.tuples if t[0] == "V"}
    if len(verd) != len(recs):
        raise lib.MachineryError(f"verdicts are not total: {len(verd)} of {len(recs)}")
    mats = {j["tid"] - 1: j["mat"] for j in r.json_lines}
    return verd, mats, r


# ------------------------------------------------------------------------------------------------ run
def run(tier, seed):
    rng = random.Random(seed)
    quick = tier == "quick"
    NS = 160 if quick else 4000
    cx = Ctx()
    # ---- (M)+(R): generator, laws decided on the reference, expected values
    wd = lib.workdir(PID, "gen")
    g = lib.run_tlc("PauliAlgGen", lib.cfg(constants={"M": M, "NW": 3, "NS": NS, "SEED": seed % 1000}, invariants=["Lawful"]), wd, timeout=3000)
    if g.invariant_violated:
        raise lib.MachineryError("the reference Pauli algebra disagrees with matrix algebra (oracle error): " + g.out[-1500:])
    lib.require_ok(g, "PauliAlgGen")
    cases = g.json_lines
    kinds = {k: [c for c in cases if c["kind"] == k] for k in ("pair", "word", "sent")}
    if len(kinds["pair"]) != 16 + 256 + 4096 or len(kinds["sent"]) != NS or len(kinds["word"]) < 400:
        raise lib.MachineryError(f"generator emitted an unexpected number of cases: { {k: len(v) for k, v in kinds.items()} }")
    for c in sorted(kinds["pair"], key=lambda c: (c["n"], c["a"], c["b"])):
        replay_pair(cx, c, rng, full_ops=(not quick) or (sum(c["a"]) + 3 * sum(c["b"])) % 3 == 0)
    for k, c in enumerate(sorted(kinds["word"], key=lambda c: (c["n"], c["a"], c["ord"]))):
        replay_word(cx, c, rng, full=(not quick) or k % 2 == 0)
    nontriv = set()
    for c in sorted(kinds["sent"], key=lambda c: c["i"]):
        before = len(cx.agg.d)
        replay_sent(cx, c, rng)
        if len(c["sn"]) >= 1 and len(c["tn"]) >= 1 and len(cx.agg.d) == before:
            nontriv.add((c["n"], json.dumps(c["sn"]), json.dumps(c["tn"])))
    # ---- (T): seeded larger sentences through the real classes, validated by TLC
    npairs = 100 if quick else 2000
    recs, meta = trace_part(cx, rng, npairs, 4 if quick else 5)
    # controls for the trace spec (hand-written, independent of the implementation): accepted / rejected as expected
    def T(w, c):
        return {"w": w, "c": c}
    X1, Y1, Z1, I1 = [1], [2], [3], [0]
    one, i_, two = [1, 0, 0], [0, 1, 0], [2, 0, 0]

    def ctl(op, a, b, out, cf=None, exact=True, n=1):
        return {"op": op, "n": n, "a": a, "b": b, "cf": cf or one, "out": out, "exact": exact, "emit": False, "ord": list(range(1, n + 1))}
    ctrl = [("ok", ctl("mul", [T(X1, one)], [T(Y1, one)], [T(Z1, i_)])),
            ("differs-from-algebra", ctl("mul", [T(X1, one)], [T(Y1, one)], [T(Z1, [0, -1, 0])])),
            ("differs-from-algebra", ctl("mul", [T(X1, one)], [T(Y1, one)], [T(Y1, i_)])),
            ("ok", ctl("comm", [T(X1, one)], [T(Y1, one)], [T(Z1, [0, 2, 0])])),
            ("differs-from-algebra", ctl("comm", [T(X1, one)], [T(Y1, one)], [T(Z1, i_)])),
            ("ok", ctl("comm", [T(X1, one)], [T(X1, two)], [])),
            ("ok", ctl("add", [T(X1, one)], [T(X1, one)], [T(X1, two)])),
            ("differs-from-algebra", ctl("add", [T(X1, one)], [T(X1, one)], [T(X1, one)])),
            ("ok", ctl("sub", [T(X1, one)], [T(X1, one)], [T(X1, [0, 0, 0])])),
            ("differs-from-algebra", ctl("sub", [T(X1, one), T(Z1, one)], [T(X1, one)], [])),
            ("ok", ctl("scale", [T(X1, [1, 0, 1])], [], [T(X1, [0, 1, 1])], cf=i_)),
            ("differs-from-algebra", ctl("scale", [T(X1, [1, 0, 1])], [], [T(X1, [0, 1, 0])], cf=i_)),
            ("ok", ctl("trace", [T(I1, [3, 0, 2]), T(X1, one)], [], [T(I1, [3, 0, 2])])),
            ("differs-from-algebra", ctl("trace", [T(I1, [3, 0, 2]), T(X1, one)], [], [T(I1, one)])),
            ("ok", ctl("same", [T([1, 2], one), T([0, 3], i_)], [], [T([0, 3], i_), T([1, 2], one)], n=2)),
            ("differs-from-algebra", ctl("same", [T([1, 2], one), T([0, 3], i_)], [], [T([1, 2], one)], n=2)),
            ("differs-from-algebra", ctl("same", [T([1, 2], one)], [], [T([2, 1], one)], n=2)),
            ("malformed-output", ctl("same", [T([1, 2], one)], [], [T([9, 9], one)], n=2)),
            ("inexact-coefficient", ctl("same", [T(X1, one)], [], [T(X1, one)], exact=False))]
    verd, mats, tr = run_trace("trace", recs + [c for _, c in ctrl])
    neg = 0
    for k, (want, c) in enumerate(ctrl):
        got = verd[len(recs) + k]
        if got != want:
            raise lib.MachineryError(f"trace control answered {got!r}, expected {want!r}: {json.dumps(c)[:400]}")
        neg += want != "ok"
    t_ok = 0
    for i, r in enumerate(recs):
        if verd[i] != "ok":
            m = meta[i]
            cx.agg.add(f"trace:{r['op']}:{verd[i]}",
                       f"recorded result of {r['op']} {verd[i]}: s={show_terms(r['a'])} t={show_terms(r['b'])} c={r['cf']} -> {show_terms(r['out'])}",
                       {"record": r, "labels": [str(l) for l in m["L"]]})
        else:
            t_ok += 1
            if r["op"] in ("mul", "comm") and len(r["a"]) >= 2 and len(r["b"]) >= 2:
                nontriv.add((r["op"], json.dumps(r["a"]), json.dumps(r["b"])))
    # numeric comparisons of the larger sentences against TLC's exact matrices
    n_big = 0
    for i, em in sorted(mats.items()):
        m, r = meta[i], recs[i]
        exp = ring_matrix_to_numpy(em, M)
        s, wo, L = m["s"], m["wo"], m["L"]
        case = {"kind": "sent", "s": r["a"], "t": [], "cf": r["cf"], "ord": r["ord"]}
        sn, _ = dict_to_terms({w: c for w, c in terms_to_dict(r["a"]).items() if c != 0})
        n_big += 1
        cx.mat("sent:to_mat:dense", lambda: s.to_mat(wire_order=wo), exp, case, L)
        for b in buffers(len(exp), n_big % 4 == 0):
            cx.mat("sent:to_mat:csr" + ("" if b is None else ":buffer"), lambda b=b: s.to_mat(wire_order=wo, format="csr", buffer_size=b), exp, case, L)
        cx.mat("sent:operation:matrix", lambda: qp.matrix(s.operation(wire_order=wo), wire_order=wo), exp, case, L)
        zero = not sn
        cx.sent("decompose:dense" + (":zero-matrix" if zero else ""),
                lambda: qp.pauli_decompose(exp, wire_order=wo, pauli=True, check_hermitian=False), sn, L, case)
        cx.sent("decompose:sparse" + (":zero-matrix" if zero else ""),
                lambda: qp.pauli_decompose(sps.csr_matrix(exp), wire_order=wo, pauli=True, check_hermitian=False), sn, L, case)
        ncls, nw = sparsity_classes(r["a"], r["ord"])
        if nw > ncls:
            cx.count("sentences_with_words_sharing_a_sparsity_pattern")
        if ncls >= 2:
            cx.count("sentences_with_several_sparsity_patterns")
        if ncls > 3:
            cx.count("sparse_builds_flushing_a_full_buffer_more_than_once")
    # ---- controls for the comparators (REPLAY direction), independent of the arithmetic under test
    tmp = Ctx()
    fixed = PauliSentence({PauliWord({0: "X", 1: "Y"}): 0.5j, PauliWord({}): 2})
    good = [{"w": [1, 2], "c": [0, 1, 1]}, {"w": [0, 0], "c": [2, 0, 0]}]
    c0 = {"kind": "sent", "s": good, "t": [], "cf": [1, 0, 0], "ord": [1, 2]}
    if not tmp.sent("pos", lambda: fixed, good, [0, 1], c0) or not tmp.mat("posm", lambda: np.eye(2), np.eye(2, dtype=complex), c0, [0]):
        raise lib.MachineryError("positive control rejected by the replay comparator")
    tmp.sent("neg1", lambda: fixed, [{"w": [1, 2], "c": [0, -1, 1]}, {"w": [0, 0], "c": [2, 0, 0]}], [0, 1], c0)
    tmp.sent("neg2", lambda: fixed, good[:1], [0, 1], c0)
    tmp.sent("neg3", lambda: fixed, [{"w": [2, 1], "c": [0, 1, 1]}, {"w": [0, 0], "c": [2, 0, 0]}], [0, 1], c0)
    tmp.mat("negm", lambda: np.eye(2), np.array([[1, 1e-6], [0, 1]], dtype=complex), c0, [0])
    tmp.value("negv", lambda: 0.5, 0.25, c0, [0])
    if len(tmp.agg.d) != 5:
        raise lib.MachineryError("negative control accepted by the replay comparator")
    neg += 5
    for need in ("pairs_anticommuting", "products_with_colliding_or_cancelling_words", "sentences_with_words_sharing_a_sparsity_pattern",
                 "sentences_with_several_sparsity_patterns", "operator_form_cases", "hermitian_decompositions"):
        if not cx.stats.get(need):
            raise lib.MachineryError(f"vacuity: no case exercised '{need}'")
    samples = [{"kind": "pair", "a": "".join(LET[x] for x in c["a"]), "b": "".join(LET[x] for x in c["b"]),
                "a*b": f"i^{c['prod']['p']} " + "".join(LET[x] for x in c["prod"]["w"]), "commute": c["com"]}
               for c in kinds["pair"] if c["n"] == 3 and not c["com"]][:2]
    samples += [{"kind": "sent", "s": show_terms(c["sn"]), "t": show_terms(c["tn"]), "s@t": show_terms(c["mul"]), "[s,t]": show_terms(c["comm"])}
                for c in kinds["sent"] if len(c["sn"]) >= 2 and len(c["tn"]) >= 2][:2]
    samples += [{"kind": "trace", "op": r["op"], "s": show_terms(r["a"]), "t": show_terms(r["b"]), "recorded": show_terms(r["out"])}
                for r in recs if r["op"] == "comm" and len(r["out"]) >= 2][:1]
    cov = {"states": g.distinct + tr.distinct, "transitions": g.generated + tr.generated,
           "traces_validated_against_impl": len(recs), "traces_ok": t_ok, "evaluations": cx.n_eval,
           "distinct_nontrivial": len(nontriv),
           "rule": "distinct (s, t) with both sentences non-zero whose every replayed check agreed, plus distinct recorded mul/commutator "
                   "calls on sentences with >= 2 terms each that TLC accepted",
           "samples": samples, "exhaustive": True,
           "exhaustive_part": "all 4368 ordered pairs of Pauli words on 1..3 wires; all words x all wire orders (permutations and one foreign wire)",
           "sampled_part": f"{NS} TLC-generated sentence pairs (<= 3 terms, <= 3 wires); {npairs} seeded larger pairs (<= {4 if quick else 5} wires, <= 8 terms)",
           "word_pairs": len(kinds["pair"]), "word_order_cases": len(kinds["word"]), "sentence_pairs": len(kinds["sent"]),
           "larger_sentences_with_exact_matrix": n_big, "negative_controls_rejected": neg, "counts": dict(sorted(cx.stats.items())),
           "tlc": {"generator": {"generated": g.generated, "distinct": g.distinct, "wall_s": round(g.wall_s, 1),
                                 "invariant": "Lawful (PauliAlg = matrix algebra on every emitted case, exact)"},
                   "trace": {"generated": tr.generated, "distinct": tr.distinct, "wall_s": round(tr.wall_s, 1)}}}
    return CheckResult(coverage=cov, violations=cx.agg.violations(),
                       assumptions=["coefficients are Gaussian dyadics (exactly representable in binary floating point), so exact results are "
                                    "observable; arbitrary complex coefficients follow by bilinearity of every operation checked",
                                    "float comparison of matrices at 1e-8 against exact ring values evaluated in float64",
                                    "numpy interface only (no autograd/jax/torch coefficients, no batched coefficients)"])
