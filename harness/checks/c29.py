"""C29 Finite-shot sampling follows the Born rule (default.qubit with shots; a few default.mixed executions).

Exact clauses - decided by TLC on recorded outputs (spec/trace/Trace_Sampling.tla on top of ShotsSpec.tla):
  every sampled outcome is a valid bitstring / eigenvalue, counts total the shots of their bin, probabilities and expectation values
  are relative frequencies / means of eigenvalues over exactly the bin's shots, and a shot vector comes back as one result per element
  of the expanded specification with ShotsSpec.Bins sizes (a tuple over bins exactly when the specification is partitioned).
  Inputs: every shot specification of <= 2 entries over counts {1,2,3} x copies {-,1,2} on fixed circuits (exhaustive) and the large
  seeded executions of the statistical part.
Statistical clause (partial): G-test of the empirical distribution of every returned bin against TLC's exact probabilities
  (TapeEval.tla, ring level M = 4) for seeded random circuits x measurement kinds, NumPy generator (integer device seed) and JAX
  generator (device seed = PRNG key), significance 1e-9 with one independent retry at 10x shots.
"""
import itertools
import json
import random
import time
import warnings

import numpy as np

import pennylane as qp

from .. import devsim, lib, tapeeval
from ..codec import decode_gate, rec
from ..lib import CheckResult, Violation
from .c21 import chi2_sf, gtest

M = 4
NONINT = 99999


# ------------------------------------------------------------------------------------------------- shot specifications
def spec_arg(s):
    """ShotsSpec encoding -> python argument"""
    if s["k"] == "int":
        return s["n"]
    return [n if c == 0 else (n, c) for n, c in s["e"]]


def expand(s):
    return [s["n"]] if s["k"] == "int" else [n for n, c in s["e"] for _ in range(max(c, 1))]


def seq(*ents):
    return {"k": "seq", "n": 0, "e": [list(e) if isinstance(e, tuple) else [e, 0] for e in ents]}


def integer(n):
    return {"k": "int", "n": n, "e": []}


# ------------------------------------------------------------------------------------------------- measurements
def build_mp(m, labels):
    k = m[0]
    ws = lambda pos: [labels[w - 1] for w in pos]
    if k == "sample_w":
        return qp.sample(wires=ws(m[1]))
    if k == "counts_w":
        return qp.counts(wires=ws(m[1]))
    if k == "counts_all":
        return qp.counts(wires=ws(m[1]), all_outcomes=True)
    if k == "probs":
        return qp.probs(wires=ws(m[1]))
    obs = devsim.word_op(m[1], labels) if m[2] == "word" else qp.Projector(np.array(m[3]), wires=ws(m[1]))
    return {"sample_o": qp.sample, "counts_o": qp.counts, "expval": qp.expval}[k](obs)


def eigs_of(m):
    if m[0] in ("sample_o", "counts_o", "expval"):
        return [-1, 1] if m[2] == "word" else [0, 1]
    return []


def as_int(v):
    v = float(np.real(v))
    return int(round(v)) if abs(v - round(v)) < 1e-9 else NONINT


def hist_rows(a):
    a = np.asarray(a)
    if a.size == 0:
        return []
    u, c = np.unique(a, axis=0, return_counts=True)
    return [{"o": [as_int(x) for x in row], "c": int(n)} for row, n in zip(u, c)]


def record_bin(m, o, shots_hint):
    """discrete content of one bin's result (a conversion only; every judgement is TLC's); a result that cannot be read at all is
    recorded as a malformed bin (rows -1 / negative count / inexact value), which no clause of the trace specification accepts"""
    k = m[0]
    b = {"rows": 0, "cols": 0, "h": [], "num": [], "exact": 1}
    try:
        if k in ("sample_w", "sample_o"):
            a = np.asarray(o)
            if a.ndim == 0:
                a = a.reshape(1, 1)
            elif a.ndim == 1:
                a = a.reshape(-1, 1)
            else:
                a = a.reshape(a.shape[0], int(np.prod(a.shape[1:])))
            b["rows"], b["cols"] = int(a.shape[0]), int(a.shape[1])
            b["h"] = hist_rows(a)
        elif k in ("counts_w", "counts_all"):
            for key, v in o.items():
                b["h"].append({"o": [int(ch) if ch in "01" else 9 for ch in str(key)], "c": int(v)})
        elif k == "counts_o":
            for key, v in o.items():
                b["h"].append({"o": [as_int(key)], "c": int(v)})
        else:
            vals = np.atleast_1d(np.asarray(o, dtype=float)).reshape(-1) * shots_hint
            b["num"] = [int(round(x)) for x in vals]
            b["exact"] = int(all(abs(x - round(x)) < 1e-6 for x in vals))
    except Exception:  # noqa: BLE001
        b = {"rows": -1, "cols": -1, "h": [{"o": [9], "c": -1}], "num": [-1], "exact": 0}
    return b


def make_record(spec, m, result):
    l = expand(spec)
    wrapped = isinstance(result, tuple)
    bins = list(result) if wrapped else [result]
    return {"spec": spec, "kind": m[0], "k": 1 if m[0] in ("sample_o", "counts_o", "expval") else len(m[1]),
            "eigs": eigs_of(m), "wrapped": int(wrapped), "nb": len(bins),
            "bins": [record_bin(m, o, l[i] if i < len(l) else 1) for i, o in enumerate(bins)]}


def counts_vector(m, o, kdim):
    """empirical counts of one bin as a vector over the outcomes (for the G-test); None when the result cannot be read"""
    k = m[0]
    try:
        if k == "sample_w":
            a = np.asarray(o)
            a = a.reshape(a.shape[0], -1).astype(int)
            return np.bincount(a.dot(1 << np.arange(a.shape[1])[::-1]), minlength=kdim).astype(float)
        if k in ("counts_w", "counts_all"):
            v = np.zeros(kdim)
            for key, c in o.items():
                v[int(str(key), 2)] += int(c)
            return v
        if k == "probs":
            return None
        ev = eigs_of(m)          # [-1, 1] or [0, 1]; outcome order of the expected vector: [eig=ev[1]... see expected_vector]
        if k == "sample_o":
            a = np.asarray(o, dtype=float).reshape(-1)
            return np.array([np.sum(np.isclose(a, ev[1])), np.sum(np.isclose(a, ev[0]))], dtype=float)
        if k == "counts_o":
            v = np.zeros(2)
            for key, c in o.items():
                v[0 if np.isclose(float(key), ev[1]) else 1] += int(c)
            return v
    except Exception:  # noqa: BLE001 - unreadable results are judged by the trace specification
        return None
    return None


def run_exec(devname, ops, mps, spec, seed_obj, n, qnode):
    kw = {"wires": n} if devname == "default.mixed" else {}
    dev = qp.device(devname, seed=seed_obj, **kw)
    with warnings.catch_warnings():
        warnings.simplefilter("ignore")
        if qnode:
            def f():
                for op in ops:
                    qp.apply(op)
                return tuple(qp.apply(mp) for mp in mps)
            out = qp.set_shots(qp.QNode(f, dev, diff_method=None), shots=spec_arg(spec))()
        else:
            out = qp.execute([qp.tape.QuantumScript(ops, mps, shots=spec_arg(spec))], dev, diff_method=None)[0]
    return out


def per_measurement(out, spec, nm):
    """result of an execution -> list over measurements of (tuple over bins | single result)"""
    part = len(expand(spec)) > 1
    if part:
        if not isinstance(out, tuple):
            return [out] * nm
        if nm == 1:
            return [tuple(out)]
        return [tuple(b[j] for b in out) for j in range(nm)]
    return [out] if nm == 1 else list(out)


def rand_measurements(rng, n):
    ms = []
    sub = lambda: rng.sample(range(1, n + 1), rng.randint(1, n))
    word = lambda: [rng.randint(1, 3) if rng.random() < 0.7 else 0 for _ in range(n)]
    for k in rng.sample(["sample_w", "counts_w", "counts_all", "probs", "sample_o", "counts_o", "expval", "sample_w", "proj"], rng.randint(3, 5)):
        if k in ("sample_w", "counts_w", "counts_all", "probs"):
            ms.append((k, sub()))
        elif k == "proj":
            ws = sub()[:2]
            ms.append((rng.choice(["sample_o", "counts_o", "expval"]), ws, "proj", [rng.randint(0, 1) for _ in ws]))
        else:
            pw = word()
            if not any(pw):
                pw[rng.randrange(n)] = 3
            ms.append((k, pw, "word"))
    return ms


def tlc_requests(ms):
    req = []
    for m in ms:
        if len(m) >= 3 and m[2] == "word":
            req.append({"t": "expval", "pw": list(m[1])})
        else:
            req.append({"t": "probs", "w": list(m[1])})
    return req


def expected_vector(m, val):
    """exact distribution of the measurement's outcomes from TapeEval's value"""
    if len(m) >= 3 and m[2] == "word":
        return np.array([(1 + val) / 2, (1 - val) / 2])          # [P(+1), P(-1)]
    if len(m) >= 3 and m[2] == "proj":
        p = float(np.asarray(val)[int("".join(map(str, m[3])), 2)])
        return np.array([p, 1 - p])                                # [P(1), P(0)]
    return np.asarray(val, dtype=float)


NEG = [  # hand-written records: (name, record, expected verdict)
    ("valid", {"spec": seq(2, (1, 2)), "kind": "sample_w", "k": 2, "eigs": [], "wrapped": 1, "nb": 3, "bins": [
        {"rows": 2, "cols": 2, "h": [{"o": [0, 1], "c": 2}], "num": [], "exact": 1}, {"rows": 1, "cols": 2, "h": [{"o": [1, 1], "c": 1}], "num": [], "exact": 1},
        {"rows": 1, "cols": 2, "h": [{"o": [0, 0], "c": 1}], "num": [], "exact": 1}]}, "ok"),
    ("bins-swapped", {"spec": seq(2, (1, 2)), "kind": "sample_w", "k": 2, "eigs": [], "wrapped": 1, "nb": 3, "bins": [
        {"rows": 1, "cols": 2, "h": [{"o": [0, 1], "c": 1}], "num": [], "exact": 1}, {"rows": 2, "cols": 2, "h": [{"o": [1, 1], "c": 2}], "num": [], "exact": 1},
        {"rows": 1, "cols": 2, "h": [{"o": [0, 0], "c": 1}], "num": [], "exact": 1}]}, "sample-shape"),
    ("bin-missing", {"spec": seq(2, (1, 2)), "kind": "sample_w", "k": 2, "eigs": [], "wrapped": 1, "nb": 2, "bins": [
        {"rows": 2, "cols": 2, "h": [{"o": [0, 1], "c": 2}], "num": [], "exact": 1}, {"rows": 2, "cols": 2, "h": [{"o": [1, 1], "c": 2}], "num": [], "exact": 1}]},
     "number-of-bins"),
    ("not-wrapped", {"spec": seq((3, 1)), "kind": "counts_w", "k": 1, "eigs": [], "wrapped": 1, "nb": 1, "bins": [
        {"rows": 0, "cols": 0, "h": [{"o": [0], "c": 3}], "num": [], "exact": 1}]}, "shot-vector-wrapping"),
    ("bit-2", {"spec": integer(3), "kind": "sample_w", "k": 2, "eigs": [], "wrapped": 0, "nb": 1, "bins": [
        {"rows": 3, "cols": 2, "h": [{"o": [0, 1], "c": 2}, {"o": [2, 0], "c": 1}], "num": [], "exact": 1}]}, "invalid-bitstring"),
    ("eig-0", {"spec": integer(3), "kind": "sample_o", "k": 1, "eigs": [-1, 1], "wrapped": 0, "nb": 1, "bins": [
        {"rows": 3, "cols": 1, "h": [{"o": [1], "c": 2}, {"o": [0], "c": 1}], "num": [], "exact": 1}]}, "invalid-eigenvalue"),
    ("counts-total", {"spec": integer(10), "kind": "counts_w", "k": 2, "eigs": [], "wrapped": 0, "nb": 1, "bins": [
        {"rows": 0, "cols": 0, "h": [{"o": [0, 1], "c": 6}, {"o": [1, 1], "c": 5}], "num": [], "exact": 1}]}, "counts-do-not-total-the-shots"),
    ("counts-key-length", {"spec": integer(10), "kind": "counts_w", "k": 2, "eigs": [], "wrapped": 0, "nb": 1, "bins": [
        {"rows": 0, "cols": 0, "h": [{"o": [0, 1, 0], "c": 10}], "num": [], "exact": 1}]}, "invalid-bitstring"),
    ("all-outcomes", {"spec": integer(4), "kind": "counts_all", "k": 2, "eigs": [], "wrapped": 0, "nb": 1, "bins": [
        {"rows": 0, "cols": 0, "h": [{"o": [0, 1], "c": 4}, {"o": [0, 0], "c": 0}, {"o": [1, 1], "c": 0}], "num": [], "exact": 1}]}, "all-outcomes-missing"),
    ("probs-total", {"spec": integer(8), "kind": "probs", "k": 1, "eigs": [], "wrapped": 0, "nb": 1, "bins": [
        {"rows": 0, "cols": 0, "h": [], "num": [5, 4], "exact": 1}]}, "probs-do-not-total-the-shots"),
    ("expval-parity", {"spec": integer(8), "kind": "expval", "k": 1, "eigs": [-1, 1], "wrapped": 0, "nb": 1, "bins": [
        {"rows": 0, "cols": 0, "h": [], "num": [3], "exact": 1}]}, "expval-not-a-mean-of-eigenvalues"),
    ("expval-ok", {"spec": integer(8), "kind": "expval", "k": 1, "eigs": [-1, 1], "wrapped": 0, "nb": 1, "bins": [
        {"rows": 0, "cols": 0, "h": [], "num": [-4], "exact": 1}]}, "ok"),
]


def run(tier, seed):
    quick = tier == "quick"
    rng = random.Random(2900 + seed)
    viol, seen = [], {}

    def flag(key, detail, replay=None):
        seen[key] = seen.get(key, 0) + 1
        if seen[key] <= 2:
            viol.append(Violation(key=key, detail=detail, replay=replay))
    records, meta = [], []
    cnt = {"executions": 0, "numpy_generator": 0, "jax_generator": 0, "default_mixed": 0, "qnode_set_shots": 0, "partitioned_executions": 0,
           "bins_recorded": 0, "bins_concat_equals_single_run": 0, "bins_concat_compared": 0, "tests_with_3+_possible_outcomes": 0,
           "tests_with_non_uniform_distribution": 0}

    # ------------------------------------------------------------ (1) exhaustive small shot specifications on fixed circuits
    ents = [(n, c) for n in (1, 2, 3) for c in (0, 1, 2)]
    specs = [integer(n) for n in (1, 2, 3, 7)] + [{"k": "seq", "n": 0, "e": [list(e) for e in es]} for L in (1, 2) for es in itertools.product(ents, repeat=L)]
    if not quick:
        specs += [{"k": "seq", "n": 0, "e": [list(e) for e in es]} for es in itertools.product(ents[:6], repeat=3)]
    fixed_ops = [qp.Hadamard(0), qp.CNOT([0, 1]), qp.RY(0.7, 2), qp.S(1)]
    fixed_ms = [("sample_w", [3, 1]), ("sample_w", [2]), ("counts_w", [1, 2, 3]), ("counts_all", [2, 3]), ("probs", [3, 2]), ("sample_o", [1, 1, 0], "word"),
                ("counts_o", [0, 2, 3], "word"), ("expval", [3, 3, 0], "word"), ("sample_o", [1, 3], "proj", [1, 0]), ("expval", [2], "proj", [1])]
    labels3 = [0, 1, 2]
    for si, spec in enumerate(specs):
        ms = fixed_ms if si % 3 == 0 else [fixed_ms[(si + t) % len(fixed_ms)] for t in (0, 3, 7)]
        devname = "default.mixed" if si % 7 == 3 else "default.qubit"
        try:
            out = run_exec(devname, fixed_ops, [build_mp(m, labels3) for m in ms], spec, 100 + si + seed, 3, qnode=si % 2 == 0)
        except Exception as e:  # noqa: BLE001
            flag(f"exception:{devname}:{type(e).__name__}", f"{type(e).__name__}: {e} for shots={spec_arg(spec)} measurements={ms}", {"spec": spec})
            continue
        cnt["executions"] += 1
        cnt["default_mixed"] += devname == "default.mixed"
        cnt["qnode_set_shots"] += si % 2 == 0
        cnt["partitioned_executions"] += len(expand(spec)) > 1
        for m, res in zip(ms, per_measurement(out, spec, len(ms))):
            records.append(make_record(spec, m, res))
            meta.append({"dev": devname, "m": m, "spec": spec, "ops": "fixed"})

    # ------------------------------------------------------------ (2) seeded circuits x measurement kinds: records + G-tests
    n_circ = 40 if quick else 400
    n_jax = 4 if quick else 24
    progs = []
    for i in range(n_circ + n_jax):
        jaxcase = i >= n_circ
        n = 3 if jaxcase else rng.choice([1, 2, 2, 3, 3, 4])
        # a layer of RY rotations by odd multiples of pi/4 first: every basis state gets weight, the distributions are not trivial
        circ = [rec("RY", [w], [rng.choice([1, 3, 5, 7, 9, 11, 13, 15])]) for w in range(1, n + 1)]
        circ += devsim.random_circuit(rng, n, M, rng.randint(2, 8), ["g1", "r1", "g2", "r2", "g3", "mrz", "adj", "p3"])
        ms = rand_measurements(rng, n)
        if jaxcase:
            spec = [integer(6000), seq(2000, 4000), seq((2000, 3)), seq(1000, (2500, 2))][i % 4]
        else:
            spec = rng.choice([integer(rng.choice([4000, 8000, 20000])), seq(2000, 4000), seq((3000, 2), 1500), seq(1000, (2000, 3)), seq((2500, 2)),
                               seq(4000, 4000, 1000)])
        progs.append({"n": n, "circ": circ, "ms": ms, "spec": spec, "jax": jaxcase,
                      "dev": "default.mixed" if (not jaxcase and i % 8 == 5) else "default.qubit", "qnode": i % 3 == 0})
    res, stats = tapeeval.evaluate("C29", [{"n": p["n"], "ops": p["circ"], "meas": tlc_requests(p["ms"])} for p in progs], M)
    n_stat, n_retry, samples = 0, 0, []
    t_jax = 0.0
    for pi, (p, r) in enumerate(zip(progs, res)):
        n, labels = p["n"], list(range(p["n"]))
        ops = [decode_gate(g, M, labels) for g in p["circ"]]
        mps = lambda: [build_mp(m, labels) for m in p["ms"]]

        def seed_obj(k):
            if p["jax"]:
                import jax
                return jax.random.PRNGKey(k)
            return k
        t0 = time.time()
        try:
            out = run_exec(p["dev"], ops, mps(), p["spec"], seed_obj(5000 + 31 * pi + seed), n, p["qnode"])
        except Exception as e:  # noqa: BLE001
            flag(f"exception:{p['dev']}:{'jax' if p['jax'] else 'numpy'}:{type(e).__name__}", f"{type(e).__name__}: {e} for shots={spec_arg(p['spec'])} ops={ops} measurements={p['ms']}",
                 {"program": p})
            continue
        if p["jax"]:
            t_jax += time.time() - t0
        cnt["executions"] += 1
        cnt["jax_generator" if p["jax"] else "numpy_generator"] += 1
        cnt["default_mixed"] += p["dev"] == "default.mixed"
        cnt["qnode_set_shots"] += p["qnode"]
        l = expand(p["spec"])
        cnt["partitioned_executions"] += len(l) > 1
        pm = per_measurement(out, p["spec"], len(p["ms"]))
        # mechanism (drift only): the bins are consecutive slices of one run of total shots with the same seed
        if len(l) > 1 and not p["jax"] and pi % 4 == 0:
            try:
                single = per_measurement(run_exec(p["dev"], ops, mps(), integer(sum(l)), seed_obj(5000 + 31 * pi + seed), n, p["qnode"]), integer(sum(l)), len(p["ms"]))
                for m, a, b in zip(p["ms"], pm, single):
                    if m[0] in ("sample_w", "sample_o") and isinstance(a, tuple):
                        cnt["bins_concat_compared"] += 1
                        cnt["bins_concat_equals_single_run"] += bool(np.array_equal(np.concatenate([np.asarray(x) for x in a]), np.asarray(b)))
            except Exception:  # noqa: BLE001
                pass
        for mi, (m, resm) in enumerate(zip(p["ms"], pm)):
            records.append(make_record(p["spec"], m, resm))
            meta.append({"dev": p["dev"], "m": m, "spec": p["spec"], "ops": [str(o) for o in ops], "gen": "jax" if p["jax"] else "numpy"})
            exp = expected_vector(m, r["meas"][mi])
            bins = list(resm) if isinstance(resm, tuple) else [resm]
            for bi, o in enumerate(bins):
                if bi >= len(l):
                    break
                sh = l[bi]
                if m[0] in ("probs", "expval"):
                    v = np.asarray(o, dtype=float)
                    cv = v * sh if m[0] == "probs" else (np.array([(1 + float(v)) / 2, (1 - float(v)) / 2]) * sh if m[2] == "word" else np.array([float(v), 1 - float(v)]) * sh)
                else:
                    cv = counts_vector(m, o, len(exp))
                if cv is None or abs(cv.sum() - sh) > 1e-6 or np.any(cv < -1e-9):
                    continue        # malformed results are judged by the trace specification
                n_stat += 1
                cnt["tests_with_3+_possible_outcomes"] += int(np.sum(np.asarray(exp) > 1e-9) >= 3)
                cnt["tests_with_non_uniform_distribution"] += int(np.ptp(np.asarray(exp)) > 0.02)
                g, df = gtest(cv, exp, sh)
                if chi2_sf(g, df) < 1e-9:
                    n_retry += 1
                    try:
                        o2 = run_exec(p["dev"], ops, [build_mp(m, labels)], integer(10 * sh), seed_obj(770001 + 31 * pi + mi + seed), n, False)
                        if m[0] in ("probs", "expval"):
                            v2 = np.asarray(o2, dtype=float)
                            cv2 = v2 * 10 * sh if m[0] == "probs" else (np.array([(1 + float(v2)) / 2, (1 - float(v2)) / 2]) if m[2] == "word" else np.array([float(v2), 1 - float(v2)])) * 10 * sh
                        else:
                            cv2 = counts_vector(m, o2, len(exp))
                        g2, df2 = gtest(cv2, exp, 10 * sh)
                        bad = chi2_sf(g2, df2) < 1e-9
                    except Exception as e:  # noqa: BLE001
                        bad, cv2 = True, cv
                    if bad:
                        flag(f"distribution:{m[0]}:{'jax' if p['jax'] else 'numpy'}:{p['dev']}",
                             f"{m} bin {bi} of shots={spec_arg(p['spec'])}: empirical {(cv2 / max(cv2.sum(), 1)).round(4).tolist()} vs exact {np.round(exp, 4).tolist()} "
                             f"for {[str(o_) for o_ in ops]}", {"program": {k_: v_ for k_, v_ in p.items()}, "measurement": list(m)})
        if len(samples) < 3 and len(l) > 1 and len(ops) >= 4:
            samples.append({"device": p["dev"], "generator": "jax" if p["jax"] else "numpy", "ops": [str(o) for o in ops], "shots": spec_arg(p["spec"]),
                            "measurements": [str(m) for m in p["ms"]], "exact": [np.round(expected_vector(m, r["meas"][i]), 4).tolist() for i, m in enumerate(p["ms"])][:3]})

    # ------------------------------------------------------------ TLC: the exact clauses on every recorded result
    allrecs = records + [x[1] for x in NEG]
    wd = lib.workdir("C29", "trace")
    (wd / "traces.json").write_text(json.dumps(allrecs))
    tr = lib.run_tlc("Trace_Sampling", lib.cfg(init="TInit", next_="TNext", constants={"NTRACES": len(allrecs)}), wd,
                     env={"TRACE_FILE": str(wd / "traces.json")}, timeout=3000)
    lib.require_ok(tr, "Trace_Sampling")
    verd = {t[1] - 1: t[2] for t in tr.tuples if t[0] == "V"}
    if len(verd) != len(allrecs):
        raise lib.MachineryError(f"verdicts not total: {len(verd)} of {len(allrecs)}")
    nneg = 0
    for k, (name, _, want) in enumerate(NEG):
        if verd[len(records) + k] != want:
            raise lib.MachineryError(f"trace control '{name}': expected {want}, TLC said {verd[len(records) + k]}")
        nneg += want != "ok"
    nontriv = set()
    for j, (rec_, mt) in enumerate(zip(records, meta)):
        cnt["bins_recorded"] += rec_["nb"]
        if verd[j] != "ok":
            flag(f"exact:{mt['m'][0]}:{verd[j]}:{mt['dev']}", f"Trace_Sampling rejects the result of {mt['m']} with shots={spec_arg(mt['spec'])} on {mt['dev']} "
                 f"(ops {mt['ops']}): {verd[j]}; recorded {json.dumps(rec_)[:600]}", {"record": rec_, "meta": mt})
        elif rec_["nb"] > 1:
            nontriv.add(json.dumps([mt["spec"], list(mt["m"]), mt["ops"]], sort_keys=True, default=str))
    if cnt["partitioned_executions"] < 30 or n_stat < 150 or cnt["jax_generator"] < 1:
        raise lib.MachineryError(f"vacuous: {cnt} statistical tests {n_stat}")
    cov = {"states": tr.distinct + stats["distinct"], "transitions": tr.generated + stats["generated"],
           "traces_validated_against_impl": len(records), "evaluations": len(records) + n_stat, "distinct_nontrivial": len(nontriv),
           "rule": "recorded (execution, measurement) results: every shot specification of <= 2 entries over counts {1,2,3} x copies {none,1,2} on a fixed "
                   "3-wire circuit x 10 measurement kinds, plus seeded random circuits (1-4 wires) with 4000-20000 shots; non-trivial = distinct "
                   "(specification, measurement, circuit) with a partitioned specification whose bins TLC accepted",
           "samples": samples, "exhaustive": True, "statistical_tests": n_stat, "statistical_retries": n_retry, "negative_controls_rejected": nneg,
           "shot_specifications_enumerated": len(specs), "jax_wall_s": round(t_jax, 1), "tlc_wall_s": round(tr.wall_s + stats["wall_s"], 1), **cnt,
           "violation_counts_by_key": seen}
    return CheckResult(coverage=cov, violations=viol, assumptions=[
        "statistical clause (partial): G-test per returned bin at significance 1e-9 with one independent retry at 10x shots; independence between "
        "bins and between shots is not tested",
        "exact clause: histograms of the distinct outcomes (numpy.unique) are what TLC validates; observables with eigenvalues +-1 (Pauli words) and "
        "0/1 (basis-state projectors)",
        "generators: NumPy (integer seed) on default.qubit and default.mixed, JAX PRNG key on default.qubit; other interfaces are not exercised"])
