"""C06 Copies, pickles, pytrees and rebinding reproduce operators.

(M) spec/sys/OpHeap.tla is model-checked exhaustively: objects are heap nodes whose content is read through mutable
    cells; actions shallow / deep / pickle / flat_pl / flat_jax / bind / rebind / mutate.  Invariants: PropertyOK (no clause
    of Fails on any event), NoDrift, DeepFresh, TypeOK.  Negative control of the model: with DeepMode = "keepleaves" (a
    deepcopy that keeps the parameter leaves) TLC must find a violation.
(G) spec/gen/OpHeapGen.tla emits every history of MaxSteps actions (in-place write last); the driver replays histories
    on real objects over the instance space of harness/c06_space.py (gate-table classes at lattice angles, symbolic
    wrappers, channels, observables, templates, measurement processes; int / str / mixed wire labels).
(T) every replay is recorded as a trace of events (contents through the public accessors, id()-graph of mutable
    containers, qp.equal, exception class) and judged by spec/trace/Trace_OpHeap.tla with OpHeap!Fails, one event per
    TLC step, verdicts total.
(E) for gate-table operators and their adjoint/pow/ctrl wrappers TLC additionally decides Sem(copy) = Sem(original) EXACTLY
    (spec/trace/CircuitEq.tla through harness/rel.py): the reference record is the generator's own, the other side is the
    encoding of the object the library produced."""
import json
import random
import resource
import time
from collections import Counter

import numpy as np

import pennylane as qp

from .. import c06_space as S
from .. import lib, rel
from ..codec import OffLattice, encode_op, rec, wire_positions
from ..lib import CheckResult, Violation

PRESERVING = ("shallow", "deep", "pickle", "flat_pl", "flat_jax", "bind")
MODEL_INVS = ["PropertyOK", "NoDrift", "DeepFresh", "TypeOK"]


# ------------------------------------------------------------------------------------------------ (M) + (G)
def model_and_histories(tier):
    """One TLC run model-checks OpHeap (2 parameter cells) AND emits the histories; a second run is the negative control of
    the model (a deepcopy that keeps the parameter leaves must be exposed by the cell graph and by an in-place write)."""
    steps = 3 if tier == "quick" else 4
    g = lib.run_tlc("OpHeapGen", lib.cfg(constants={"MaxSteps": steps, "NParams": 2, "DeepMode": '"spec"'}, invariants=MODEL_INVS,
                                         constraints=["Emit"]), lib.workdir("C06", "gen"), timeout=3000)
    lib.require_ok(g, "OpHeapGen / OpHeap model")
    n = lib.run_tlc("OpHeap", lib.cfg(constants={"MaxSteps": 3, "NParams": 2, "DeepMode": '"keepleaves"'}, invariants=["NegWitness"]),
                    lib.workdir("C06", "model_neg"), timeout=3000)
    if n.invariant_violated != "NegWitness":
        raise lib.MachineryError(f"negative control of the model: a deepcopy that keeps the leaves is not exposed ({n.error})")
    seen, hists = set(), []
    for j in g.json_lines:
        k = json.dumps(j["h"], sort_keys=True)
        if k not in seen:
            seen.add(k)
            hists.append((k, j["h"]))
    hists = [h for _, h in sorted(hists)]                 # TLC prints in worker order: sort for determinism
    if len(hists) < 1000:
        raise lib.MachineryError(f"generator produced too few histories: {len(hists)}")
    return g, hists, 1, steps


# ------------------------------------------------------------------------------------------------ history selection
def root_acts(h):
    return {(s["act"], s["arg"]) for s in h if s["src"] == 1 and s["act"] != "mutate"}


def _h(*steps):
    return json.dumps([{"act": a, "arg": g, "src": s} for (a, s, g) in steps], sort_keys=True)


CHAIN_REBIND = _h(("rebind", 1, "v1"), ("flat_pl", 2, ""), ("flat_jax", 2, ""))
CHAIN_BIND = _h(("bind", 1, ""), ("flat_jax", 2, ""), ("pickle", 2, ""))


def choose_histories(rng, pools, inst, n_extra, idx=0):
    """Histories for one instance: a seeded greedy cover of every root-level action (each class has its own _flatten,
    __copy__, dispatch ...) plus n_extra random histories (chains / in-place writes)."""
    key = (inst.is_mp, inst.int_wires)
    pool, cover_pool, extra_pool = pools[key]
    need = set()
    for h in cover_pool[:200]:
        need |= root_acts(h)
    chosen = []
    while need:
        cands = rng.sample(cover_pool, min(40, len(cover_pool)))
        best = max(cands, key=lambda h: (len(root_acts(h) & need), sum(1 for s in h if s["src"] > 1)))
        gain = root_acts(best) & need
        if not gain:
            continue
        need -= gain
        chosen.append(best)
    for _ in range(n_extra):
        chosen.append(rng.choice(pools["deepwrite"][key] if rng.random() < 0.7 else extra_pool))
    # two fixed chains (members of TLC's set) so that composition defects show up for every seed: reproduce a REBOUND object
    # through both pytrees, reproduce a CAPTURE-BOUND object through a pytree and pickle
    if not inst.is_mp and CHAIN_REBIND in pools["all"]:
        chosen.append(json.loads(CHAIN_REBIND))
    if inst.int_wires and (inst.is_mp or idx % 5 == 0) and CHAIN_BIND in pools["all"]:
        chosen.append(json.loads(CHAIN_BIND))
    return chosen


def make_pools(hists, bind_in_chains):
    pools = {"all": {json.dumps(h[:3], sort_keys=True) for h in hists}}      # 3-step prefixes of TLC's behaviours
    for is_mp in (False, True):
        for int_w in (False, True):
            ok = []
            for h in hists:
                acts = [s["act"] for s in h]
                if is_mp and "rebind" in acts:
                    continue
                if not int_w and "bind" in acts:
                    continue
                ok.append(h)
            # cover pool: bind only from the root (a bind costs ~25 ms); extra pool: chains, preferably ending in a write
            cover = [h for h in ok if all(s["act"] != "bind" or s["src"] == 1 for s in h) and h[-1]["act"] != "mutate"
                     and sum(1 for s in h if s["act"] == "bind") <= 1]
            extra = [h for h in ok if any(s["src"] > 1 for s in h) and (bind_in_chains or all(s["act"] != "bind" for s in h))]
            pools[(is_mp, int_w)] = (ok, cover, extra)
            # deep copy followed by an in-place write to the copy or to its source (the isolation clause)
            pools.setdefault("deepwrite", {})[(is_mp, int_w)] = [
                h for h in extra if h[-1]["act"] == "mutate" and any(
                    s["act"] == "deep" and (k + 2 == h[-1]["src"] or s["src"] == h[-1]["src"]) for k, s in enumerate(h[:-1]))]
    return pools


# ------------------------------------------------------------------------------------------------ (R) replay on real objects
class Renum:
    """id() values -> small integers, stable within one trace (every object of the trace stays alive)."""

    def __init__(self):
        self.m = {}

    def __call__(self, i):
        return self.m.setdefault(i, len(self.m) + 1)


def _digest(c, texts):
    """content record for TLC: long texts replaced by digests (the texts are kept on the Python side for the reports)."""
    out = {"cls": c["cls"], "wires": c["wires"], "params": c["params"], "ifc": c.get("ifc", "")}
    for k in ("hyper", "shape"):
        t = c.get(k, "")
        if len(t) > 48:
            import hashlib
            d = "#" + hashlib.sha1(t.encode()).hexdigest()[:20]
            texts[d] = t
            t = d
        out[k] = t
    return out


def pick_cell(obj, kind):
    """The container the in-place write goes to: kind 'p' a parameter array, 'h' a hyper-parameter dict / operand list."""
    g = S.cell_graph(obj)
    if kind == "p":
        data_ids = []
        try:
            stack = list(obj.data) if not isinstance(obj, S.MeasurementProcess) else [getattr(obj, "_eigvals", None), obj.obs]
        except Exception:
            stack = []
        while stack:
            d = stack.pop(0)
            if isinstance(d, np.ndarray):
                data_ids.append(id(d))
            elif isinstance(d, (list, tuple)):
                stack.extend(d)
            elif isinstance(d, (S.Operator, S.Operator2)):
                stack.extend(d.data)
        for i in data_ids:
            if i in g and g[i][0] == "arr" and g[i][1].flags.writeable and g[i][1].size and g[i][1].dtype != object:
                return i, g[i]
        return None
    pref = []
    hp = vars(obj).get("_hyperparameters")
    if isinstance(hp, dict):
        pref.append(id(hp))
    ba = vars(obj).get("_bound_args")
    if ba is not None:
        pref.append(id(ba.arguments))
    for i in pref:
        if i in g:
            return i, g[i]
    for i, (k, x) in g.items():
        if k == "list":
            return i, (k, x)
    for i, (k, x) in g.items():
        if k == "dict":
            return i, (k, x)
    return None


def replay_history(inst, hist, stats, texts):
    """-> trace {"ev": [...]} , per-event Python-side info (for reports and the exact-semantics cases)."""
    with qp.queuing.QueuingManager.stop_recording():
        root = inst.make(0)
        variants = {}

        def variant(v):
            if v not in variants:
                variants[v] = inst.make(v)
            return variants[v]
        nodes, prov, var = [root], [{"act": "root", "src": 0}], [0]
        contents = [S.safe_content(root)]
        ren = Renum()
        events, info = [], []
        tbl, tbl_ix = [], {}
        node_enc = {}
        rebound, bound = [False], [False]

        def intern(c):
            """content records are stored once per trace (compression only: TLC looks the records up and compares them)"""
            d = _digest(c, texts)
            k = json.dumps(d, sort_keys=True)
            if k not in tbl_ix:
                tbl.append(d)
                tbl_ix[k] = len(tbl)
            return tbl_ix[k]
        for st in hist:
            act, s, arg = st["act"], st["src"], st["arg"]
            if s > len(nodes):
                break
            src = nodes[s - 1]
            contents[s - 1] = S.safe_content(src)                      # the source, freshly read before the action
            pre = list(contents)
            newp_tok, exc, new, mc, eq = [], "", None, 0, True
            if act == "mutate":
                pc = pick_cell(src, arg)
                if pc is None or not S.mutate_cell(pc[1][0], pc[1][1]):
                    stats["mutate_skipped"] += 1
                    break
                mc = ren(pc[0])
                stats["mutations"] += 1
                contents = [S.safe_content(n) for n in nodes]
            else:
                try:
                    if act == "rebind":
                        v = int(arg[1])
                        b = variant(v)
                        newp_tok = S.content(b)["params"]
                        new = S.act_rebind(src, b.data)
                    else:
                        new = S.ACTIONS[act](src)
                except S.Skip as e:
                    stats["skipped:" + act] += 1
                    stats.setdefault("skip_reasons", {}).setdefault(str(e)[:60], 0)
                    stats["skip_reasons"][str(e)[:60]] += 1
                    break
                except Exception as e:          # pylint: disable=broad-except
                    exc = type(e).__name__
                    stats.setdefault("exceptions", {}).setdefault(f"{act}:{exc}:{type(root).__name__}", str(e)[:200])
                contents[s - 1] = S.safe_content(src)
                if new is not None:
                    nodes.append(new)
                    prov.append({"act": act, "src": s})
                    var.append(int(arg[1]) if act == "rebind" else var[s - 1])
                    contents.append(S.safe_content(new))
                    if act in PRESERVING:
                        try:
                            eq = bool(qp.equal(new, src, check_interface=act != "bind", check_trainability=act != "bind"))
                        except Exception as e:      # pylint: disable=broad-except
                            eq = False
                            stats.setdefault("equal_raised", {}).setdefault(type(root).__name__, f"{type(e).__name__}: {e}"[:160])
            graphs = [S.cell_graph(n) for n in nodes]
            cells = [sorted(ren(i) for i in gr) for gr in graphs]
            post = list(contents)
            note = ""
            if act == "deep" and new is not None:
                sh = set(graphs[s - 1]) & set(graphs[-1])
                if sh:
                    note = S.classify_cells(src, [(i, graphs[s - 1][i]) for i in sh])
            elif act == "mutate":
                note = S.classify_cells(src, [pc])
            elif act == "bind":
                note = S.wrapper_features(src)
            if act in PRESERVING and act != "deep" and (rebound[s - 1] or bound[s - 1]):
                # the source was produced (directly or not) by rebind / by capture binding
                note = "+".join(x for x in (note, "after-rebind" if rebound[s - 1] else "", "after-bind" if bound[s - 1] else "") if x)
            if new is not None:
                rebound.append(act == "rebind" or rebound[s - 1])
                bound.append(act == "bind" or bound[s - 1])
            events.append({"act": act, "src": s, "dst": len(nodes) if new is not None else (s if act == "mutate" else 0),
                           "pre": [intern(c) for c in pre], "post": [intern(c) for c in post],
                           "cells": cells, "newp": newp_tok, "eq": eq, "exc": exc, "mc": mc, "prov": [dict(p) for p in prov], "note": note})
            enc = None
            if new is not None and inst.table is not None:         # exact-semantics side: encode NOW (later steps may write in place)
                try:
                    enc = encode_op(new, wire_positions(inst.table["labels"]), S.M)
                except OffLattice as e:
                    stats["sem_unencodable"] += 1
                    stats.setdefault("sem_unencodable_why", {}).setdefault(str(e)[:80], 0)
                    stats["sem_unencodable_why"][str(e)[:80]] += 1
                except Exception as e:      # pylint: disable=broad-except
                    stats["sem_unencodable"] += 1
                    stats.setdefault("sem_unencodable_why", {}).setdefault(f"{type(e).__name__}: {e}"[:80], 0)
                    stats["sem_unencodable_why"][f"{type(e).__name__}: {e}"[:80]] += 1
            # reference of the exact-semantics comparison: the generator's own record at the root and after rebind, the encoding
            # of the SOURCE node (taken when it was made) further down a chain, so that a defect is reported where it happens
            ref = None
            if enc is not None:
                ref = dict(inst.table["recs"][var[-1]]) if (s == 1 or act == "rebind" or node_enc.get(s) is None) else node_enc[s]
                node_enc[len(nodes)] = enc
            info.append({"act": act, "src": s, "arg": arg, "enc": enc, "ref": ref})
            stats["events"] += 1
            stats["act:" + act] += 1
            if exc:
                break
    return {"tbl": tbl, "ev": events}, info


# ------------------------------------------------------------------------------------------------ hand-written negative controls
def _c(cls="m.C", wires=("i0",), params=("numpy:():0.5",), hyper="{}", shape="{}", ifc="numpy"):
    return {"cls": cls, "wires": list(wires), "params": list(params), "hyper": hyper, "shape": shape, "ifc": ifc}


def negative_traces():
    """(trace, clause TLC must report).  Written by hand: they do not depend on anything the implementation returned."""
    root = {"act": "root", "src": 0}
    a, b = _c(), _c(params=("numpy:():0.75",))

    def ev(act, pre, post, cells, **kw):
        e = {"act": act, "src": 1, "dst": len(post) if act != "mutate" else 1, "pre": pre, "post": post, "cells": cells, "newp": [], "eq": True,
             "exc": "", "mc": 0, "prov": [root] + [{"act": act, "src": 1}] * (len(post) - 1)}
        e.update(kw)
        return e
    out = [
        ({"ev": [ev("pickle", [a], [a, b], [[1], [2]])]}, "content:params"),
        ({"ev": [ev("shallow", [a], [a, _c(cls="m.D")], [[1], [1]])]}, "content:cls"),
        ({"ev": [ev("flat_pl", [a], [a, _c(wires=("i1",))], [[1], [1]])]}, "content:wires"),
        ({"ev": [ev("flat_jax", [a], [a, _c(hyper="{'k':1}")], [[1], [1]])]}, "content:hyper"),
        ({"ev": [ev("bind", [a], [a, a], [[1], [1]], eq=False)]}, "equal"),
        ({"ev": [ev("deep", [a], [a, a], [[1, 2], [2, 3]])]}, "deep:shared-cells"),
        ({"ev": [ev("deep", [a], [b, a], [[1], [2]])]}, "source-changed"),
        ({"ev": [ev("rebind", [a], [a, a], [[1], [2]], newp=["numpy:():0.75"])]}, "rebind:params"),
        ({"ev": [ev("rebind", [a], [a, _c(params=("numpy:():0.75",), shape="{x}")], [[1], [2]], newp=["numpy:():0.75"])]}, "rebind:attributes"),
        ({"ev": [ev("pickle", [a], [a], [[1]], exc="PicklingError", dst=0)]}, "raises"),
        ({"ev": [ev("deep", [a], [a, a], [[1], [2]]),
                 {"act": "mutate", "src": 2, "dst": 2, "pre": [a, a], "post": [b, b], "cells": [[1], [2]], "newp": [], "eq": True, "exc": "", "mc": 2,
                  "prov": [root, {"act": "deep", "src": 1}]}]}, "mutation-leaks"),
        ({"ev": [ev("shallow", [a], [a, _c(ifc="jax")], [[1], [1]])]}, "content:interface"),
    ]
    res = []
    for tr, clause in out:
        tbl = []
        for e in tr["ev"]:
            for f in ("pre", "post"):
                ix = []
                for c in e[f]:
                    if c not in tbl:
                        tbl.append(c)
                    ix.append(tbl.index(c) + 1)
                e[f] = ix
        res.append(({"tbl": tbl, "ev": tr["ev"]}, clause))
    return res


# ------------------------------------------------------------------------------------------------ run
class _Stats(dict):
    def __missing__(self, k):
        return 0


def run(tier, seed):
    t0 = (time.time(), time.process_time(), sum(resource.getrusage(resource.RUSAGE_CHILDREN)[:2]))
    rng = random.Random(seed)
    g, hists, model_negs, steps = model_and_histories(tier)
    insts, dropped = S.build_space(tier, seed)
    if len(dropped) > 6 or len(insts) < 400:
        raise lib.MachineryError(f"instance space collapsed: {len(insts)} instances, dropped recipes {dropped[:8]}")
    pools = make_pools(hists, bind_in_chains=tier != "quick")
    n_extra = 1 if tier == "quick" else 4
    plan = [(inst, choose_histories(rng, pools, inst, n_extra, idx)) for idx, inst in enumerate(insts)]
    return _judge(plan, tier, t0, g=g, n_hists=len(hists), model_negs=model_negs, steps=steps, insts=insts, dropped=dropped, full=True)


def replay(path, tier="quick", seed=0):
    """Re-run one recorded violation: the replay file names the instance (label of the space) and the history prefix."""
    t0 = (time.time(), time.process_time(), sum(resource.getrusage(resource.RUSAGE_CHILDREN)[:2]))
    d = json.loads(open(path).read())["replay"]
    inst = None
    for tr in (tier, "thorough", "quick"):
        insts, dropped = S.build_space(tr, seed)
        inst = next((i for i in insts if i.label == d["instance"]), None)
        if inst is not None:
            break
    if inst is None:
        raise lib.MachineryError(f"instance {d['instance']} is not in the space for seed {seed}")
    return _judge([(inst, [d["history"]])], tier, t0, g=None, n_hists=0, model_negs=0, steps=len(d["history"]), insts=[inst], dropped=[], full=False)


def _judge(plan, tier, t0, g, n_hists, model_negs, steps, insts, dropped, full):
    t_model = time.time() - t0[0]
    texts = {}
    traces, meta, sem_cases, sem_meta = [], [], [], []
    used_hist = set()
    classes = set()
    st = _Stats()
    for inst, chosen in plan:
        for h in chosen:
            tr, info = replay_history(inst, h, st, texts)
            if not tr["ev"]:
                continue
            used_hist.add(json.dumps(h[:len(tr["ev"])]))
            traces.append(tr)
            meta.append((inst, h, info))
            classes.add(tr["tbl"][tr["ev"][0]["pre"][0] - 1]["cls"])
            if inst.table is not None:
                for k, i in enumerate(info):
                    if i["enc"] is not None:
                        sem_cases.append({"n": inst.table["n"], "a": [i["ref"]], "bs": [{"b": [i["enc"]], "rel": "exact"}]})
                        sem_meta.append((inst, h, k, i["act"]))
    t_replay = time.time() - t0[0] - t_model
    # ---- negative controls (hand-written) appended to the batch
    negs = negative_traces()
    neg_at = {}
    for tr, clause in negs:
        neg_at[len(traces)] = clause
        traces.append(tr)
        meta.append(None)
    wd = lib.workdir("C06", "trace")
    (wd / "traces.json").write_text(json.dumps(traces))
    r = lib.run_tlc("Trace_OpHeap", lib.cfg(init="TInit", next_="TNext", constants={"NTRACES": len(traces), "MaxSteps": 99, "NParams": 1,
                                                                                     "DeepMode": '"spec"'}),
                    wd, env={"TRACE_FILE": str(wd / "traces.json")}, timeout=6000)
    lib.require_ok(r, "Trace_OpHeap")
    verd, fails, drifts = {}, {}, {}
    for t in r.tuples:
        if t[0] == "V":
            verd[t[1] - 1] = (t[2], t[3])
        elif t[0] == "E":
            fails.setdefault(t[1] - 1, []).append((t[2] - 1, t[3]))
        elif t[0] == "D":
            drifts.setdefault(t[1] - 1, []).append((t[2] - 1, t[3]))
    if len(verd) != len(traces):
        raise lib.MachineryError(f"verdicts not total: {len(verd)} of {len(traces)}")
    for ti, (nbad, nev) in verd.items():
        if nev != len(traces[ti]["ev"]) or (nbad > 0) != (ti in fails):
            raise lib.MachineryError(f"inconsistent verdict for trace {ti}")
    nneg = 0
    for ti, clause in neg_at.items():
        got = {c for (_, c) in fails.get(ti, [])}
        if clause not in got:
            raise lib.MachineryError(f"negative control not rejected: expected clause {clause}, TLC reported {sorted(got)}")
        nneg += 1
    # ---- violations from the trace verdicts
    viol, seen = [], set()
    drift_count = Counter()
    for ti, ds in drifts.items():
        if ti not in neg_at:
            for (_, c) in ds:
                drift_count[c] += 1
    per_clause = Counter()
    for ti, fs in sorted(fails.items()):
        if ti in neg_at:
            continue
        inst, h, info = meta[ti]
        for (k, clause) in sorted(fs):
            e = traces[ti]["ev"][k]
            tbl = traces[ti]["tbl"]
            cname = tbl[e["pre"][0] - 1]["cls"].rsplit(".", 1)[-1]
            actname = e["act"] if e["act"] != "mutate" else "deep"
            note = e.get("note", "")
            if clause in ("deep:shared-cells", "mutation-leaks"):
                key = f"deep:{clause.split(':')[-1]}:{note or 'unclassified'}:{cname}"
            elif clause.split(":")[0] == "rebind":
                key = f"{clause}:{cname}"
            else:
                key = f"{actname}:{clause}:{cname}" + (f":{e['exc']}" if clause == "raises" else "") + (f":{note}" if note and e["act"] != "deep" else "")
            per_clause[clause if clause.split(":")[0] in ("deep", "rebind") else f"{actname}:{clause}"] += 1
            if key in seen:
                continue
            seen.add(key)
            srcc, dstc = tbl[e["pre"][e["src"] - 1] - 1], (tbl[e["post"][e["dst"] - 1] - 1] if e["dst"] else None)

            def fulltext(c):
                return None if c is None else {kk: texts.get(v, v) if isinstance(v, str) else v for kk, v in c.items()}
            detail = f"{inst.label}: history {[(s['act'], s['src'], s['arg']) for s in h[:k + 1]]}; step {k + 1} ({e['act']} of node {e['src']}): TLC clause {clause}"
            if e["exc"]:
                detail += f"; raised {e['exc']}: {st.get('exceptions', {}).get(e['act'] + ':' + e['exc'] + ':' + cname, '')}"
            if clause == "deep:shared-cells":
                detail += f"; cells shared by copy and source: {sorted(set(e['cells'][e['src'] - 1]) & set(e['cells'][e['dst'] - 1]))} (renumbered ids of ndarray/list/dict objects)"
            viol.append(Violation(key=key, detail=detail,
                                  replay={"instance": inst.label, "family": inst.family, "history": h[:k + 1], "step": k + 1, "clause": clause,
                                          "source": fulltext(srcc), "result": fulltext(dstc), "newp": e["newp"], "qp_equal": e["eq"]}))
    # ---- (E) exact semantics of the reproduced table operators, decided by TLC.  Textually identical (reference, result)
    #      pairs are sent once; results with the same reference share one case (U_ref computed once).
    groups, order = {}, []
    for ci, c in enumerate(sem_cases):
        ka = json.dumps([c["n"], c["a"]], sort_keys=True)
        kb = json.dumps(c["bs"][0]["b"], sort_keys=True)
        if ka not in groups:
            groups[ka] = {"n": c["n"], "a": c["a"], "bs": {}, "users": {}}
            order.append(ka)
        grp = groups[ka]
        if kb not in grp["bs"]:
            grp["bs"][kb] = c["bs"][0]
        grp["users"].setdefault(kb, []).append(ci)
    allc, users = [], []
    for ka in order:
        grp = groups[ka]
        kbs = list(grp["bs"])
        allc.append({"n": grp["n"], "a": grp["a"], "bs": [grp["bs"][kb] for kb in kbs]})
        users.append([grp["users"][kb] for kb in kbs])
    n_real_cases = len(allc)
    for k in range(0, n_real_cases, max(1, n_real_cases // 12)):         # hand-made wrong results: first angle shifted by one lattice step
        c = allc[k]
        if c["a"][0]["p"]:
            allc.append({"n": c["n"], "a": [dict(c["a"][0])],
                         "bs": [{"b": [dict(c["a"][0], p=[(c["a"][0]["p"][0] + 1) % 16] + c["a"][0]["p"][1:])], "rel": "exact"}]})
    sem_stats = {"generated": 0, "distinct": 0}
    n_sem_ok = n_sem_neg = n_sem_tlc = 0
    if allc:
        verdicts, _, sem_stats = rel.validate("C06", allc, S.M, name="sem")
        for (ti, si), clause in sorted(verdicts.items()):
            if ti >= n_real_cases:
                if clause == "ok":
                    raise lib.MachineryError("negative control of the exact-semantics comparison accepted")
                n_sem_neg += 1
                continue
            if clause == "overflow":
                raise lib.MachineryError("ring coefficient overflow in CircuitEq")
            n_sem_tlc += 1
            for ci in users[ti][si]:
                inst, h, k, act = sem_meta[ci]
                if clause == "ok":
                    n_sem_ok += 1
                    continue
                key = f"{act}:semantics-{clause}:{type(inst.make(0)).__name__}"
                if key not in seen:
                    seen.add(key)
                    viol.append(Violation(key=key, detail=f"{inst.label}: history {[(s['act'], s['src'], s['arg']) for s in h[:k + 1]]}: the object produced at step "
                                                          f"{k + 1} has a different unitary than the reference record {allc[ti]['a'][0]} (TLC verdict {clause}); "
                                                          f"encoded result {allc[ti]['bs'][si]['b'][0]}",
                                          replay={"instance": inst.label, "history": h[:k + 1], "reference": allc[ti]["a"][0], "result": allc[ti]["bs"][si]["b"][0]}))
        if n_sem_neg != len(allc) - n_real_cases or (full and not n_sem_neg):
            raise lib.MachineryError("negative controls of the exact-semantics comparison missing")
    # ---- vacuity: every action, in-place writes after a deep copy and the exact-semantics side must really have been exercised
    if full:
        for a_ in PRESERVING + ("rebind", "mutate"):
            if st["act:" + a_] < 50:
                raise lib.MachineryError(f"vacuous: only {st['act:' + a_]} events of action {a_}")
        n_iso = sum(1 for tr in traces[:len(traces) - len(negs)] for e in tr["ev"] if e["act"] == "mutate" and any(
            (p["act"] == "deep" and (p["src"] == e["src"] or k + 1 == e["src"])) for k, p in enumerate(e["prov"])))
        if n_iso < 50 or n_sem_tlc < 100:
            raise lib.MachineryError(f"vacuous: {n_iso} writes next to a deep copy, {n_sem_tlc} exact-semantics pairs")
    else:
        n_iso = 0
    # ---- evidence
    n_real = len(traces) - len(negs)
    nontriv = set()
    n_events = 0
    for ti in range(n_real):
        inst, h, info = meta[ti]
        evs = traces[ti]["ev"]
        n_events += len(evs)
        c0 = traces[ti]["tbl"][evs[0]["pre"][0] - 1]
        if c0["params"] or "base" in texts.get(c0["hyper"], c0["hyper"]):
            nontriv.add((c0["cls"], tuple((e["act"], e["src"]) for e in evs)))
    allcls = S.all_concrete_classes()
    samples = []
    with_params = [ti for ti in range(n_real) if traces[ti]["tbl"][traces[ti]["ev"][0]["pre"][0] - 1]["params"]] or list(range(n_real))
    for ti in sorted({with_params[0], with_params[len(with_params) // 3], with_params[2 * len(with_params) // 3], with_params[-1]}):
        inst, h, info = meta[ti]
        samples.append({"instance": inst.label, "history": [(s["act"], s["src"], s["arg"]) for s in h[:len(traces[ti]["ev"])]],
                        "failing_clauses": [c for (_, c) in fails.get(ti, [])],
                        "result_params": traces[ti]["tbl"][traces[ti]["ev"][-1]["post"][-1] - 1]["params"][:3]})
    fam = Counter(i.family for i in insts)
    cov = {"states": (g.distinct if g else 0) + r.distinct + sem_stats["distinct"],
           "transitions": (g.generated if g else 0) + r.generated + sem_stats["generated"],
           "traces_validated_against_impl": n_real, "evaluations": n_events, "distinct_nontrivial": len(nontriv),
           "rule": "non-trivial = distinct (operator class, action chain) replayed on an object that has parameters or a nested base operator; "
                   "every instance sees every action at the root plus chains / in-place writes drawn from TLC's exhaustive history set",
           "samples": samples, "exhaustive": False,
           "model": {"module": "OpHeap", "states": g.distinct if g else 0, "invariants": MODEL_INVS, "MaxSteps": steps, "NParams": 2,
                     "negative_controls_of_model_rejected": model_negs},
           "histories_generated": n_hists, "history_steps": steps, "distinct_histories_replayed": len(used_hist),
           "instances": len(insts), "instances_by_family": dict(fam), "recipes_dropped": dropped,
           "classes_exercised": len(classes), "classes_in_pennylane": len(allcls), "classes_exercised_of_pennylane": len(classes & allcls),
           "events_by_action": {k[4:]: v for k, v in st.items() if k.startswith("act:")},
           "skipped": {k[8:]: v for k, v in st.items() if k.startswith("skipped:")}, "skip_reasons": st.get("skip_reasons", {}),
           "mutations": st["mutations"], "writes_to_a_deep_copy_or_its_source": n_iso, "mutations_skipped_no_cell": st["mutate_skipped"],
           "exact_semantics_cases_ok": n_sem_ok, "exact_semantics_distinct_pairs_decided_by_tlc": n_sem_tlc, "exact_semantics_unencodable": st["sem_unencodable"], "exact_semantics_unencodable_why": st.get("sem_unencodable_why", {}),
           "failing_event_clauses": dict(per_clause), "model_drift": dict(drift_count),
           "negative_controls_rejected": nneg + n_sem_neg + model_negs,
           "exceptions_seen": st.get("exceptions", {}), "equal_raised": st.get("equal_raised", {}),
           "timing_s": {"model+gen+space": round(t_model, 1), "replay": round(t_replay, 1), "total": round(time.time() - t0[0], 1),
                        "python_cpu": round(time.process_time() - t0[1], 1),
                        "tlc_cpu": round(sum(resource.getrusage(resource.RUSAGE_CHILDREN)[:2]) - t0[2], 1)}}
    return CheckResult(coverage=cov, violations=viol, assumptions=[
        "content is read through the public accessors (class, wires, data, hyperparameters / bound arguments); list vs tuple and the "
        "interface of a value after capture evaluation are not attributes",
        "mutable cells are ndarray / list / dict / set / nested operator objects reachable through instance attributes; jax and torch arrays are opaque",
        "capture binding is exercised only where it is available (integer wires, jax-traceable leaves, an execution implementation)",
        "rebind: 'other attributes unchanged' is decided on class, wires and the hyper-parameter text with numeric values masked"])
