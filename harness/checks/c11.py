"""C11 Declared resources match the emitted gates.  Same instance space and rule applications as C10; one trace per
(instance, applicable rule) holding the declared gate counts and the compressed resource representation of every
emitted operator; Trace_Resources.tla decides multiset equality (exact rules), support inclusion (inexact rules) and
the work-wire bound."""
import json
import random

import pennylane as qp
from pennylane.decomposition import list_decomps

from .. import decomp, lib
from ..lib import CheckResult, Violation


def run(tier, seed):
    rng = random.Random(77 + seed)
    bases = decomp.base_instances(rng, per_gate=2 if tier == "quick" else 5)
    insts = bases + decomp.symbolic_instances(rng, bases, tier) + decomp.template_instances(rng)
    keys, traces, meta, viol = {}, [], [], []
    n_inexact = 0

    def kid(rep):
        # identity of a resource type = equality of compressed representations (as the statement says)
        return keys.setdefault(rep, len(keys) + 1)
    for op in insts:
        try:
            rules = list_decomps(op)
            rp = decomp._get_decomp_args(op)[0]
        except Exception:
            continue
        for rule in rules:
            try:
                if not rule.is_applicable(**rp):
                    continue
            except Exception:
                continue
            try:
                ops, _ = decomp.emitted_ops(op, rule)
                declared = rule.compute_resources(**rp).gate_counts
                ww = rule.get_work_wire_spec(**rp).total
            except NotImplementedError:
                continue
            except Exception as e:
                viol.append(Violation(key=f"{op.name}:{rule.name}:raises:{type(e).__name__}", detail=f"{type(e).__name__}: {e} on {op!r}",
                                      replay={"op": repr(op), "rule": rule.name}))
                continue
            actual, alloc = decomp.resource_counts(ops)
            n_inexact += not rule.exact_resources
            traces.append({"exact": bool(rule.exact_resources), "declared": [[kid(k), int(v)] for k, v in declared.items()],
                           "actual": [[kid(k), int(v)] for k, v in actual.items()], "ww_declared": int(ww), "ww_actual": int(alloc)})
            meta.append((op, rule, declared, actual))
    # negative controls
    neg = []
    for k in range(0, len(traces), max(1, len(traces) // 25)):
        t = traces[k]
        if t["exact"] and t["actual"]:
            bad = dict(t, actual=[[t["actual"][0][0], t["actual"][0][1] + 1]] + t["actual"][1:])
            neg.append(len(traces))
            traces.append(bad)
            meta.append(None)
    wd = lib.workdir("C11", "trace")
    (wd / "traces.json").write_text(json.dumps(traces))
    r = lib.run_tlc("Trace_Resources", lib.cfg(constants={"NTRACES": len(traces)}), wd, env={"TRACE_FILE": str(wd / "traces.json")})
    lib.require_ok(r, "Trace_Resources")
    verd = {t[1] - 1: t[2] for t in r.tuples if t[0] == "V"}
    if len(verd) != len(traces):
        raise lib.MachineryError("verdicts not total")
    nneg = sum(1 for i in neg if verd[i] != "ok")
    if not neg or nneg != len(neg):
        raise lib.MachineryError(f"negative controls rejected {nneg}/{len(neg)}")
    pairs, samples = set(), []
    for i, m in enumerate(meta):
        if m is None:
            continue
        op, rule, declared, actual = m
        pairs.add((op.name, rule.name))
        if verd[i] != "ok":
            viol.append(Violation(key=f"{op.name}:{rule.name}:{verd[i]}",
                                  detail=f"{verd[i]}: {op!r} rule {rule.name}: declared { {repr(k): v for k, v in declared.items()} } emitted { {repr(k): v for k, v in actual.items()} }",
                                  replay={"op": repr(op), "rule": rule.name}))
        elif len(samples) < 3 and len(actual) >= 2:
            samples.append({"op": repr(op), "rule": rule.name, "exact": bool(rule.exact_resources),
                            "declared": {repr(k): v for k, v in declared.items()}, "emitted": {repr(k): v for k, v in actual.items()}})
    cov = {"states": r.distinct, "transitions": r.generated, "traces_validated_against_impl": len(traces) - len(neg),
           "evaluations": len(traces) - len(neg), "distinct_nontrivial": len(pairs),
           "rule": "same instance generator as C10; non-trivial = distinct (operator name, rule name) with an applicable rule",
           "samples": samples, "inexact_rules_checked": n_inexact, "resource_keys": len(keys), "negative_controls_rejected": nneg}
    return CheckResult(coverage=cov, violations=viol, assumptions=[
        "emitted operators are converted to compressed resource representations with the library's own resource_rep machinery (as the statement specifies)"])
