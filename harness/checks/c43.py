"""C43 Tape-mode control flow equals plain Python control flow.

(M) spec/ir/QProg.tla gives the program AST the semantics of PLAIN PYTHON control flow, transcribed from the language
    reference: range(lo, hi, step) (two definitions, TLC checks they agree on the whole bound box), while, if/elif/else
    (first true predicate wins), exceptions leaving loops and branches; Flat(prog) is the sequence of primitive queuing
    actions Python executes, and spec/gen/QProgGen.tla runs it through the Queuing state machine under its invariants.
    qp.cond on a mid-circuit measurement is modelled as the documentation states it: both branches are recorded in a
    context of their own and every recorded operator is queued as Conditional(m, op) / Conditional(~m, op), in order.
(C) REPLAY: TLC enumerates every program of the nested grammar up to the bound plus exhaustive families of loop bounds
    (all lo, hi, step incl. negative steps and empty ranges, carried values), while parameters and predicate tuples (Python
    bools and NUMBER-valued predicates - ints, floats, numpy scalars, zero / negative / larger-later - whose truth value
    QProg.tla takes from Python's truth-value testing: exactly the zeros are false, so if/elif picks the FIRST non-zero), plus
    seeded random deeper programs; the driver builds each program out of the real qp.for_loop / qp.while_loop / qp.cond
    (call and decorator forms, 1/2/3-argument for_loop) and compares the queues after every action, the returned loop
    values, all object terms and the final tape.  The recorded queue events are validated by Trace_Queuing.tla.
(D) measurement-valued cond = deferred measurement: on seeded random 3-wire circuits, default.qubit's result of the cond
    circuit (tree-traversal) is compared with the manually deferred circuit (controlled operators, no measurement)
    evaluated by the independent bridge evaluator.  Numeric and sampled: the property is marked partial for that clause."""
import itertools
import random

import numpy as np

import pennylane as qp

from .. import bridge, lib, qprog
from ..lib import CheckResult, Violation
from ..qprog import N

KINDS = ["G", "R", "U", "do", "raise", "try", "ctx", "for", "while", "cond"]
RANDOM_KINDS = ["G", "R", "U", "P", "do", "meas", "apply", "raise", "try", "ctx", "stop", "for", "while", "cond", "mcond", "adjfn"]


def families(B, S):
    G, R1 = N("G"), N("R", [1])
    do = lambda e: N("do", [], [[e]])
    body = [do(G)]
    U = lambda e: N("U", [], [[e]])
    out = []
    # every loop-bound triple in the box, with and without a carried value
    for lo, hi, st, carry in itertools.product(range(-B, B + 1), range(-B, B + 1), [s for s in range(-S, S + 1) if s], (0, 1)):
        out.append([N("for", [lo, hi, st, carry], [body])])
    # while x < k, x += d
    for x0, k, d in itertools.product(range(-2, 4), range(-2, 4), (1, 2, 3)):
        out.append([N("while", [x0, k, d], [body])])
    # predicate tuples: constants at top level, index-dependent inside a loop; with and without else
    for n in (1, 2, 3):
        for ps in itertools.product((0, 1), repeat=n):
            for el in (0, 1):
                out.append([N("cond", ps, [[do(G)] for _ in range(n + el)])])
    for n in (1, 2):
        for ps in itertools.product((0, 1, 2, 3), repeat=n):
            for el in (0, 1):
                out.append([N("for", [-1, 3, 1, 0], [[N("cond", ps, [[do(G)] for _ in range(n + el)])]])])
    # NUMBER-valued predicates (what `if n % 3: ... elif count: ...` tests): Python ints / floats / numpy scalars, zero and
    # non-zero, negative, a later predicate larger than the first truthy one; constants at top level ...
    consts = (0, 1) + (6, 7, 8, 9, 10, 11, 12)
    for ps in itertools.product(consts, repeat=2):
        if max(ps) >= 4:
            for el in (0, 1):
                out.append([N("cond", ps, [[do(G)] for _ in range(2 + el)])])
    for ps in itertools.product((1, 8, 6, 7, 9, 11), repeat=3):
        if max(ps) >= 4:
            out.append([N("cond", ps, [[do(G)] for _ in range(3 + (sum(ps) % 2))])])
    # ... and computed from the loop index (i % 3, i, 2 - i, i / 2) over negative, zero and positive indices
    for ps in itertools.product((2, 3, 4, 5, 13, 14), repeat=2):
        if max(ps) >= 4:
            for el in (0, 1):
                out.append([N("for", [-2, 4, 1, 0], [[N("cond", ps, [[do(G)] for _ in range(2 + el)])]])])
    for ps in itertools.product((4, 5, 13, 7), repeat=3):
        out.append([N("for", [3, -3, -1, 0], [[N("cond", ps, [[do(G)] for _ in range(4)])]])])
    out += [
        [N("while", [-1, 3, 1], [[N("cond", [4, 13, 5], [[do(G)], [do(U(G))], [N("raise")]])]])],
        [N("try", [], [[N("for", [0, 4, 1, 1], [[N("cond", [8, 4, 7], [[do(G)], [N("raise")], [do(G)], [do(G)]])]])]]), do(G)],
        [N("mcond", [], [[N("cond", [11, 9, 12], [[do(G)], [do(U(G))], [do(G)]])], [N("cond", [10, 8], [[do(G)], [do(G)]])]])],
        [N("stop", [], [[N("cond", [6, 7], [[do(G)], [do(G)]])]]), N("ctx", [], [[N("cond", [8, 10, 12], [[do(G)], [do(G)], [do(U(G))]])]])],
    ]
    # nested loops, a loop in a branch, exceptions leaving loops and branches, references across iterations
    out += [
        [N("for", [0, 2, 1, 0], [[N("for", [2, 0, -1, 1], [[do(G), do(U(R1))]])]])],
        [N("for", [3, -2, -2, 1], [[N("while", [0, 2, 1], [[do(G)]]), do(U(R1))]])],
        [N("try", [], [[N("for", [0, 3, 1, 0], [[do(G), N("cond", [3], [[N("raise")]])]])]]), do(G)],
        [N("try", [], [[N("while", [0, 3, 1], [[N("ctx", [], [[do(G), N("cond", [3, 1], [[N("raise")], [do(G)]])]])]])]]), do(G)],
        [N("cond", [0, 1, 1], [[do(G)], [N("for", [0, 2, 1, 0], [[do(G)]])], [do(G)], [do(G)]])],
        [N("for", [0, 3, 1, 1], [[N("cond", [2], [[do(U(R1))], [do(G)]])]])],
        [N("for", [0, 2, 1, 0], [[N("mcond", [], [[do(G), do(U(G))], [do(G)]])]])],
        [N("mcond", [], [[N("for", [0, 2, 1, 0], [[do(G)]]), N("cond", [0], [[do(G)], [do(U(G))]])]])],
        [N("mcond", [], [[do(G)], [do(G), do(G)]]), N("mcond", [], [[do(U(G))]])],
        [N("stop", [], [[N("mcond", [], [[do(G)]])]]), N("mcond", [], [[N("try", [], [[do(G), N("raise")]]), do(G)]])],
        [N("try", [], [[N("mcond", [], [[do(G)], [N("raise")]])]]), do(G)],
    ]
    return out


# ---------------------------------------------------------------------- (D) cond on a measurement = deferred measurement
GATE1 = [("Hadamard", []), ("RX", [np.pi / 4]), ("RY", [3 * np.pi / 4]), ("S", []), ("T", []), ("PauliX", [])]


def deferred_cases(rng, n):
    """circuits: prepare wire 0, measure it, conditionally apply 1-2 gates on wires 1,2 in both branches, probs(1,2)."""
    out = []
    for _ in range(n):
        prep = [rng.choice(GATE1[:3])] + [rng.choice(GATE1) for _ in range(rng.randint(0, 1))]
        tb = [(rng.choice(GATE1), rng.choice((1, 2))) for _ in range(rng.randint(1, 2))]
        fb = [(rng.choice(GATE1), rng.choice((1, 2))) for _ in range(rng.randint(0, 2))]
        pre = [(rng.choice(GATE1), rng.choice((1, 2))) for _ in range(rng.randint(0, 1))]
        out.append({"prep": prep, "tb": tb, "fb": fb, "pre": pre})
    return out


def run_deferred(case):
    dev = qp.device("default.qubit")

    def mk(g, w):
        return getattr(qp, g[0])(*g[1], wires=w)

    @qp.qnode(dev, mcm_method="tree-traversal")
    def circ():
        for g in case["prep"]:
            mk(g, 0)
        for g, w in case["pre"]:
            mk(g, w)
        m = qp.measure(0)

        def t():
            for g, w in case["tb"]:
                mk(g, w)

        def f():
            for g, w in case["fb"]:
                mk(g, w)
        qp.cond(m, t, f if case["fb"] else None)()
        return qp.probs(wires=[1, 2])
    got = np.asarray(circ()).reshape(-1)
    # the manually deferred circuit on the independent evaluator: controls on wire 1 (= measured wire), value 1 / 0
    n = 3
    psi = np.zeros((8, 1), dtype=complex)
    psi[0, 0] = 1
    for g in case["prep"]:
        psi = bridge.apply(psi, bridge.base_matrix(g[0], g[1], [], 1), [1], n)
    for g, w in case["pre"]:
        psi = bridge.apply(psi, bridge.base_matrix(g[0], g[1], [], 1), [w + 1], n)
    for branch, val in ((case["tb"], 1), (case["fb"], 0)):
        for g, w in branch:
            psi = bridge.apply(psi, bridge.ctrl(bridge.base_matrix(g[0], g[1], [], 1), [val]), [1, w + 1], n)
    p = (np.abs(psi[:, 0]) ** 2).reshape(2, 2, 2).sum(axis=0).reshape(-1)
    return got, p


def run(tier, seed):
    rng = random.Random(seed)
    quick = tier == "quick"
    B, S = (3, 3) if quick else (5, 4)
    nrand, depth, budget = (1500, 3, 9) if quick else (40000, 4, 14)
    extras = families(B, S)
    nfam = len(extras)
    prng = random.Random(seed * 7919 + 43)           # predicates of the random programs: half of the cond nodes number-valued
    for _ in range(nrand):
        extras.append(qprog.widen_preds(qprog.rand_prog(rng, RANDOM_KINDS, depth, rng.randint(4, budget)), prng))
    nnum = ndis = 0
    for pr in extras:
        a, b = qprog.nonbool_cond_stats(pr)
        nnum, ndis = nnum + a, ndis + b
    if nnum < 300 or ndis < 100:
        raise lib.MachineryError(f"vacuous: only {nnum} cond nodes with number-valued predicates, {ndis} separating first-truthy from largest")
    kinds = "{" + ",".join(f'"{k}"' for k in KINDS) + "}"
    cov, viol, feats = qprog.drive(
        "C43", tier, seed,
        defs={"Kinds": kinds, "ForSpecs": "{<<0,2,1,0>>, <<1,-1,-1,1>>}", "WhileSpecs": "{<<0,2,1>>}", "CondPreds": "{<<2>>, <<0,3>>, <<4,7>>}"},
        constants={"MaxSize": 3 if quick else 4, "MaxDepth": 2, "NFlav": 2 if quick else 4, "RangeB": B + 1},
        extras=extras, trace_limit=800 if quick else 5000,
        what="for_loop, while_loop, cond, cond on a measurement, raised exception, nested recording context, operand consumed by a wrapper")
    if not viol:
        missing = [f for f in ("for", "while", "cond", "mcond", "exception", "operand-consumed", "nested-contexts") if feats[f] < 5]
        if missing:
            raise lib.MachineryError(f"vacuous: features not exercised {missing}")
    # (D) numeric comparison with the manually deferred circuit
    nd, worst = 0, 0.0
    for case in deferred_cases(rng, 40 if quick else 400):
        got, exp = run_deferred(case)
        nd += 1
        worst = max(worst, float(np.max(np.abs(got - exp))))
        if not np.allclose(got, exp, atol=1e-8):
            viol.append(Violation(key="C43:mcm-cond-differs-from-deferred-measurement",
                                  detail=f"probs {got} vs manually deferred circuit {exp} for {case}", replay={"deferred_case": case}))
    # negative control of (D): swapping the branches must be noticed
    c0 = {"prep": [("RX", [np.pi / 4])], "pre": [], "tb": [(("PauliX", []), 1)], "fb": [(("Hadamard", []), 2)]}
    g0, e0 = run_deferred(c0)
    g1, e1 = run_deferred(dict(c0, tb=c0["fb"], fb=c0["tb"]))
    if not np.allclose(g0, e0, atol=1e-8) and not viol:
        raise lib.MachineryError("deferred-measurement reference disagrees on the control circuit")
    if np.allclose(g0, e1, atol=1e-8):
        raise lib.MachineryError("deferred-measurement negative control accepted")
    cov["negative_controls"] += 1
    cov["negative_controls_rejected"] += 1
    cov["bounds"] = {"exhaustive_max_nodes": 3 if quick else 4, "nesting": 2, "flavours": 2 if quick else 4, "loop_bound_box": B, "max_abs_step": S,
                     "family_programs": nfam, "random_programs": nrand, "random_depth": depth}
    cov["cond_nodes_with_number_valued_predicates"] = nnum
    cov["cond_nodes_where_first_truthy_is_not_the_largest_predicate"] = ndis
    cov["deferred_measurement_circuits"] = nd
    cov["deferred_measurement_max_abs_err"] = worst
    cov["exhaustive"] = True
    return CheckResult(coverage=cov, violations=viol, assumptions=[
        "predicates are Python booleans or numbers (int / float / numpy scalar, incl. zero, negative, non-integral) that are constants or "
        "computed from the loop index; truth value = Python truth-value testing (exactly the zeros are false); loop bounds are Python ints "
        "(tape mode, no capture, no qjit)",
        "cond on a measurement: recorded structure decided by TLC; the equivalence with deferred measurement is compared numerically "
        "(default.qubit tree-traversal vs an independent evaluation of the controlled circuit) on generated 3-wire circuits",
        "qp.apply of a wrapper whose operand is in the active queue: both outcomes accepted (see C41)"])


def replay(path, tier, seed):
    return qprog.replay_file("C43", path)
