"""C40 Circuit parameter bookkeeping is consistent.

(M) spec/sys/TapeParams.tla: a heap of tapes with the three parameter views (flat list, par_info, trainable indices),
    bind_new_parameters addressing by flat index, copy(update), the trainable setter and expansion.  Operators are trees
    (Hamiltonian / SProd / Sum / Prod / Adjoint over parametrised operands, nested); a parameter is addressed by its path.  TLC checks on every
    reachable heap: Consistent, BindCurrentIdentity, BindExact, ExpandOK, CopyEqual and the action property Frame.
(C) spec -> code (REPLAY): TapeParamsGen.tla emits every history up to the bound (plus deeper -simulate histories) with
    the expected projection of every created / modified tape; the driver performs the same calls on real
    QuantumScript / QuantumTape objects and compares the projection of EVERY live tape after every call.
    code -> spec (TRACE): the projections the implementation reported are validated by Trace_TapeParams.tla, which
    re-derives the views and decides the property-level clauses at every step."""
import json
import math
import random

import numpy as np

import pennylane as qp
from pennylane import numpy as pnp

from .. import lib
from ..lib import CheckResult, Violation

PI_HALF = 999
PRIM = {"RX", "RY", "RZ", "CNOT", "PhaseShift"}
FIELDS = ("ops", "meas", "tr", "shots", "pi", "all", "tp", "otp")


# ------------------------------------------------------------------ value / object codec
def val(v):
    return math.pi / 2 if v == PI_HALF else 0.1 * v


def to_int(x):
    x = float(np.asarray(x))
    if abs(x - math.pi / 2) < 1e-12:
        return PI_HALF
    r = round(x * 10)
    if abs(x * 10 - r) > 1e-7:
        raise lib.MachineryError(f"parameter value {x} is not on the driver's lattice")
    return int(r)


# An operator is a tree {"k": kind, "v": own parameters, "sub": operands} (TapeParams.tla: Op).  The driver builds real operators
# from trees and reads trees back through the public attributes (coeffs / ops, scalar / base, operands, data of the leaves).
LEAF_OBS = {"Z": qp.Z, "X": qp.X, "Y": qp.Y}
KIND_OF = {"PauliZ": "Z", "PauliX": "X", "PauliY": "Y", "LinearCombination": "Ham", "Hamiltonian": "Ham", "Sum": "Sum", "Prod": "Prod",
           "SProd": "SProd", "Adjoint": "Adjoint", "Adjoint2": "Adjoint", "AdjointOperation": "Adjoint", "AdjointObs": "Adjoint"}


def build_node(n, conv, ctr):
    """conv is called once per parameter, in the order in which the parameters appear in the operator (coefficient before its term)."""
    k, v, sub = n["k"], n["v"], n["sub"]
    if k == "Ham":
        cs, ts = [], []
        for c, t in zip(v, sub):
            cs.append(conv(c))
            ts.append(build_node(t, conv, ctr))
        return qp.Hamiltonian(cs, ts)
    p = [conv(x) for x in v]
    if k == "SProd":
        return qp.s_prod(p[0], build_node(sub[0], conv, ctr))
    if k in ("Sum", "Prod"):
        return (qp.sum if k == "Sum" else qp.prod)(*[build_node(t, conv, ctr) for t in sub])
    if k == "Adjoint":
        return qp.adjoint(build_node(sub[0], conv, ctr))
    if sub:
        raise lib.MachineryError(f"kind {k} cannot have operands")
    w = ctr[0] % 2
    ctr[0] += 1
    if k == "CNOT":
        return qp.CNOT([0, 1])
    if k == "IsingXX":
        return qp.IsingXX(p[0], [0, 1])
    if k in LEAF_OBS:
        return LEAF_OBS[k](w)
    return getattr(qp, k)(*p, wires=w)


def build_op(o, pos, conv=None):
    return build_node(o, conv or val, [pos])


def build_meas(m, conv=None):
    if m["k"] == "probs":
        return qp.probs(wires=[0])
    return qp.expval(build_node(m, conv or val, [0]))


def node_of(op):
    """The tree of a real operator, read through its public attributes."""
    k = KIND_OF.get(type(op).__name__, op.name)
    if k == "Ham":
        return {"k": k, "v": [to_int(c) for c in op.coeffs], "sub": [node_of(t) for t in op.ops]}
    if k == "SProd":
        return {"k": k, "v": [to_int(op.scalar)], "sub": [node_of(op.base)]}
    if k in ("Sum", "Prod"):
        return {"k": k, "v": [], "sub": [node_of(t) for t in op.operands]}
    if k == "Adjoint":
        return {"k": k, "v": [], "sub": [node_of(op.base)]}
    return {"k": k, "v": [to_int(d) for d in op.data], "sub": []}


def paths(n):
    """Python twin of TapeParams!Paths, used only to fabricate negative controls and to count layouts."""
    out = [] if n["k"] == "Ham" else [[0, j] for j in range(len(n["v"]))]
    for i, t in enumerate(n["sub"]):
        if n["k"] == "Ham":
            out.append([0, i])
        out += [[i + 1] + q for q in paths(t)]
    return out


def node_put(n, path, f):
    while path[0] != 0:
        n, path = n["sub"][path[0] - 1], path[1:]
    n["v"][path[1]] = f(n["v"][path[1]])


def deep_layout(n):
    """An operand with several parameters is followed by further parameters of the same operator (TapeParams!DeepLayout)."""
    ln = [len(paths(t)) for t in n["sub"]]
    return any(ln[i] >= 2 and (n["k"] == "Ham" or ln[j] >= 1) for i in range(len(ln)) for j in range(i + 1, len(ln))) or any(deep_layout(t) for t in n["sub"])


def seq(x):
    return list(x) if x else []


def norm_node(o):
    return {"k": o["k"], "v": seq(o["v"]), "sub": [norm_node(t) for t in seq(o.get("sub"))]}


def norm_exp(e):
    """TLC's JSON: empty sequences may come out as {} -> normalise."""
    return {"ops": [norm_node(o) for o in seq(e["ops"])],
            "meas": [norm_node(o) for o in seq(e["meas"])],
            "tr": seq(e["tr"]), "shots": e["shots"], "pi": [list(a) for a in seq(e["pi"])], "all": seq(e["all"]),
            "tp": seq(e["tp"]), "otp": seq(e["otp"])}


def project(t):
    """What the implementation reports about one tape (public API only)."""
    p = {"ops": [node_of(op) for op in t.operations],
         "meas": [node_of(m.obs) if m.obs is not None else {"k": "probs", "v": [], "sub": []} for m in t.measurements],
         "tr": [int(i) for i in t.trainable_params], "shots": int(t.shots.total_shots or 0), "err": "", "np": int(t.num_params)}
    info = t.par_info
    p["pi"] = [[int(d["op_idx"]), int(d["p_idx"])] for d in info]
    circ = t.circuit
    p["piop"] = all((circ[d["op_idx"]] if d["op_idx"] < len(t.operations) else circ[d["op_idx"]].obs) is d["op"] for d in info)
    p["all"] = [to_int(x) for x in t.get_parameters(trainable_only=False)]
    try:
        p["tp"] = [to_int(x) for x in t.get_parameters()]
        p["otp"] = [to_int(x) for x in t.get_parameters(operations_only=True)]
        for k in range(len(p["tr"])):
            op, oi, pi_ = t.get_operation(k)
            if [oi, pi_] != p["pi"][p["tr"][k]]:
                p["piop"] = False
    except Exception as e:  # the views cannot even be read
        p["tp"], p["otp"], p["err"] = [], [], type(e).__name__
    return p


def differs(p, e):
    for f in FIELDS:
        if p[f] != e[f]:
            return f
    if p["err"] or not p["piop"] or p["np"] != len(e["tr"]):
        return "views"
    return None


# ------------------------------------------------------------------ one history through the real API
GATESET = {"RX", "RY", "RZ", "CNOT", "PhaseShift"}


def new_stats():
    return {"acts": {}, "expand": 0, "expand_nontrivial": 0, "expand_explicit_indices_recomputed": 0, "drift": 0,
            "binds_on_nested": 0, "binds_into_deep_layout": 0, "copies_of_nested": 0, "expands_with_nested": 0}


def note_nested(stats, a, proj, arg):
    """Vacuity counters: calls on tapes whose operators nest, and binds that address a parameter of an operator in which an operand
    with several parameters is followed by further parameters."""
    circ = proj["ops"] + proj["meas"]
    if not any(n["sub"] for n in circ):
        return
    if a.startswith("bind"):
        stats["binds_on_nested"] += 1
        owner = [n for n in circ for _ in paths(n)]          # flat index -> operator, from the reported trees (not from par_info)
        stats["binds_into_deep_layout"] += any(deep_layout(owner[i]) for i in arg if 0 <= i < len(owner))
    elif a.startswith("copy"):
        stats["copies_of_nested"] += 1
    elif a == "expand":
        stats["expands_with_nested"] += 1


def do_expand(t, stats):
    """Expansion as the workflow sees it: parameters carry requires_grad flags matching the trainable indices (the tape is rebuilt
    from its reported content with flagged tensors, independently of bind_new_parameters), qp.transforms.decompose runs, and the
    trainable indices of the result are read back from the flags."""
    p = project(t)
    trs, k = set(p["tr"]), 0

    def flag(v):
        nonlocal k
        k += 1
        return pnp.tensor(val(v), requires_grad=(k - 1 in trs))
    ops = [build_op(o, i, flag) for i, o in enumerate(p["ops"])]
    meas = [build_meas(m, flag) for m in p["meas"]]
    flagged = type(t)(ops, meas, shots=t.shots, trainable_params=sorted(trs))
    if set(qp.math.get_trainable_indices([d for o in ops for d in o.data] + [d for m in meas if m.obs is not None for d in m.obs.data])) != trs & set(range(k)):
        raise lib.MachineryError("requires_grad flags do not reproduce the trainable indices")
    (out,), _ = qp.transforms.decompose(flagged, gate_set=GATESET)
    derived = sorted(int(i) for i in qp.math.get_trainable_indices(out.get_parameters(trainable_only=False)))
    raw = [int(i) for i in out.trainable_params]
    stats["expand"] += 1
    stats["expand_nontrivial"] += any(op.name not in PRIM for op in t.operations)
    stats["expand_explicit_indices_recomputed"] += raw != derived
    out.trainable_params = derived          # what the workflow does after every transform program
    return out


def replay_history(h, cls, stats, compare=True):
    """Returns (trace steps, list of (key, detail)).  Stops at the first disagreement."""
    real, expd, steps, bad = [], [], [], []
    for si, s in enumerate(h):
        a, t, arg, vals = s["a"], s["t"], seq(s["arg"]), seq(s["vals"])
        e = norm_exp(s["exp"])
        res, eq, new = "ok", True, None
        src = real[t - 1] if t else None
        try:
            if a == "construct":
                new = cls([build_op(o, i) for i, o in enumerate(e["ops"])], [build_meas(m) for m in e["meas"]],
                          shots=e["shots"] or None, trainable_params=e["tr"])
            elif a == "copy":
                new = src.copy()
            elif a == "copy_deep":
                new = src.copy(copy_operations=True) if si % 2 else __import__("copy").copy(src)
            elif a == "copy_tr":
                new = src.copy(trainable_params=arg)
            elif a == "copy_shots":
                new = src.copy(shots=arg[0])
            elif a == "copy_ops":
                new = src.copy(operations=src.operations[:-1])
            elif a == "bind":
                new = src.bind_new_parameters([val(v) for v in vals], list(arg))
            elif a == "bindcur_all":
                cur = src.get_parameters(trainable_only=False)
                new = src.bind_new_parameters(cur, list(range(len(cur))))
                eq = bool(qp.equal(new, src))
            elif a == "bindcur_tr":
                new = src.bind_new_parameters(src.get_parameters(), list(src.trainable_params))
                eq = bool(qp.equal(new, src))
            elif a == "set_tr":
                try:
                    src.trainable_params = set(arg) if si % 2 else list(arg)
                except ValueError:
                    res = "ValueError"
            elif a == "expand":
                new = do_expand(src, stats)
            else:
                raise lib.MachineryError(f"unknown action {a}")
        except lib.MachineryError:
            raise
        except Exception as ex:
            res = type(ex).__name__
        if new is not None:
            real.append(new)
        if a == "set_tr":
            expd[t - 1] = e
        elif s["res"] == "ok":
            expd.append(e)
        stats["acts"][a] = stats["acts"].get(a, 0) + 1
        projs = [project(x) for x in real]
        if t:
            note_nested(stats, a, projs[t - 1], list(range(len(projs[t - 1]["all"]))) if a.startswith("bindcur") else arg)
        steps.append({"a": a, "t": t, "new": len(real) if new is not None else t, "arg": arg, "vals": vals, "res": res, "eq": eq, "heap": projs})
        if not compare:
            if res != "ok" and a != "set_tr" or (a == "set_tr" and res == "ok" and any(i < 0 or i >= len(projs[t - 1]["all"]) for i in arg)):
                break
            continue
        # ---- comparison with the model's expectation
        if res != s["res"]:
            if a == "set_tr" and res == "ok":
                n = len(projs[t - 1]["all"])
                key = "set_trainable:index-equal-num-params-accepted" if max(arg) == n else "set_trainable:out-of-range-index-accepted"
                bad.append((key, f"tape with {n} parameters: trainable_params = {arg} accepted (documented bound: indices address parameters, "
                                 f"model expects ValueError); afterwards trainable_params={projs[t - 1]['tr']}, num_params={projs[t - 1]['np']}, "
                                 f"get_parameters() -> {projs[t - 1]['err'] or projs[t - 1]['tp']}"))
            else:
                bad.append((f"{a}:outcome", f"model expects {s['res']}, implementation gives {res} (arg={arg})"))
            break
        if len(projs) != len(expd):
            bad.append((f"{a}:heap-size", f"{len(projs)} tapes, model has {len(expd)}"))
            break
        stop = False
        for i, (p, ex) in enumerate(zip(projs, expd)):
            f = differs(p, ex)
            if f is None:
                continue
            target = (i + 1) == steps[-1]["new"]
            if target and a == "copy_ops" and f == "tr" and set(p["tr"]) <= set(range(len(p["all"]))):
                stats["drift"] += 1          # mechanism: how the indices are recomputed after replacing operations
                stop = True                  # the model's heap has diverged: the rest of this history is not comparable
                break
            if target and a == "expand" and f in ("tr", "tp", "otp") and all(p["all"][j] == PI_HALF for j in set(p["tr"]) ^ set(ex["tr"])):
                stats["drift"] += 1          # a constant introduced by a decomposition rule is flagged trainable: the statement is silent
                stop = True
                break
            if target and a == "expand" and f in ("ops", "pi", "all") and p["meas"] == ex["meas"]:
                stats["drift"] += 1          # mechanism: the decomposition chosen; trainability is decided by the trace spec
                stop = True
                break
            what = f if target else "other-tape-changed"
            bad.append((f"{a}:{what}", f"tape {i + 1} after step {si} ({a} on tape {t}, arg={arg}, vals={vals}): field {f} is "
                                       f"{p[f] if f in p else p} , model expects {ex[f] if f in ex else ex}"))
            stop = True
            break
        if not eq:
            bad.append((f"{a}:not-equal", f"qp.equal(bind(current), tape) is False for tape {t}"))
            stop = True
        if stop:
            break
    return steps, bad


# ------------------------------------------------------------------ bases
def _op(k, *v, sub=()):
    return '[k |-> "%s", v |-> <<%s>>, sub |-> <<%s>>]' % (k, ",".join(map(str, v)), ",".join(sub))


def _tape(ops, meas, tr, shots=0):
    return "[ops |-> <<%s>>, meas |-> <<%s>>, tr |-> %s, shots |-> %d]" % (",".join(ops), ",".join(meas), tr, shots)


def _sprod(c, base="Z"):
    return _op("SProd", c, sub=[_op(base)])


def _sum2(a, b):
    return _op("Sum", sub=[_sprod(a, "Z"), _sprod(b, "X")])


BASES = [
    _tape([_op("RX", 1), _op("CNOT"), _op("Rot", 2, 3, 4)], [_sprod(5)], "0..4"),
    _tape([_op("U2", 1, 2), _op("RY", 3)], [_op("Z"), _sum2(4, 5)], "{1,3}", 100),
    _tape([_op("CNOT")], [_op("probs")], "{}"),
    _tape([_op("U3", 1, 2, 3), _op("IsingXX", 4)], [_op("Z")], "{0,3}"),
    _tape([_op("RZ", 1)], [_sprod(2)], "{1}", 10),
    # operands that carry several parameters (or none) and are followed by further parameters: a product of parametrised and
    # fixed gates among the operations, a linear combination whose first term is itself a linear combination
    _tape([_op("Prod", sub=[_op("Rot", 1, 2, 3), _op("CNOT"), _op("RY", 4)]), _op("RX", 5)],
          [_op("Ham", 6, 9, sub=[_op("Ham", 7, 8, sub=[_op("X"), _op("Y")]), _op("Z")])], "{1,4,6,8}"),
    # a linear combination with a two-parameter term (sum of scaled observables), a parameter-free term and a one-parameter term,
    # behind an adjoint operation
    _tape([_op("Adjoint", sub=[_op("Rot", 1, 2, 3)])],
          [_op("Ham", 4, 7, 8, sub=[_sum2(5, 6), _op("Z"), _sprod(9, "Y")]), _op("Z")], "{0,4,6,8}", 50),
    _tape([_op("Rot", 1, 2, 3), _op("U2", 4, 5)], [_op("probs")], "{0,2,4}"),
    # small nested base for the deeper exhaustive run
    _tape([_op("Prod", sub=[_op("U2", 1, 2), _op("RZ", 3)])], [_op("Ham", 4, 7, sub=[_op("Ham", 5, 6, sub=[_op("X"), _op("Y")]), _op("Z")])], "{1,5}"),
]


def _n(k, *v, sub=()):
    return {"k": k, "v": list(v), "sub": list(sub)}


def _ns(c, base="Z"):
    return _n("SProd", c, sub=[_n(base)])


def _ns2(a, b):
    return _n("Sum", sub=[_ns(a, "Z"), _ns(b, "X")])


WALK_BASES = [
    {"ops": [_n("RX", 1), _n("CNOT"), _n("Rot", 2, 3, 4)], "meas": [_ns(5)], "tr": [0, 1, 2, 3, 4], "shots": 0},
    {"ops": [_n("U2", 1, 2), _n("RY", 3)], "meas": [_n("Z"), _ns2(4, 5)], "tr": [1, 3], "shots": 100},
    {"ops": [_n("U3", 1, 2, 3), _n("IsingXX", 4), _n("U2", 5, 6)], "meas": [_n("Z")], "tr": [0, 3, 5], "shots": 0},
    {"ops": [_n("RZ", 1), _n("Rot", 2, 3, 4)], "meas": [_ns(5), _n("probs")], "tr": [4], "shots": 10},
    {"ops": [_n("IsingXX", 1), _n("RX", 2), _n("U3", 3, 4, 5)], "meas": [_ns2(6, 7)], "tr": [0, 2, 6], "shots": 0},
    # nested operators: operands with several parameters followed by further parameters
    {"ops": [_n("RX", 1), _n("Prod", sub=[_n("Rot", 2, 3, 4), _n("CNOT"), _n("RY", 5)])],
     "meas": [_n("Ham", 6, 9, sub=[_n("Ham", 7, 8, sub=[_n("X"), _n("Y")]), _n("Z")])], "tr": [1, 4, 6, 8], "shots": 0},
    {"ops": [_n("Adjoint", sub=[_n("Rot", 1, 2, 3)]), _n("CNOT")],
     "meas": [_n("Ham", 4, 7, 8, sub=[_ns2(5, 6), _n("Z"), _ns(9, "Y")]), _n("Z")], "tr": [0, 4, 6, 8], "shots": 50},
    {"ops": [_n("RY", 1)], "meas": [_ns(2, "Y"), _n("Ham", 3, 7, sub=[_n("Prod", sub=[_ns(4, "X"), _n("Y"), _ns(5, "Z")]), _ns(8, "X")])],
     "tr": [1, 3, 4], "shots": 0},
    {"ops": [_n("Prod", sub=[_n("RX", 1), _n("U3", 2, 3, 4), _n("RZ", 5)]), _n("RY", 6)],
     "meas": [_n("SProd", 7, sub=[_n("Ham", 8, 9, sub=[_n("X"), _n("Z")])])], "tr": [2, 6, 8], "shots": 0},
]
for _b in WALK_BASES:
    _b.update(pi=[], all=[], tp=[], otp=[])
INVS = ["Consistent", "BindCurrentIdentity", "BindExact", "ExpandOK", "CopyEqual"]


def corrupt(tr, rng):
    """Negative controls for the trace spec: returns a list of (corrupted trace, what)."""
    out = []
    st = tr["steps"]
    for k, s in enumerate(st):
        if s["a"] == "bind" and s["res"] == "ok" and len(s["heap"][s["new"] - 1]["all"]) > len(s["arg"]):
            c = json.loads(json.dumps(tr))
            c["steps"] = c["steps"][:k + 1]
            p = c["steps"][k]["heap"][s["new"] - 1]
            j = next(i for i in range(len(p["all"])) if i not in s["arg"])      # a slot that was NOT addressed
            oi, pi_ = p["pi"][j]
            tgt = p["ops"][oi] if oi < len(p["ops"]) else p["meas"][oi - len(p["ops"])]
            node_put(tgt, paths(tgt)[pi_], lambda x: x + 1)
            p["all"][j] += 1
            if j in p["tr"]:
                p["tp"][p["tr"].index(j)] += 1
                if oi < len(p["ops"]):
                    p["otp"][[x for x in p["tr"] if p["pi"][x][0] < len(p["ops"])].index(j)] += 1
            out.append((c, "bind touched an unaddressed slot"))
            break
    for k, s in enumerate(st):
        if k >= 1 and len(s["heap"]) >= 2 and s["a"] != "set_tr":
            c = json.loads(json.dumps(tr))
            c["steps"] = c["steps"][:k + 1]
            p = c["steps"][k]["heap"][0]
            p["shots"] += 1                                                         # an older tape changed
            out.append((c, "older tape changed"))
            break
    for k, s in enumerate(st):
        p0 = s["heap"][-1]
        if len(p0["all"]) >= 2 and len(p0["tr"]) >= 1:
            c = json.loads(json.dumps(tr))
            c["steps"] = c["steps"][:k + 1]
            p = c["steps"][k]["heap"][-1]
            p["tp"][0] += 3                                                         # get_parameters() disagrees with par_info
            out.append((c, "views disagree"))
            break
    for k, s in enumerate(st):
        if s["a"] == "expand" and s["res"] == "ok":
            p0 = s["heap"][s["new"] - 1]
            if len(p0["tr"]) >= 1:
                c = json.loads(json.dumps(tr))
                c["steps"] = c["steps"][:k + 1]
                p = c["steps"][k]["heap"][s["new"] - 1]
                j = p["tr"].pop(0)
                p["tp"].pop(0)
                if p["pi"][j][0] < len(p["ops"]):
                    p["otp"].pop(0)
                p["np"] -= 1
                out.append((c, "expansion lost a trainable parameter"))
                break
    return out


def random_walk(rng, depth, cls, stats):
    """code -> spec only: a seeded random history on real tapes (arbitrary index subsets, deeper than the exhaustive bound);
    the recorded steps are judged by Trace_TapeParams.tla."""
    base = norm_exp(rng.choice(WALK_BASES))
    h = [{"a": "construct", "t": 0, "arg": [], "vals": [], "res": "ok", "exp": base}]
    real = [cls([build_op(o, i) for i, o in enumerate(base["ops"])], [build_meas(m) for m in base["meas"]],
                shots=base["shots"] or None, trainable_params=base["tr"])]
    steps = [{"a": "construct", "t": 0, "new": 1, "arg": [], "vals": [], "res": "ok", "eq": True, "heap": [project(real[0])]}]
    for si in range(1, depth + 1):
        t = rng.randrange(len(real)) + 1
        src = real[t - 1]
        n = len(src.get_parameters(trainable_only=False))
        a = rng.choice(["copy", "copy_deep", "copy_tr", "copy_shots", "copy_ops", "bind", "bind", "bind", "bindcur_all", "bindcur_tr",
                        "set_tr", "set_tr", "expand", "expand"])
        arg, vals, res, eq, new = [], [], "ok", True, None
        sub = lambda: sorted(rng.sample(range(n), rng.randint(0, n))) if n else []
        try:
            if a == "copy":
                new = src.copy()
            elif a == "copy_deep":
                new = src.copy(copy_operations=True)
            elif a == "copy_tr":
                arg = sub()
                new = src.copy(trainable_params=arg)
            elif a == "copy_shots":
                arg = [rng.randint(1, 50)]
                new = src.copy(shots=arg[0])
            elif a == "copy_ops":
                if not src.operations:
                    continue
                new = src.copy(operations=src.operations[:-1])
            elif a == "bind":
                arg = sub()
                if not arg:
                    continue
                vals = [20 * si + k + 1 for k in range(len(arg))]
                new = src.bind_new_parameters([val(v) for v in vals], list(arg))
            elif a == "bindcur_all":
                cur = src.get_parameters(trainable_only=False)
                arg, vals = list(range(n)), [to_int(x) for x in cur]
                new = src.bind_new_parameters(cur, arg)
                eq = bool(qp.equal(new, src))
            elif a == "bindcur_tr":
                cur = src.get_parameters()
                arg, vals = [int(i) for i in src.trainable_params], [to_int(x) for x in cur]
                new = src.bind_new_parameters(cur, list(arg))
                eq = bool(qp.equal(new, src))
            elif a == "set_tr":
                arg = sub()
                r = rng.random()
                if r < 0.12:
                    arg = sorted(set(arg + [n]))
                elif r < 0.2:
                    arg = sorted(set(arg + [n + rng.randint(1, 3)]))
                elif r < 0.25:
                    arg = [-1] + arg
                try:
                    src.trainable_params = list(arg)
                except ValueError:
                    res = "ValueError"
            elif a == "expand":
                allp = [to_int(x) for x in src.get_parameters(trainable_only=False)]
                if len({abs(x) for x in allp}) != len(allp) or PI_HALF in allp:
                    continue           # provenance by value needs distinguishable parameters
                new = do_expand(src, stats)
        except lib.MachineryError:
            raise
        except Exception as ex:
            res = type(ex).__name__
        if new is not None:
            real.append(new)
        stats["acts"][a] = stats["acts"].get(a, 0) + 1
        h.append({"a": a, "t": t, "arg": arg, "vals": vals, "res": res})
        steps.append({"a": a, "t": t, "new": len(real) if new is not None else t, "arg": arg, "vals": vals, "res": res, "eq": eq,
                      "heap": [project(x) for x in real]})
        note_nested(stats, a, steps[-1]["heap"][t - 1], arg)
        if res != "ok" and a != "set_tr" or (a == "set_tr" and res == "ok" and any(i < 0 or i >= n for i in arg)):
            break                      # the trace spec will reject this step; later steps would be noise
    return h, steps


def run(tier, seed):
    import time
    T0, phases = time.time(), {}
    rng = random.Random(seed)
    stats = new_stats()
    # ---------------- (M) + generation: every history up to the bound, invariants checked on every reachable heap
    runs, hists = [], []
    plan = [(2, BASES[:7])] if tier == "quick" else [(2, BASES[:8]), (3, BASES[1:2] + BASES[4:5] + BASES[8:9])]
    for gi, (depth, bases) in enumerate(plan):
        g = lib.run_tlc_mc("TapeParamsGen", {"Bases": "{" + ",".join(bases) + "}"}, lib.workdir("C40", f"gen{gi}"),
                           constants={"MaxSteps": depth, "MaxTapes": 9}, invariants=INVS + ["DeepBases"], properties=["Frame"], constraints=["Emit"], timeout=3000)
        if g.invariant_violated:
            raise lib.MachineryError(f"the TapeParams model violates its own invariant {g.invariant_violated}:\n" + g.out[-2000:])
        lib.require_ok(g, "TapeParamsGen")
        hh = [("exh%d" % depth, j["hist"]) for j in g.json_lines]
        if len(hh) > 25000:
            hh = rng.sample(hh, 25000)
        hists += hh
        runs.append(g)
    n_exh_states = sum(x.distinct for x in runs)
    phases["tlc_model_and_generation"] = round(time.time() - T0, 1)
    if len(hists) < 500:
        raise lib.MachineryError(f"generator produced too few histories ({len(hists)})")

    # ---------------- (C) spec -> code: replay through the real API
    viol_by_key, traces, nontriv, samples = {}, [], set(), []
    for hi, (src, h) in enumerate(hists):
        cls = qp.tape.QuantumScript if hi % 3 else qp.tape.QuantumTape
        steps, bad = replay_history(h, cls, stats)
        traces.append({"steps": steps})
        for key, detail in bad:
            d = viol_by_key.setdefault(key, [0, detail, h])
            d[0] += 1
            if "tape with 0 parameters" in d[1] or "tape with 1 parameters" in d[1]:
                d[1], d[2] = detail, h          # prefer a less degenerate example
        acts = tuple(x["a"] for x in h[1:])
        if any(a in ("bind", "expand", "set_tr", "copy_tr") for a in acts) and not bad:
            nontriv.add(json.dumps([[x["a"], x["t"], seq(x["arg"])] for x in h] + [norm_exp(h[0]["exp"])["ops"]]))
    n_replayed = len(hists)
    phases["replay"] = round(time.time() - T0, 1)
    # negative control of the replay comparator: a perturbed expectation must be noticed
    hneg = json.loads(json.dumps(next(h for _, h in hists if any(x["a"] == "bind" for x in h))))
    kb = next(i for i, x in enumerate(hneg) if x["a"] == "bind")
    hneg[kb]["exp"]["all"][seq(hneg[kb]["arg"])[0]] += 1
    _, badneg = replay_history(hneg, qp.tape.QuantumScript, new_stats())
    if not badneg:
        raise lib.MachineryError("negative control (perturbed expected parameter) accepted by the replay comparator")
    neg_ok = 1

    # ---------------- (C) code -> spec: seeded random deeper histories on the real API
    n_walk, d_walk = (1500, 6) if tier == "quick" else (6000, 8)
    for wi in range(n_walk):
        h, steps = random_walk(rng, d_walk, qp.tape.QuantumScript if wi % 3 else qp.tape.QuantumTape, stats)
        hists.append(("walk", h))
        traces.append({"steps": steps})
        acts = [x["a"] for x in h[1:]]
        if len(samples) < 3 and "bind" in acts and "expand" in acts and "set_tr" in acts:
            samples.append({"history": h[1:], "base": h[0]["exp"]["ops"], "final_heap_trainable": [p["tr"] for p in steps[-1]["heap"]],
                            "final_heap_params": [p["all"] for p in steps[-1]["heap"]]})

    phases["random_histories"] = round(time.time() - T0, 1)
    # ---------------- trace validation of what the implementation reported (replayed and random histories)
    cap = 2500 if tier == "quick" else 8000
    idx = [i for i in range(len(traces)) if hists[i][0] == "walk"]
    rest = [i for i in range(len(traces)) if hists[i][0] != "walk"]
    idx = sorted(idx + (rest if len(rest) <= cap else rng.sample(rest, cap)))
    batch = [traces[i] for i in idx]
    negs = []
    for i in idx[:: max(1, len(idx) // 60)]:
        for c, what in corrupt(traces[i], rng):
            negs.append((len(batch), what))
            batch.append(c)
    verd = {}
    CH = 5000
    for b0 in range(0, len(batch), CH):
        part = batch[b0:b0 + CH]
        wd4 = lib.workdir("C40", f"trace{b0}")
        (wd4 / "traces.json").write_text(json.dumps(part))
        r = lib.run_tlc("Trace_TapeParams", lib.cfg(init="TInit", next_="TNext", constants={"NTRACES": len(part), "Bases": "{}", "MaxSteps": 0, "MaxTapes": 0}),
                        wd4, env={"TRACE_FILE": str(wd4 / "traces.json")}, timeout=3000)
        lib.require_ok(r, "Trace_TapeParams")
        runs.append(r)
        for t in r.tuples:
            if t[0] == "V":
                verd[b0 + t[1] - 1] = t[2:]
    phases["tlc_trace_validation"] = round(time.time() - T0, 1)
    if len(verd) != len(batch):
        raise lib.MachineryError(f"verdicts not total: {len(verd)} of {len(batch)}")
    kinds = {}
    for bi, what in negs:
        if verd[bi][0] != "ok":
            kinds[what] = kinds.get(what, 0) + 1
    nrej = sum(1 for bi, _ in negs if verd[bi][0] != "ok")
    if not negs or nrej != len(negs) or len(kinds) < 4:
        raise lib.MachineryError(f"trace negative controls rejected: {nrej}/{len(negs)} kinds={kinds}")
    neg_ok += nrej
    tdrift, trace_viol = 0, {}
    for bi, i in enumerate(idx):
        clause, step, dr = verd[bi]
        tdrift += dr == "drift"
        if hists[i][0] == "walk" and clause == "ok":
            nontriv.add(json.dumps(hists[i][1]))
        if clause != "ok":
            st = traces[i]["steps"][step - 1]
            key = f"{st['a']}:{clause}"
            if clause == "set-trainable-accepts-index-without-parameter":
                n = len(st["heap"][st["t"] - 1]["all"])
                key = "set_trainable:index-equal-num-params-accepted" if max(st["arg"]) == n and min(st["arg"]) >= 0 else "set_trainable:out-of-range-index-accepted"
            p = st["heap"][st["new"] - 1]
            d = trace_viol.setdefault(key, [0, f"Trace_TapeParams rejects step {step} ({st['a']} on tape {st['t']}, arg={st['arg']}, vals={st['vals']}): "
                                               f"{clause}; the implementation then reports trainable_params={p['tr']}, parameters={p['all']}, "
                                               f"get_parameters()={p['err'] or p['tp']}", hists[i][1]])
            d[0] += 1
    for k, d in trace_viol.items():
        if k in viol_by_key:
            viol_by_key[k][1] += f" || also rejected by Trace_TapeParams on {d[0]} traces"
        else:
            viol_by_key[k] = d
    viol = [Violation(key=k, detail=f"[{n} histories] {d}", replay={"history": [{kk: x.get(kk) for kk in ("a", "t", "arg", "vals", "res")} for x in h],
                                                                  "base": h[0]["exp"]})
            for k, (n, d, h) in sorted(viol_by_key.items())]
    need = {"copy", "copy_deep", "copy_tr", "copy_shots", "copy_ops", "bind", "bindcur_all", "bindcur_tr", "set_tr", "expand"}
    if need - set(stats["acts"]) or stats["expand_nontrivial"] < 10:
        raise lib.MachineryError(f"vacuous: actions never replayed: {need - set(stats['acts'])}, non-trivial expansions {stats['expand_nontrivial']}")
    if min(stats["binds_into_deep_layout"], stats["copies_of_nested"], stats["expands_with_nested"]) < 50:
        raise lib.MachineryError(f"vacuous: nested operators hardly exercised: {({k: stats[k] for k in stats if 'nested' in k or 'deep' in k})}")
    cov = {"states": sum(x.distinct for x in runs), "transitions": sum(x.generated for x in runs),
           "traces_validated_against_impl": len(idx), "evaluations": sum(stats["acts"].values()), "distinct_nontrivial": len(nontriv),
           "rule": "TLC enumerates every history of calls up to the bound from the base tapes; non-trivial = distinct (base circuit, call sequence "
                   "with arguments) containing a bind, expand, trainable setter or copy(trainable_params) whose every step agreed with the model, "
                   "plus distinct random deeper histories accepted by the trace spec",
           "samples": samples, "exhaustive": True, "histories_replayed": n_replayed, "random_histories": n_walk, "random_history_depth": d_walk,
           "calls_by_action": stats["acts"], "expansions": stats["expand"], "expansions_with_composite_gates": stats["expand_nontrivial"],
           "binds_on_tapes_with_nested_operators": stats["binds_on_nested"], "binds_into_multi_parameter_operand_layouts": stats["binds_into_deep_layout"],
           "copies_of_tapes_with_nested_operators": stats["copies_of_nested"], "expansions_of_tapes_with_nested_operators": stats["expands_with_nested"],
           "expansions_where_decompose_recomputed_explicit_indices": stats["expand_explicit_indices_recomputed"],
           "cumulative_wall_s": phases, "model_drift": stats["drift"] + tdrift, "negative_controls_rejected": neg_ok, "trace_negative_control_kinds": kinds,
           "model": {"module": "TapeParams", "invariants": INVS + ["DeepBases (vacuity)", "Frame (action property)"],
                     "exhaustive": [{"depth": d, "bases": len(b)} for d, b in plan], "states_exhaustive": n_exh_states}}
    return CheckResult(coverage=cov, violations=viol, assumptions=[
        "indices are passed sorted to bind_new_parameters (every call site does)",
        "trainability through an expansion is read the way the workflow reads it: requires_grad flags on the parameters "
        "(qp.math.get_trainable_indices); qp.transforms.decompose recomputes explicit index lists, which is counted, not judged",
        "operators nest (Hamiltonian, SProd, Sum, Prod, Adjoint; terms with 0, 1 and several parameters) but every parameter is a scalar: "
        "matrix-valued term parameters (Hermitian) are not generated",
        "parameter values are scalars 0.1*k; provenance through a decomposition is told by absolute value (pass-through or negation)"])


def replay(path, tier="quick", seed=0):
    """./check C40 --replay FILE: perform the stored calls on real tapes again and let Trace_TapeParams.tla judge the recorded steps."""
    d = json.loads(open(path).read())
    hist, base = d["replay"]["history"], norm_exp(d["replay"]["base"])
    stats = new_stats()
    h = [dict(x, exp=base, res="ok") for x in hist]          # expectations are not stored: only the outcome / trace verdict matters here
    steps, _ = replay_history(h, qp.tape.QuantumScript, stats, compare=False)
    wd = lib.workdir("C40", "replay")
    (wd / "traces.json").write_text(json.dumps([{"steps": steps}]))
    r = lib.run_tlc("Trace_TapeParams", lib.cfg(init="TInit", next_="TNext", constants={"NTRACES": 1, "Bases": "{}", "MaxSteps": 0, "MaxTapes": 0}),
                    wd, env={"TRACE_FILE": str(wd / "traces.json")}, timeout=600)
    lib.require_ok(r, "Trace_TapeParams (replay)")
    v = next(t for t in r.tuples if t[0] == "V")
    viol = []
    if v[2] != "ok":
        st = steps[v[3] - 1]
        viol.append(Violation(key=d["key"], detail=f"replayed: Trace_TapeParams rejects step {v[3]} ({st['a']} on tape {st['t']}, arg={st['arg']}): {v[2]}",
                              replay=d["replay"]))
    return CheckResult(coverage={"states": r.distinct, "transitions": r.generated, "traces_validated_against_impl": 1, "evaluations": len(steps),
                                 "distinct_nontrivial": 1, "rule": "replay of one stored history", "samples": [hist], "exhaustive": False}, violations=viol)
