"""C73 The execution tracker counts what was executed.

(M) Tracker.tla (active flag, persistent, reset on enter, totals / history / latest, the seven device entry points) is
    model-checked: the incrementally maintained tracker state equals the closed-form count over the ghost ledger of what the
    device performed while active (LedgerTotals, HistoryInOrder), TotalsAreSums, LatestConsistent, FreshAfterEnter.
(R) spec -> code: TrackerGen.tla emits histories of tracker-context operations (enter / exit / exit by exception / active on,
    off / reset, nested and persistent contexts) and direct device entry-point calls with batches of circuits (shots,
    non-commuting measurement groups, parameter broadcasting, gate counts, measurement processes, number of trainable
    parameters -- including batches whose circuits have the same gates but different measurements and derivative batches
    with circuits that have no trainable parameter), each with the totals / history the spec expects at the end; the
    driver replays them on real devices and compares.
(T) code -> spec: a wrapper around the device's entry points describes every batch it is handed (the independent count)
    and snapshots tracker.totals / history / latest after every call; Trace_Tracker.tla validates every step of (a) the
    replayed histories and (b) seeded random programs of QNode calls, gradients (parameter-shift, adjoint, device VJP,
    backprop), QNodes split by split_non_commuting, qp.execute batches with random shots, differentiated qp.execute
    batches of mixed trainability (device derivatives, device VJP, parameter-shift) and direct derivative calls inside
    random tracker contexts.  A recorded resources entry is compared as [number of gates] + sorted measurement-process
    codes, so the entry of a circuit must describe that circuit and not a neighbour with the same gates."""
import contextlib
import json
import os
import random
import sys
import time

import numpy as np

import pennylane as qp
from pennylane import numpy as pnp
from pennylane.devices import ExecutionConfig

from .. import lib
from ..lib import CheckResult, Violation

NUMKEYS = ["batches", "simulations", "executions", "shots", "derivative_batches", "derivatives",
           "execute_and_derivative_batches", "jvp_batches", "jvps", "execute_and_jvp_batches",
           "vjp_batches", "vjps", "execute_and_vjp_batches"]
ALLKEYS = NUMKEYS + ["resources", "results"]
KINDS = ["execute", "compute_derivatives", "execute_and_compute_derivatives", "compute_jvp", "execute_and_compute_jvp",
         "compute_vjp", "execute_and_compute_vjp"]
INVS = ["LedgerTotals", "HistoryInOrder", "TotalsAreSums", "LatestConsistent", "FreshAfterEnter"]
CTL = ["enter", "exit", "exitx", "on", "off", "reset"]


# ----------------------------------------------------------------------------- the independent description of a circuit
def _letters(mp):
    """measurement -> {wire: basis letter}; measurements without an observable are computational-basis measurements"""
    obs = mp.obs
    if obs is None:
        return {w: "Z" for w in mp.wires}
    parts = list(obs.operands) if hasattr(obs, "operands") else [obs]
    out = {}
    for p in parts:
        nm = p.name
        if nm == "Identity":
            continue
        if nm not in ("PauliX", "PauliY", "PauliZ"):
            raise lib.MachineryError(f"driver produced an observable outside its menu: {obs}")
        out[p.wires[0]] = nm[-1]
    return out


def n_groups(mps):
    """number of groups of qubit-wise commuting measurements (first fit; exact for the driver's menus, where the
    measurements of one circuit either all commute or all clash)"""
    groups = []
    for mp in mps:
        w = _letters(mp)
        for g in groups:
            if all(g.get(k, v) == v for k, v in w.items()):
                g.update(w)
                break
        else:
            groups.append(dict(w))
    return len(groups)


MP_KIND = {"ExpectationMP": 1, "VarianceMP": 2, "ProbabilityMP": 3, "SampleMP": 4, "CountsMP": 5}
MP_WORD = {"expval": 1, "var": 2, "probs": 3, "sample": 4, "counts": 5}
SHAPE = {"PauliX": 1, "PauliY": 2, "PauliZ": 3, "Prod": 4}


def mcodes(mps):
    """measurement processes -> sorted codes kind*8 + shape, read off the measurement objects of the tape the device was
    handed (the independent description; Tracker.tla documents the code)"""
    out = []
    for mp in mps:
        kind = MP_KIND.get(type(mp).__name__)
        shape = 0 if mp.obs is None else SHAPE.get(mp.obs.name)
        if kind is None or shape is None:
            raise lib.MachineryError(f"driver produced a measurement outside its menu: {mp}")
        out.append(kind * 8 + shape)
    return sorted(out)


def describe(tape):
    return {"s": int(tape.shots.total_shots) if tape.shots else 0, "g": n_groups(tape.measurements),
            "b": int(tape.batch_size) if tape.batch_size else 0, "n": len(tape.operations),
            "t": len(tape.trainable_params), "m": mcodes(tape.measurements)}


def _res(r):
    """a recorded SpecsResources -> [number of gates] + sorted measurement codes (read from what the tracker stored)"""
    if r is None:
        return [-1]
    t = getattr(r, "total_quantum_operations", None)
    if t is None:
        t = sum(getattr(r, "counts", getattr(r, "gate_types", {})).values())
    codes = []
    for name, cnt in dict(getattr(r, "measurement_processes", {}) or {}).items():
        word, _, arg = str(name).partition("(")
        arg = arg[:-1] if arg.endswith(")") else arg
        shape = SHAPE.get(arg.partition("(")[0], 0 if "wires" in arg else 7)      # 7: something outside the menus
        codes += [MP_WORD.get(word, 0) * 8 + shape] * int(cnt)
    return [int(t)] + sorted(codes)


def snap(tr):
    tot = {k: int(tr.totals.get(k, 0)) for k in NUMKEYS}
    hist = {k: [int(v) for v in tr.history.get(k, [])] for k in NUMKEYS}
    hist["resources"] = [_res(r) for r in tr.history.get("resources", [])]
    hist["results"] = [1] * len(tr.history.get("results", []))
    latest = {k: [int(tr.latest[k])] if k in tr.latest else [] for k in NUMKEYS}          # [] absent, [value] present
    latest["resources"] = [_res(tr.latest["resources"])] if "resources" in tr.latest else []
    latest["results"] = [1] if "results" in tr.latest else []
    extra = sorted((set(tr.totals) | set(tr.history) | set(tr.latest)) - set(ALLKEYS))
    return {"active": bool(tr.active), "tot": tot, "hist": hist, "latest": latest, "extra": len(extra)}


class Probe:
    """Wraps the seven entry points of one device instance; records one step per call."""

    def __init__(self, dev, persistent):
        self.dev, self.steps, self.level, self.stack = dev, [], 0, []
        self.tracker = qp.Tracker(dev, persistent=persistent)
        for k in KINDS:
            setattr(dev, k, self._wrap(k, getattr(dev, k)))

    def _wrap(self, kind, orig):
        def entry(circuits, *a, **kw):
            batch = [circuits] if isinstance(circuits, qp.tape.QuantumScript) else list(circuits)
            desc = [describe(t) for t in batch]
            self.level += 1
            try:
                res = orig(circuits, *a, **kw)
            finally:
                self.level -= 1
            # a call made from inside another entry point is compared when the outermost one returns
            self.steps.append({"a": "call", "kind": kind, "batch": desc, "chk": self.level == 0, "obs": snap(self.dev.tracker)})
            return res
        return entry

    def ctl(self, a):
        t = self.tracker
        if a == "enter":
            st = contextlib.ExitStack()
            st.enter_context(t)
            self.stack.append(st)
        elif a == "exit":
            self.stack.pop().close()
        elif a == "exitx":
            if self.stack.pop().__exit__(ValueError, ValueError("raised inside the tracker context"), None):
                raise lib.MachineryError("Tracker.__exit__ swallowed an exception")
        elif a == "on":
            t.active = True
        elif a == "off":
            t.active = False
        elif a == "reset":
            t.reset()
        self.steps.append({"a": a, "kind": "", "batch": [], "chk": True, "obs": snap(t)})


# ----------------------------------------------------------------------------- circuits from descriptors
MENUS = [lambda: [qp.expval(qp.Z(0))],                                          # 0   one group
         lambda: [qp.expval(qp.Z(0)), qp.expval(qp.Z(1))],                      # 1
         lambda: [qp.expval(qp.Z(0) @ qp.Z(1)), qp.expval(qp.Z(0))],            # 2
         lambda: [qp.probs(wires=[0, 1])],                                      # 3
         lambda: [qp.expval(qp.Z(1)), qp.var(qp.Z(0))],                         # 4
         lambda: [qp.sample()],                                                 # 5   finite shots only
         lambda: [qp.counts()],                                                 # 6   finite shots only
         lambda: [qp.expval(qp.X(0)), qp.expval(qp.Z(0))],                      # 7   two groups
         lambda: [qp.expval(qp.Y(1)), qp.expval(qp.Z(0) @ qp.Z(1))],            # 8
         lambda: [qp.expval(qp.X(0)), qp.expval(qp.Y(0)), qp.expval(qp.Z(0))]]  # 9   three groups
MENU_OF = {(n_groups(f()), tuple(mcodes(f()))): f for f in MENUS}              # (g, m) of a TLC circuit -> its measurements
assert len(MENU_OF) == len(MENUS)


def build_tape(c, variant=0):
    ops = []
    for i in range(c["n"]):
        th = 0.1 * (i + 1) + 0.05 * variant
        if i == 0 and c["b"]:
            th = np.linspace(0.1, 0.7, c["b"])
        ops.append([qp.RX, qp.RY][i % 2](th, wires=i % 2))
    if "m" in c:                    # a circuit chosen by TLC: gates from n, measurements from (g, m), trainability from t
        ms = MENU_OF[(c["g"], tuple(c["m"]))]()
    elif c["g"] == 1:
        menus = [[qp.expval(qp.Z(0))], [qp.expval(qp.Z(0)), qp.expval(qp.Z(1))], [qp.expval(qp.Z(0) @ qp.Z(1)), qp.expval(qp.Z(0))]]
        if c.get("any_measurement"):
            menus += [[qp.probs(wires=[0, 1])], [qp.expval(qp.Z(1)), qp.var(qp.Z(0))]] + ([[qp.sample()], [qp.counts()]] if c["s"] else [])
        ms = menus[variant % len(menus)]
    elif c["g"] == 2:
        ms = [[qp.expval(qp.X(0)), qp.expval(qp.Z(0))], [qp.expval(qp.Y(1)), qp.expval(qp.Z(0) @ qp.Z(1))]][variant % 2]
    else:
        ms = [qp.expval(qp.X(0)), qp.expval(qp.Y(0)), qp.expval(qp.Z(0))]
    shots = None
    if c["s"]:
        shots = c["s"] if variant % 2 == 0 or c["s"] < 4 else qp.measurements.Shots((c["s"] // 2, c["s"] - c["s"] // 2))
    return qp.tape.QuantumScript(ops, ms, shots=shots, trainable_params=list(range(c["t"])) if "t" in c else None)


def direct_call(dev, kind, batch, variant, gm, plain=False):
    execute = kind == "execute"
    tapes = tuple(build_tape(dict(c, any_measurement=execute and not plain), variant + i) for i, c in enumerate(batch))
    cfg = ExecutionConfig(gradient_method=gm)
    arg = tapes[0] if len(tapes) == 1 and variant % 3 == 0 else tapes          # single-tape form
    single = not isinstance(arg, tuple)
    if execute:
        return dev.execute(arg) if variant % 2 else dev.execute(arg, ExecutionConfig())
    tang = tuple(tuple(1.0 / (j + 1) for j in range(len(t.trainable_params))) for t in tapes)
    cot = tuple(1.0 if len(t.measurements) == 1 else tuple(0.5 for _ in t.measurements) for t in tapes)
    extra = {"compute_derivatives": (), "execute_and_compute_derivatives": (),
             "compute_jvp": (tang[0] if single else tang,), "execute_and_compute_jvp": (tang[0] if single else tang,),
             "compute_vjp": (cot[0] if single else cot,), "execute_and_compute_vjp": (cot[0] if single else cot,)}[kind]
    return getattr(dev, kind)(arg, *extra, cfg)


DEVICES = {"default.qubit": ("adjoint", True), "null.qubit": ("device", True), "default.mixed": (None, False),
           "reference.qubit": (None, False)}


def make_device(name):
    return qp.device(name) if name == "default.qubit" else qp.device(name, wires=2)


def replay_history(h, hid):
    exec_only = all(s["kind"] in ("", "execute") for s in h["steps"])
    name = ["default.qubit", "null.qubit", "null.qubit", "default.mixed" if hid % 8 == 3 else "reference.qubit"][hid % 4]
    if not DEVICES[name][1] and not (exec_only and all(c["b"] == 0 for s in h["steps"] for c in s["batch"])):
        name = "null.qubit"          # the minimal devices take neither derivative calls nor broadcast parameters directly
    if name == "reference.qubit" and any(k // 8 != 1 for s in h["steps"] for c in s["batch"] for k in c["m"]):
        name = "default.mixed"       # reference.qubit natively executes expectation values only
    dev = make_device(name)
    p = Probe(dev, h["persistent"])
    for i, s in enumerate(h["steps"]):
        if s["a"] == "call":
            direct_call(dev, s["kind"], s["batch"], hid + i, DEVICES[name][0], plain=name == "reference.qubit")
            got = p.steps[-1]
            if got["kind"] != s["kind"] or got["batch"] != s["batch"]:
                raise lib.MachineryError(f"the wrapper's description {got['kind']} {got['batch']} differs from the commanded "
                                         f"{s['kind']} {s['batch']}")
        else:
            p.ctl(s["a"])
    while p.stack:
        p.stack.pop().close()
    return {"persistent": h["persistent"], "dev": name, "src": "replay", "steps": p.steps}


# ----------------------------------------------------------------------------- random QNode-level programs
def _total(res):
    if isinstance(res, (tuple, list)) or type(res).__name__ == "SequenceBox":          # autograd's boxed tuple
        return sum(_total(res[i]) for i in range(len(res)))
    if isinstance(res, dict):
        return 0.0
    return pnp.sum(res)


MEAS = {"z": lambda: (qp.expval(qp.Z(0)),), "zz": lambda: (qp.expval(qp.Z(0)), qp.expval(qp.Z(1))),
        "xz": lambda: (qp.expval(qp.X(0)), qp.expval(qp.Z(0))), "xyz": lambda: (qp.expval(qp.X(0)), qp.expval(qp.Y(0)), qp.expval(qp.Z(0))),
        "probs": lambda: (qp.probs(wires=[0, 1]),)}


def random_program(rng, dev_name):
    full = DEVICES[dev_name][1]
    prog, depth = [], 0
    for _ in range(rng.randint(4, 9)):
        r = rng.random()
        if r < 0.27:
            a = rng.choice(["enter", "enter", "enter", "exit", "exit", "exitx", "on", "off", "reset"])
            if a in ("exit", "exitx") and depth == 0:
                a = "enter"
            depth += 1 if a == "enter" else -1 if a in ("exit", "exitx") else 0
            prog.append(("ctl", a))
        elif r < 0.45:
            # the last field: apply split_non_commuting (the device is handed one tape per group: same gates, different measurements)
            prog.append(("qnode", rng.choice(["parameter-shift", "backprop", "adjoint"] if full else ["parameter-shift"]),
                         rng.choice([None, None, 10, 25, (5, 10)]), rng.choice(list(MEAS)), rng.choice([0, 0, 2, 3]), rng.random() < 0.4))
        elif r < 0.57:
            # a differentiated qp.execute batch of mixed trainability: pattern[i] says whether tape i depends on the argument
            pattern = [rng.random() < 0.5 for _ in range(rng.randint(1, 4))]
            pattern[rng.randrange(len(pattern))] = True
            diff = rng.choice([("adjoint", {"grad_on_execution": True}), ("adjoint", {"grad_on_execution": False}),
                               ("adjoint", {"device_vjp": True}), ("parameter-shift", {}), ("backprop", {})] if full else [("parameter-shift", {})])
            prog.append(("execgrad", diff, pattern, rng.randint(0, 5)))
        elif r < 0.77:
            diff = rng.choice([("parameter-shift", {}), ("adjoint", {}), ("adjoint", {"device_vjp": True}),
                               ("adjoint", {"grad_on_execution": False}), ("backprop", {})] if full else [("parameter-shift", {})])
            shots = rng.choice([None, 10, 20, (5, 10)]) if diff[0] == "parameter-shift" else None
            meas = rng.choice(["z", "zz", "xz", "xyz"] if diff[0] == "adjoint" else list(MEAS))
            prog.append(("grad", diff, shots, meas))
        elif r < 0.90:
            prog.append(("execute", [{"s": rng.choice([0, 0, 5, 12, 30]), "g": rng.choice([1, 1, 2, 3]), "b": rng.choice([0, 0, 0, 2, 3]),
                                      "n": rng.randint(1, 3)} for _ in range(rng.randint(0, 3))], rng.randint(0, 5)))
        elif full:
            batch = [{"s": 0, "g": rng.choice([1, 2, 3]), "b": 0, "n": rng.randint(1, 3)} for _ in range(rng.randint(1, 3))]
            prog.append(("direct", rng.choice(KINDS[1:]), [dict(c, t=rng.randint(0, c["n"])) for c in batch], rng.randint(0, 5)))
    if not any(p[0] == "ctl" and p[1] in ("enter", "on") for p in prog):
        prog.insert(0, ("ctl", "enter"))
    return prog


def run_program(prog, dev_name, persistent):
    dev = make_device(dev_name)
    p = Probe(dev, persistent)
    x = pnp.array([0.3, 0.7], requires_grad=True)
    for el in prog:
        if el[0] == "ctl":
            if el[1] in ("exit", "exitx") and not p.stack:
                continue
            p.ctl(el[1])
            continue
        if el[0] in ("qnode", "grad"):
            diff, kw = (el[1], {}) if el[0] == "qnode" else el[1]
            shots, meas = el[2], el[3]
            shots = tuple(shots) if isinstance(shots, list) else shots
            if diff in ("adjoint", "backprop"):
                shots = None
            if diff == "adjoint" and meas == "probs":
                meas = "xz"

            @qp.set_shots(shots)
            @qp.qnode(dev, diff_method=diff, **kw)
            def circuit(v, w):
                qp.RX(v[0], 0)
                qp.RY(v[1], 1)
                qp.CNOT([0, 1])
                qp.RY(w, 0)
                ms = MEAS[meas]()
                return ms if len(ms) > 1 else ms[0]
            if el[0] == "qnode":
                w = pnp.array(np.linspace(0.1, 0.9, el[4]), requires_grad=False) if el[4] else 0.4
                (qp.transforms.split_non_commuting(circuit) if len(el) > 5 and el[5] else circuit)(x, w)
            else:
                qp.grad(lambda v: _total(circuit(v, 0.4)))(x)
        elif el[0] == "execgrad":
            (diff, kw), pattern, variant = el[1], el[2], el[3]

            def cost(a):
                tapes = []
                for i, dep in enumerate(pattern):
                    th = a * (i + 1) if dep else 0.3 + 0.1 * i
                    ops = [qp.RX(th, 0), qp.CNOT([0, 1])] if variant % 3 == 0 or i % 2 else [qp.RY(0.5, 0), qp.RX(th, 1)]
                    ms = [MENUS[0], MENUS[1], MENUS[7], MENUS[2]][(i + variant) % 4]()
                    tapes.append(qp.tape.QuantumScript(ops, ms))
                return sum(_total(r) for r in qp.execute(tapes, dev, diff_method=diff, **kw))
            qp.grad(cost)(pnp.array(0.1, requires_grad=True))
        elif el[0] == "execute":
            tapes = [build_tape(dict(c, any_measurement=True), el[2] + i) for i, c in enumerate(el[1])]
            if tapes:
                qp.execute(tapes, dev, diff_method=None)
            else:
                dev.execute(())
        elif el[0] == "direct":
            direct_call(dev, el[1], el[2], el[3], DEVICES[dev_name][0])
    while p.stack:
        p.stack.pop().close()
    return {"persistent": persistent, "dev": dev_name, "src": "program", "steps": p.steps, "prog": json.loads(json.dumps(prog))}


# ----------------------------------------------------------------------------- TLC
def circ(s, menu, b, n, t):
    """a circuit of the model: shots, measurement menu (gives g and m), broadcast size, gates, trainable parameters"""
    ms = MENUS[menu]()
    return f"[s |-> {s}, g |-> {n_groups(ms)}, b |-> {b}, n |-> {n}, t |-> {t}, m |-> <<{', '.join(map(str, mcodes(ms)))}>>]"


# C6 and C7 have no trainable parameter; C1/C7, C2/C4 (and C6) have the same gates and different measurements
C1, C2, C3, C4, C5, C6, C7 = (circ(0, 0, 0, 1, 1), circ(10, 7, 0, 2, 2), circ(0, 9, 0, 3, 2), circ(7, 2, 3, 2, 2), circ(0, 8, 2, 1, 1),
                              circ(0, 7, 0, 2, 0), circ(0, 1, 0, 1, 0))
# further measurement kinds (same two gates throughout), used by the random histories only
C8, C9, C10, C11 = circ(5, 3, 0, 2, 2), circ(12, 5, 0, 2, 0), circ(0, 4, 0, 2, 1), circ(6, 6, 0, 2, 1)


def calls(exec_batches, deriv_batches, kinds=KINDS[1:]):
    cs = [f'[kind |-> "execute", batch |-> <<{", ".join(b)}>>]' for b in exec_batches]
    cs += [f'[kind |-> "{k}", batch |-> <<{", ".join(b)}>>]' for k in kinds for b in deriv_batches]
    return "{" + ", ".join(cs) + "}"


EXEC_B, DERIV_B = [[], [C7, C1], [C2], [C4], [C1, C2], [C2, C4], [C5, C3], [C4, C1, C2]], [[C1], [C3, C7], [C6, C3, C1]]
FULL = calls(EXEC_B, DERIV_B)
WIDE = calls(EXEC_B + [[C8, C10], [C9, C11, C2], [C10, C6, C8]], DERIV_B + [[C7]])
MEDIUM = calls([[], [C2], [C2, C4], [C5, C3]], [[C3, C7]])
SMALL = calls([[C2, C4]], [])
SMALL2 = calls([[C2, C4]], [[C3, C7]], kinds=["execute_and_compute_derivatives"])


def sset(xs):
    return "{" + ", ".join(f'"{x}"' for x in xs) + "}"


def _tlc_mc(*a, **kw):
    r = lib.run_tlc_mc(*a, **kw)
    if r.rc in (137, 143):          # JVM killed from outside (shared machine): one retry
        r = lib.run_tlc_mc(*a, **kw)
    return r


def generate(tier, seed, wd):
    q = tier == "quick"
    runs, hists = [], []
    m = _tlc_mc("Tracker", {"Calls": MEDIUM if q else FULL, "Ctl": sset(CTL), "Persist": "BOOLEAN", "PreEnter": "FALSE"}, wd / "mc",
                constants={"MaxSteps": 4 if q else 5}, invariants=INVS, view="NoSteps", timeout=3000)
    runs.append(m)
    plans = [("controls", {"Calls": SMALL, "Ctl": sset(CTL), "Persist": "BOOLEAN", "PreEnter": "FALSE"}, 4 if q else 5),
             ("calls", {"Calls": FULL, "Ctl": "{}", "Persist": "{FALSE}", "PreEnter": "TRUE"}, 3 if q else 4)]
    if not q:
        plans.append(("controls2", {"Calls": SMALL2, "Ctl": sset(CTL), "Persist": "BOOLEAN", "PreEnter": "FALSE"}, 4))
    for name, defs, ms in plans:
        g = _tlc_mc("TrackerGen", defs, wd / f"gen_{name}", constants={"MaxSteps": ms}, next_="GenNext", invariants=INVS, timeout=3000)
        runs.append(g)
        hists += g.json_lines
    hists.sort(key=lambda h: json.dumps(h, sort_keys=True))               # TLC's output order depends on its worker threads
    n_ex = len(hists)
    depth, num = (10, 90) if q else (18, 2000)
    s = _tlc_mc("TrackerGen", {"Calls": WIDE, "Ctl": sset(CTL), "Persist": "BOOLEAN", "PreEnter": "FALSE"}, wd / "sim",
                constants={"MaxSteps": depth}, next_="GenNext", invariants=INVS, simulate=f"num={num}", depth=depth + 3,
                seed=seed + 1, workers=4, timeout=3000)
    runs.append(s)
    seen = set()
    for k in sorted(json.dumps(j, sort_keys=True) for j in s.json_lines):
        if k not in seen:
            seen.add(k)
            hists.append(json.loads(k))
    bad = None
    for r in runs:
        if r.invariant_violated:
            bad = r.invariant_violated
        elif not r.ok():
            lib.require_ok(r, "Tracker model / generator")
    return hists, n_ex, runs, bad


class _Agg:
    """sum of the TLC statistics of several validation runs"""

    def __init__(self):
        self.distinct = self.generated = 0
        self.wall_s = 0.0


def validate(traces, wd, name="trace", chunk=8000):
    agg, verd = _Agg(), {}
    for c0 in range(0, len(traces), chunk):
        part = traces[c0:c0 + chunk]
        d = wd / f"{name}_{c0}"
        d.mkdir(parents=True, exist_ok=True)
        path = d / "traces.json"
        path.write_text(json.dumps([{"persistent": t["persistent"], "steps": t["steps"]} for t in part]))
        cfg = lib.cfg(init="TInit", next_="TNext", constants={"NTRACES": len(part), "Calls": "{}", "Ctl": "{}", "Persist": "{}",
                                                              "PreEnter": "FALSE", "MaxSteps": 0})
        r = lib.run_tlc("Trace_Tracker", cfg, d, env={"TRACE_FILE": str(path)}, timeout=3000)
        if r.rc in (137, 143):
            r = lib.run_tlc("Trace_Tracker", cfg, d, env={"TRACE_FILE": str(path)}, timeout=3000)
        lib.require_ok(r, "Trace_Tracker")
        v = {c0 + t[1] - 1: (t[2], t[3]) for t in r.tuples if t[0] == "V"}
        if len(v) != len(part):
            raise lib.MachineryError(f"verdicts not total: {len(v)} of {len(part)}")
        verd.update(v)
        agg.distinct += r.distinct
        agg.generated += r.generated
        agg.wall_s += r.wall_s
        path.unlink()
    return agg, verd


def negative_controls(tr):
    """corrupted copies of a recorded trace with the clause Trace_Tracker must answer"""
    out = []
    steps = tr["steps"]
    idx = [i for i, s in enumerate(steps) if s["a"] == "call" and s["chk"] and s["obs"]["active"] and s["obs"]["tot"]["executions"] > 0]
    if not idx:
        return out

    def clone(i):
        return json.loads(json.dumps(steps[:i + 1]))
    i = idx[-1]
    c = clone(i)
    c[-1]["obs"]["tot"]["executions"] += 1
    out.append(("totals-differ:executions", c))
    if steps[i]["obs"]["tot"]["shots"] > 0:
        c = clone(i)
        c[-1]["obs"]["tot"]["shots"] -= 1
        out.append(("totals-differ:shots", c))
    r = steps[i]["obs"]["hist"]["resources"]
    if len(r) >= 2 and r[-1] != r[-2]:
        c = clone(i)
        c[-1]["obs"]["hist"]["resources"][-2:] = [r[-1], r[-2]]          # same multiset, wrong order
        out.append(("history-differs:resources", c))
    if r:
        c = clone(i)
        c[-1]["obs"]["hist"]["resources"].pop()
        out.append(("history-differs:resources", c))
    la = steps[i]["obs"]["latest"]
    k = next((k for k in NUMKEYS if la[k]), None)
    if k:
        c = clone(i)
        c[-1]["obs"]["latest"][k][0] += 5
        out.append(("latest-inconsistent-with-history", c))
    return out


DERIV_KINDS = ("compute_derivatives", "execute_and_compute_derivatives")


def _same_gates_other_measurements(batch):
    return any(a["n"] == b["n"] and a["m"] != b["m"] for i, a in enumerate(batch) for b in batch[i + 1:])


def class_controls(tr):
    """corruptions of the two input classes added after the first seeded trial: (label, clause, steps)"""
    out, steps = [], tr["steps"]
    for i, s in enumerate(steps):
        if not (s["a"] == "call" and s["chk"] and s["obs"]["active"]):
            continue
        r = s["obs"]["hist"]["resources"]
        pair = next(((a, b) for a in range(len(r)) for b in range(a + 1, len(r)) if r[a][0] == r[b][0] and r[a] != r[b]), None)
        if pair and not any(o[0] == "resources-of-neighbour" for o in out):
            c = json.loads(json.dumps(steps[:i + 1]))
            c[-1]["obs"]["hist"]["resources"][pair[1]] = list(r[pair[0]])          # the entry of a circuit with the same gates
            out.append(("resources-of-neighbour", "history-differs:resources", c))
        if s["kind"] in DERIV_KINDS and any(x["t"] == 0 for x in s["batch"]) and not any(o[0] == "untrainable-not-counted" for o in out):
            c = json.loads(json.dumps(steps[:i + 1]))
            c[-1]["obs"]["tot"]["derivatives"] -= 1
            c[-1]["obs"]["hist"]["derivatives"][-1] -= 1
            out.append(("untrainable-not-counted", "totals-differ:derivatives", c))
    return out


def _dbg(t0, what):
    if os.environ.get("VERIF_DEBUG"):
        print(f"[C73 {time.time() - t0:6.1f}s] {what}", file=sys.stderr, flush=True)


def run(tier, seed):
    t0 = time.time()
    wd = lib.workdir("C73")
    hists, n_ex, runs, model_bad = generate(tier, seed, wd)
    _dbg(t0, f"generated {len(hists)} histories ({n_ex} exhaustive); TLC walls {[round(r.wall_s, 1) for r in runs]}")
    if n_ex < 300 or len(hists) - n_ex < 50:
        raise lib.MachineryError(f"generator produced too few histories ({n_ex} exhaustive, {len(hists) - n_ex} random)")
    rng = random.Random(seed)
    viol, traces, exp = [], [], []
    for hid, h in enumerate(hists):
        traces.append(replay_history(h, hid))
        exp.append(h["exp"])
    _dbg(t0, "replay done")
    n_rep = len(traces)
    # REPLAY comparison: the final tracker state against the expectation computed by the generator
    n_final_bad = 0
    for hid, (tr, e) in enumerate(zip(traces, exp)):
        got = tr["steps"][-1]["obs"] if tr["steps"] else None
        if got is None:
            continue
        diff = [k for k in NUMKEYS if got["tot"][k] != e["tot"][k]] + [f"history[{k}]" for k in ALLKEYS if got["hist"][k] != list(e["hist"][k])]
        if diff:
            n_final_bad += 1
            if n_final_bad <= 3:
                viol.append(Violation(key=f"replay:final-state-differs:{diff[0]}",
                                      detail=f"{tr['dev']}: after {hists[hid]['steps']} (persistent={tr['persistent']}) the tracker has "
                                             f"totals {got['tot']} history {got['hist']}; the spec expects {e['tot']} {e['hist']}",
                                      replay={"history": hists[hid], "hid": hid, "dev": tr["dev"]}))
    # random QNode-level programs
    n_prog = 60 if tier == "quick" else 600
    names = ["default.qubit", "default.qubit", "null.qubit", "default.qubit", "default.mixed", "reference.qubit"]
    for i in range(n_prog):
        name = names[i % len(names)]
        prog = random_program(rng, name)
        if i % 6 == 1:          # default.qubit: make sure device derivatives of a batch of mixed trainability occur while active
            kw = [{"grad_on_execution": True}, {"grad_on_execution": False}, {"device_vjp": True}][(i // 6) % 3]
            pattern = [rng.random() < 0.5 for _ in range(rng.randint(2, 4))]
            pattern[rng.randrange(len(pattern))], pattern[rng.randrange(len(pattern))] = True, False
            if not any(pattern):
                pattern[0] = True
            prog = [("ctl", "enter"), ("execgrad", ("adjoint", kw), pattern, rng.randint(0, 5))] + prog
        traces.append(run_program(prog, name, persistent=rng.random() < 0.4))
    _dbg(t0, "programs done")
    # negative controls
    negs, n_all = [], len(traces)
    cand = [i for i, t in enumerate(traces) if any(s["a"] == "call" and s["obs"]["active"] and len(s["obs"]["hist"]["resources"]) >= 2
                                                   and s["obs"]["tot"]["shots"] > 0 for s in t["steps"])]
    for i in rng.sample(cand, min(len(cand), 6)):
        for clause, steps in negative_controls(traces[i]):
            negs.append((len(traces), clause, i, clause))
            traces.append({"persistent": traces[i]["persistent"], "dev": traces[i]["dev"], "src": "neg", "steps": steps})
    n_class = {"resources-of-neighbour": 0, "untrainable-not-counted": 0}
    for i in range(n_all):
        if min(n_class.values()) >= 3:
            break
        for label, clause, steps in class_controls(traces[i]):
            if n_class[label] < 3:
                n_class[label] += 1
                negs.append((len(traces), clause, i, label))
                traces.append({"persistent": traces[i]["persistent"], "dev": traces[i]["dev"], "src": "neg", "steps": steps})
    r, verd = validate(traces, wd)
    _dbg(t0, f"trace validation done (TLC {r.wall_s:.1f}s)")
    want = {"totals-differ:executions", "totals-differ:shots", "history-differs:resources", "latest-inconsistent-with-history",
            "resources-of-neighbour", "untrainable-not-counted"}
    rejected = {lab for (i, c, b, lab) in negs if verd[i][0] == c}
    wrong = [(lab, verd[i][0]) for (i, c, b, lab) in negs if verd[i][0] == "ok" or (verd[b][0] == "ok" and verd[i][0] != c)]
    impl_clean = all(verd[i][0] == "ok" for i in range(len(traces)) if traces[i]["src"] != "neg")
    if wrong or (impl_clean and rejected != want):
        raise lib.MachineryError(f"negative controls: clauses rejected {sorted(rejected)}; wrong answers {wrong[:3]}")
    if model_bad:
        viol.append(Violation(key=f"model:{model_bad}", detail=f"the Tracker model violates {model_bad}"))
    nviol, drift, extra = {}, 0, 0
    kinds_seen = {k: 0 for k in KINDS}
    nontriv, samples = set(), []
    feats = {"calls_while_inactive": 0, "persistent_reentry": 0, "nested_context": 0, "reset": 0, "exit_by_exception": 0,
             "finite_shots": 0, "shot_vector_or_multi_group": 0, "broadcast": 0, "empty_batch": 0, "nested_entry_calls": 0}
    cls = {src: {"same_gates_other_measurements_in_executed_batch": 0, "derivative_batch_with_untrainable_circuit": 0,
                 "derivative_batch_all_untrainable": 0, "jvp_vjp_batch_with_untrainable_circuit": 0} for src in ("replay", "program")}
    for i, t in enumerate(traces):
        if t["src"] == "neg":
            continue
        v, d = verd[i]
        drift += d == "drift"
        extra += any(s["obs"]["extra"] for s in t["steps"])
        key = f"{t['src']}:{v}"
        if v != "ok":
            nviol[key] = nviol.get(key, 0) + 1
            if nviol[key] <= 3:
                show = [{k: s[k] for k in ("a", "kind", "batch")} for s in t["steps"]]
                viol.append(Violation(key=key, detail=f"{v} on {t['dev']} (persistent={t['persistent']}): steps {show}; "
                                                      f"last snapshot {t['steps'][-1]['obs']}",
                                      replay={"trace": t, "hid": i}))
        depth, was_active, active_calls = 0, False, 0
        for s in t["steps"]:
            if s["a"] == "call":
                kinds_seen[s["kind"]] += 1
                active_calls += s["obs"]["active"]
                feats["calls_while_inactive"] += not s["obs"]["active"]
                feats["finite_shots"] += any(c["s"] for c in s["batch"])
                feats["shot_vector_or_multi_group"] += any(c["g"] > 1 for c in s["batch"])
                feats["broadcast"] += any(c["b"] for c in s["batch"])
                feats["empty_batch"] += not s["batch"]
                feats["nested_entry_calls"] += not s["chk"]
                if s["obs"]["active"]:
                    f, unt = cls[t["src"]], [c["t"] == 0 for c in s["batch"]]
                    f["same_gates_other_measurements_in_executed_batch"] += s["kind"] == "execute" and _same_gates_other_measurements(s["batch"])
                    f["derivative_batch_with_untrainable_circuit"] += s["kind"] in DERIV_KINDS and any(unt)
                    f["derivative_batch_all_untrainable"] += s["kind"] in DERIV_KINDS and bool(unt) and all(unt)
                    f["jvp_vjp_batch_with_untrainable_circuit"] += s["kind"] not in DERIV_KINDS + ("execute",) and any(unt)
            elif s["a"] == "enter":
                depth += 1
                feats["nested_context"] += depth >= 2
                feats["persistent_reentry"] += t["persistent"] and was_active
                was_active = True
            elif s["a"] in ("exit", "exitx"):
                depth -= 1
                feats["exit_by_exception"] += s["a"] == "exitx"
            elif s["a"] == "reset":
                feats["reset"] += 1
        if active_calls >= 2:
            nontriv.add(json.dumps([[s["a"], s["kind"], s["batch"]] for s in t["steps"]]) + t["dev"])
            if len(samples) < 4 and t["src"] == ("program" if len(samples) % 2 else "replay") and len(t["steps"]) <= 8:
                samples.append({"src": t["src"], "dev": t["dev"], "persistent": t["persistent"],
                                "steps": [[s["a"], s["kind"], s["batch"]] for s in t["steps"]],
                                "final_totals": {k: v for k, v in t["steps"][-1]["obs"]["tot"].items() if v}, "verdict": v})
    if min(kinds_seen.values()) == 0:
        raise lib.MachineryError(f"vacuity: entry point never exercised: {kinds_seen}")
    for src in cls:
        for k in ("same_gates_other_measurements_in_executed_batch", "derivative_batch_with_untrainable_circuit"):
            if cls[src][k] == 0:
                raise lib.MachineryError(f"vacuity: no {k} among the {src} traces")
    prog_kinds = {k: 0 for k in KINDS}
    for t in traces:
        if t["src"] == "program":
            for s in t["steps"]:
                if s["a"] == "call":
                    prog_kinds[s["kind"]] += 1
    cov = {"states": sum(x.distinct for x in runs) + r.distinct, "transitions": sum(x.generated for x in runs) + r.generated,
           "traces_validated_against_impl": len(traces) - len(negs), "evaluations": sum(len(t["steps"]) for t in traces),
           "distinct_nontrivial": len(nontriv),
           "rule": "non-trivial = distinct (device, step sequence) with at least two device entry-point calls made while the tracker was active",
           "samples": samples, "exhaustive": True,
           "exhaustive_scope": "all histories of the `controls` (all context operations x one batch, depth 4) and `calls` (enter, then every "
                               "pair of the 26 entry-point calls) bounds; deeper histories by seeded TLC simulation; QNode programs seeded random",
           "model": {"module": "Tracker", "invariants": INVS, "states": runs[0].distinct, "violated": model_bad},
           "histories_exhaustive": n_ex, "histories_random": n_rep - n_ex, "qnode_programs": n_prog,
           "replay_final_state_mismatches": n_final_bad, "entry_point_calls": kinds_seen, "entry_point_calls_from_qnode_programs": prog_kinds,
           "features": feats, "input_classes_while_active": cls, "model_drift_traces": drift, "traces_with_keys_outside_the_documented_set": extra,
           "violating_traces_by_clause": nviol, "negative_controls_rejected": len([1 for (i, c, b, lab) in negs if verd[i][0] == c]), "negative_control_clauses": sorted(rejected)}
    return CheckResult(coverage=cov, violations=viol, assumptions=[
        "`executions` and `shots` follow the simulator_tracking documentation: one execution per group of commuting measurements and per "
        "broadcast parameter value, shots = total shots x executions; circuits only use measurement sets whose grouping is unambiguous "
        "(all commute or all clash; no LinearCombination/Sum observables, no classical shadows)",
        "resources are compared through the number of gates and the measurement processes (kind and observable shape, as a sorted "
        "multiset) of each recorded SpecsResources, results through their count",
        "derivatives / jvps / vjps are the numbers of circuits submitted to the entry point (simulator_tracking documentation), "
        "whether or not a circuit has trainable parameters",
        "the wrapper sits on the device instance: it sees exactly the batches the workflow hands to the device"])


def replay(path, tier="quick", seed=0):
    rec = json.loads(open(path).read())["replay"]
    wd = lib.workdir("C73")
    if "history" in rec:
        tr = replay_history(rec["history"], rec.get("hid", 0))
    elif rec["trace"]["src"] == "program":
        tr = run_program(rec["trace"]["prog"], rec["trace"]["dev"], rec["trace"]["persistent"])
    else:
        tr = rec["trace"]
    r, verd = validate([tr], wd, "replay")
    v = verd[0][0]
    viol = [] if v == "ok" else [Violation(key=f"{tr['src']}:{v}", detail=f"{v} on {tr['dev']}: {[(s['a'], s['kind'], s['batch']) for s in tr['steps']]}",
                                           replay=rec)]
    if "history" in rec and tr["steps"]:
        got, e = tr["steps"][-1]["obs"], rec["history"]["exp"]
        diff = [k for k in NUMKEYS if got["tot"][k] != e["tot"][k]] + [f"history[{k}]" for k in ALLKEYS if got["hist"][k] != list(e["hist"][k])]
        if diff and not viol:
            viol.append(Violation(key=f"replay:final-state-differs:{diff[0]}", detail=f"final state differs in {diff}", replay=rec))
    return CheckResult(coverage={"states": r.distinct, "transitions": r.generated, "traces_validated_against_impl": 1,
                                 "evaluations": len(tr["steps"]), "distinct_nontrivial": 1, "rule": "single replay",
                                 "samples": [], "exhaustive": False}, violations=viol)
