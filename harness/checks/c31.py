"""C31 Seeded and parallel execution is reproducible and order-preserving.

(M) Executor.tla with the device layer (DrawSeeds strictly before any Dispatch, Complete(i) for ANY running task,
    FinishRound re-seeds the device generator) is model-checked over every schedule of <= N tasks x <= 3 workers x 2
    consecutive executions, FIFO and arbitrary dispatch: OrderPreserved, Reproducible (every returned list is a function
    of (seed, batch) alone: no schedule, no worker count), SeedsBeforeDispatch, RngOK, ExactlyOnce, WorkerBound, Progress.
    The wrong variants "shared-rng", "draw-at-dispatch" and "collect-as-completed" must each violate one of the two
    property-level invariants OrderPreserved / Reproducible (model-level negative controls).
(R) spec -> code: the completion orders TLC enumerates for the batch size / worker counts used are forced onto real
    default.qubit executions (qp.device("default.qubit", seed, max_workers) + ExecutionConfig(executor_backend)) under the
    serial path (max_workers=None), multiprocessing pool, concurrent.futures process pool and thread pool: a hook around
    default_qubit._simulate_wrapper, installed in every spawned worker (harness/c31_driver.py), logs Start/End with
    pid + sequence number + the seed received, and holds each task until its predecessor in the TLC order finished.
    Several devices with the same seed run the same sequence of executions under DIFFERENT schedules.
(T) code -> spec: the worker logs, the digests of the results computed inside the workers and of the results returned to
    the caller are validated by Trace_Executor.tla: "order" (position k holds what task k computed), "repro" (same seed =>
    identical returned lists, whatever the schedule), "flag" (analytic results equal serial execution, compared at 1e-10
    by the harness; result structure equal)."""
import concurrent.futures as cf
import json
import os
import random
import shutil
import signal
import subprocess
import sys
import time

from .. import lib
from ..exec_tasks import read_logs
from ..lib import CheckResult, MachineryError, Violation
from .c65 import SMALL, model_consts, uniq

PY = sys.executable
INVS = ["TypeOK", "WorkerBound", "ExactlyOnce", "OrderPreserved", "Reproducible", "SeedsBeforeDispatch", "RngOK", "Progress"]
BUGS = {"shared-rng": True, "draw-at-dispatch": False, "collect-as-completed": True}      # bug -> Fifo used to expose it


def tlc_models(tier, n, wcounts):
    nm = 4 if tier == "quick" else 5
    jobs = {
        "gen": lambda: lib.run_tlc("ExecutorGen", lib.cfg(constants=model_consts([n], wcounts, True, device=True, rounds=1),
                                                           invariants=INVS, constraints=["Emit"]), lib.workdir("C31", "gen"), timeout=1500, workers=SMALL),
        "mc_fifo": lambda: lib.run_tlc("Executor", lib.cfg(constants=model_consts(range(0, nm + 1), [1, 2, 3], True, device=True, rounds=2,
                                                                                  seeds="{0,5,63}"), invariants=INVS),
                                       lib.workdir("C31", "mc_fifo"), timeout=1500),
        "mc_any": lambda: lib.run_tlc("Executor", lib.cfg(constants=model_consts(range(0, nm), [1, 2, 3], False, device=True, rounds=2,
                                                                                 seeds="{0,5}"), invariants=INVS),
                                      lib.workdir("C31", "mc_any"), timeout=1500, workers=SMALL),
    }
    for bug, fifo in BUGS.items():
        jobs["bug:" + bug] = (lambda bug=bug, fifo=fifo: lib.run_tlc("Executor", lib.cfg(constants=model_consts(
            [3], [2], fifo, bug=bug, device=True, rounds=2, seeds="{5}"), invariants=["OrderPreserved", "Reproducible"]),
            lib.workdir("C31", "bug_" + bug), timeout=600, workers=2))
    with cf.ThreadPoolExecutor(6) as tp:
        futs = {k: tp.submit(f) for k, f in jobs.items()}
        res = {k: f.result() for k, f in futs.items()}
    for k in ("gen", "mc_fifo", "mc_any"):
        lib.require_ok(res[k], f"C31 model {k}")
    rejected = {}
    for bug in BUGS:
        r = res["bug:" + bug]
        if r.invariant_violated not in ("OrderPreserved", "Reproducible"):
            raise MachineryError(f"model-level negative control: variant {bug} not rejected ({r.invariant_violated}, {r.error})")
        rejected[bug] = r.invariant_violated
    return res, rejected


def start_drivers(names):
    procs = {}
    for name in names:
        shutil.rmtree(lib.WORK / "C31" / f"drv_{name}", ignore_errors=True)
        wd = lib.workdir("C31", f"drv_{name}")
        procs[name] = (subprocess.Popen([PY, "-W", "ignore", "-m", "harness.c31_driver", str(wd / "job.json"), str(wd / "out.jsonl")],
                                        cwd=str(lib.VERIF), stdout=subprocess.DEVNULL, stderr=subprocess.PIPE, text=True,
                                        start_new_session=True, env=dict(os.environ, VERIF_C31_DIR=str(wd), OMP_NUM_THREADS="1", VERIF_TURNSTILE_WAIT="150", VERIF_TURNSTILE_GAP="0.05")), wd)
    return procs


def kill_drivers(procs):
    for p, _ in procs.values():
        try:
            os.killpg(p.pid, signal.SIGKILL)
        except (ProcessLookupError, PermissionError):
            pass


def run_drivers(procs, jobs, timeout):
    for name, (p, wd) in procs.items():
        (wd / "job.tmp").write_text(json.dumps(jobs.get(name, {"sessions": []})))
        os.replace(wd / "job.tmp", wd / "job.json")
    out, t_end = {}, time.time() + timeout
    for name, (p, wd) in procs.items():
        try:
            p.wait(timeout=max(1.0, t_end - time.time()))
            err = ""
        except subprocess.TimeoutExpired:
            err = "(killed: driver timeout)"
        kill_drivers({name: (p, wd)})
        try:
            err += (p.stderr.read() or "")[-800:]
        except Exception:  # noqa: BLE001
            pass
        recs = {}
        if (wd / "out.jsonl").exists():
            for line in (wd / "out.jsonl").read_text().splitlines():
                try:
                    r = json.loads(line)
                except ValueError:
                    continue
                recs[(r["sid"], r.get("round", 0))] = r
        if ("", 0) not in recs or not recs[("", 0)].get("hooked"):
            raise MachineryError(f"driver {name} did not start / hook not installed: {err}")
        out[name] = (recs, read_logs(str(wd)), err)
    return out


def plan(tier, rng):
    """Configurations: (backend, max_workers, rounds, sessions, own driver process per session?)."""
    if tier == "quick":
        proc = [("mp_pool", 2, 2, 2), ("cf_procpool", 2, 1, 2)]
        thr = [("cf_threadpool", w, 2, 6) for w in (1, 2, 4)] + [(None, None, 2, 3), ("serial", 1, 2, 2)]
        seeds = [42 + rng.randrange(1000)]
    else:
        proc = [(be, w, 2, 2) for be in ("mp_pool", "cf_procpool") for w in (1, 2, 4, 8)]
        thr = [("cf_threadpool", w, 3, 12) for w in (1, 2, 3, 4, 8)] + [(None, None, 3, 3), ("serial", 1, 3, 3)]
        seeds = [42 + rng.randrange(1000), 7, 123456]
    return proc, thr, seeds


def run(tier, seed):
    rng = random.Random(seed)
    t0 = time.time()
    n = 4 if tier == "quick" else 5
    proc, thr, seeds = plan(tier, rng)
    names = ["inproc"] + [f"{be}_w{w}_s{j}" for be, w, _, m in proc for j in range(m)]
    procs = start_drivers(names if tier == "quick" else ["inproc"])
    try:
        return _run(tier, rng, procs, proc, thr, seeds, n, t0)
    finally:
        kill_drivers(procs)


def _run(tier, rng, procs, proc, thr, seeds, n, t0):
    wcounts = sorted({min(w or 1, n) for _, w, _, _ in proc + thr})
    res, rejected = tlc_models(tier, n, wcounts)
    t_models = time.time() - t0
    corders = {}
    for j in uniq([{"w": j["w"], "c": j["corders"][0]} for j in res["gen"].json_lines if j["n"] == n]):
        corders.setdefault(j["w"], []).append(j["c"])
    for w in wcounts:
        if not corders.get(w):
            raise MachineryError(f"no TLC schedule for {n} tasks x {w} workers")
        corders[w].sort()
    ident = list(range(1, n + 1))

    # ---- groups of sessions (same seed => same results), each session under its own schedules
    groups, jobs = [], {}
    for kind, confs in (("proc", proc), ("thr", thr)):
        for be, w, rounds, m in confs:
            for sd in (seeds if kind == "thr" else seeds[:1]):
                cw = corders[min(w or 1, n)]
                nonid = [c for c in cw if c != ident] or [ident]
                g = {"backend": be, "w": w, "seed": sd, "rounds": rounds, "members": [], "variant": len(groups) % 3}
                for j in range(m):
                    # session 0 follows out-of-order schedules, the others a seeded choice: pairwise different where possible
                    rs = [nonid[(j * 5 + r * 3 + len(groups)) % len(nonid)] if (j + r) % 2 == 0 else rng.choice(cw) for r in range(rounds)]
                    name = f"{be}_w{w}_s{j}" if kind == "proc" else "inproc"
                    sid = f"g{len(groups)}s{j}"
                    jobs.setdefault(name, {"sessions": []})["sessions"].append(
                        {"sid": sid, "backend": be, "workers": w, "seed": sd, "n": n, "variant": g["variant"], "rounds": rs})
                    g["members"].append((name, sid, rs))
                groups.append(g)
    if tier == "thorough":
        # process-pool drivers in waves of 8 (each spawns up to 8 workers that import pennylane)
        got = {}
        pnames = [k for k in jobs if k != "inproc"]
        got.update(run_drivers({"inproc": procs["inproc"]}, jobs, timeout=600))
        for i in range(0, len(pnames), 6):
            wave = start_drivers(pnames[i:i + 6])
            try:
                got.update(run_drivers(wave, jobs, timeout=900))
            finally:
                kill_drivers(wave)
    else:
        got = run_drivers(procs, jobs, timeout=400)      # generous: a loaded machine must not turn into a machinery failure
    t_drivers = time.time() - t0 - t_models

    # ---- traces
    traces, tmeta = [], []
    realised = set()
    fully, nruns, seeds_equal, seeds_checked = 0, 0, 0, 0
    for gi, g in enumerate(groups):
        runs, same, first = [], [], {}
        seedseq = {}
        for name, sid, rs in g["members"]:
            recs, logs, err = got[name]
            for r, corder in enumerate(rs, start=1):
                rec = recs.get((sid, r))
                if rec is None:
                    raise MachineryError(f"no record for session {sid} round {r} in driver {name}: {err}")
                evs = logs.get(f"{sid}.{r}", [])
                runs.append({"ev": [{"e": e["e"], "i": e["i"], "v": e.get("v", 0)} for e in evs], "out": rec["digests"], "exc": rec["exc"],
                             "flags": bool(rec["flags"]), "intended": corder, "_rec": rec, "_evs": evs, "_sid": sid, "_round": r})
                idx = len(runs)
                if r in first:
                    same.append([first[r], idx])
                else:
                    first[r] = idx
                nruns += 1
                fully += len(evs) == 2 * n
                ends = [e["i"] for e in evs if e["e"] == "e"]
                if ends == corder and ends != sorted(ends):
                    realised.add((g["backend"], g["w"], tuple(ends)))
                sq = tuple(e["seed"] for e in sorted((e for e in evs if e["e"] == "s"), key=lambda e: e["i"]))
                if r in seedseq:
                    seeds_checked += 1
                    seeds_equal += seedseq[r] == sq
                else:
                    seedseq[r] = sq
        traces.append({"n": n, "w": min(g["w"] or 1, n), "kind": "opaque", "same": same,
                       "runs": [{k: v for k, v in r.items() if not k.startswith("_")} for r in runs]})
        tmeta.append((g, runs))

    # ---- negative controls
    neg = []

    def passes(t):       # only a trace that passes can serve as the base of a negative control
        for r in t["runs"]:
            done = {e["i"]: e["v"] for e in r["ev"] if e["e"] == "e"}
            if r["exc"] or not r["flags"] or len(r["out"]) != n or len(r["ev"]) != 2 * n or any(r["out"][k - 1] != done.get(k) for k in range(1, n + 1)):
                return False
        return all(t["runs"][a - 1]["out"] == t["runs"][b - 1]["out"] for a, b in t["same"])

    def corrupt(f):
        for t in traces[:len(groups)]:
            if len(t["runs"]) >= 2 and t["same"] and passes(t):
                bad = json.loads(json.dumps(t))
                f(bad)
                neg.append(len(traces))
                traces.append(bad)
                return
    corrupt(lambda b: b["runs"][0].__setitem__("out", [b["runs"][0]["out"][1], b["runs"][0]["out"][0]] + b["runs"][0]["out"][2:]))   # swapped positions
    corrupt(lambda b: b["runs"][b["same"][0][1] - 1]["out"].__setitem__(0, b["runs"][b["same"][0][1] - 1]["out"][0] + 1) or
            b["runs"][b["same"][0][1] - 1].__setitem__("ev", [dict(e, v=e["v"] + 1) if e["e"] == "e" and e["i"] == 1 else e
                                                              for e in b["runs"][b["same"][0][1] - 1]["ev"]]))      # second device differs
    corrupt(lambda b: b["runs"][-1].__setitem__("flags", False))                                                     # analytic != serial
    wd = lib.workdir("C31", "trace")
    (wd / "traces.json").write_text(json.dumps(traces))
    rt = lib.run_tlc("Trace_Executor", lib.cfg(init="TInit", next_="TNext", constants=dict(model_consts([0], [1], True), NTRACES=len(traces))),
                     wd, env={"TRACE_FILE": str(wd / "traces.json")}, timeout=1500)
    lib.require_ok(rt, "Trace_Executor")
    verd = {t[1] - 1: (t[2], t[3]) for t in rt.tuples if t[0] == "V"}
    if len(verd) != len(traces):
        raise MachineryError(f"verdicts not total: {len(verd)}/{len(traces)}")
    want = ["order", "repro", "flag"]
    gotneg = [verd[i][0] for i in neg]
    if gotneg != want[:len(neg)] or (not neg and any(verd[i][0] == "ok" for i in range(len(groups)))):
        raise MachineryError(f"negative controls: expected verdicts {want}, got {gotneg}")

    # ---- verdicts
    viol, drift = [], 0
    samples = []
    for gi, (g, runs) in enumerate(tmeta):
        v, d = verd[gi]
        drift += d
        if v != "ok":
            be = g["backend"] or "none"
            detail = (f"clause '{v}' fails for default.qubit(seed={g['seed']}, max_workers={g['w']}) on backend {be}, batch of {n} circuits, "
                      f"{len(g['members'])} devices x {g['rounds']} executions; per run (session.round, intended completion order, returned digests, "
                      f"exception, flags): " + "; ".join(f"{r['_sid']}.{r['_round']} {r['intended']} {r['out']} {r['exc'] or '-'} "
                                                         f"{'ok' if r['flags'] else 'analytic/shape differs'}" for r in runs))
            viol.append(Violation(key=f"{v}:{be}:w{g['w']}", detail=detail, replay={
                "group": {k: g[k] for k in ("backend", "w", "seed", "rounds", "variant")}, "n": n,
                "runs": [{"session": r["_sid"], "round": r["_round"], "intended": r["intended"], "returned_digests": r["out"], "exc": r["exc"],
                          "record": r["_rec"], "events": [(e["e"], e["i"], e["pid"], e["seq"], e.get("seed", e.get("v"))) for e in r["_evs"]]} for r in runs]}))
        if len(samples) < 3 and g["backend"] in ("mp_pool", "cf_procpool", "cf_threadpool") and (g["w"] or 1) > 1:
            r = runs[0]
            samples.append({"backend": g["backend"], "max_workers": g["w"], "seed": g["seed"], "completion_order": r["intended"],
                            "events": [f"{e['e']}{e['i']}@pid{e['pid']}#{e['seq']}" for e in r["_evs"]], "returned_digests": r["out"],
                            "verdict": v, "devices_compared": len(g["members"])})
    # ---- vacuity
    need = {(be, w) for be, w, _, _ in proc + thr if be in ("mp_pool", "cf_procpool", "cf_threadpool") and (w or 1) > 1}
    have = {(k[0], k[1]) for k in realised}
    if need - have and not viol:
        raise MachineryError(f"vacuity: no out-of-order completion realised for {sorted(need - have)}")
    if fully < 0.9 * nruns and not viol:
        raise MachineryError(f"vacuity: only {fully}/{nruns} executions fully observed in the worker logs")
    tl = list(res.values()) + [rt]
    cov = {"states": sum(t.distinct for t in tl), "transitions": sum(t.generated for t in tl),
           "traces_validated_against_impl": nruns, "evaluations": nruns * n, "distinct_nontrivial": len(realised),
           "rule": "non-trivial = distinct (backend, max_workers, completion order) where TLC's completion order is not the batch order and the "
                   "worker logs show exactly this order happened in a real default.qubit execution",
           "samples": samples, "exhaustive": False,
           "model": {"module": "Executor (device layer)", "batch": n, "states_fifo_2rounds": res["mc_fifo"].distinct,
                     "states_any_dispatch_2rounds": res["mc_any"].distinct, "invariants": INVS, "bug_variants_rejected": rejected},
           "configurations": [{"backend": g["backend"], "max_workers": g["w"], "seed": g["seed"], "devices": len(g["members"]),
                               "executions_each": g["rounds"]} for g in groups],
           "schedules_from_tlc": {str(w): len(c) for w, c in corders.items()}, "executions": nruns, "executions_fully_observed": fully,
           "same_seed_pairs_with_equal_seed_sequences": f"{seeds_equal}/{seeds_checked}", "model_drift": {
               "start_not_head_of_queue_as_logged": drift % 1000, "more_than_w_observed_running": drift // 1000 % 1000, "other": drift // 1000000},
           "negative_controls_rejected": len(neg),
           "phase_s": {"tlc_models": round(t_models, 1), "drivers": round(t_drivers, 1), "trace_validation": round(time.time() - t0 - t_models - t_drivers, 1)}}
    return CheckResult(coverage=cov, violations=viol, assumptions=[
        "finite-shot results are compared through exact digests of the returned arrays; analytic results against max_workers=None at 1e-10",
        "schedule independence is exercised on batches of " + str(n) + " small circuits; the turnstile delays a task after it computed its result",
        "shot results are not required to agree between different worker counts / backends (the statement fixes seed, backend and worker count)"])
