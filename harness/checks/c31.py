"""C31 Seeded and parallel execution is reproducible and order-preserving.

(M) Executor.tla with the device layer (DrawSeeds strictly before any Dispatch, Complete(i) for ANY running task,
    FinishRound re-seeds the device generator) is model-checked over every schedule of <= N tasks x <= 3 workers x 2
    consecutive executions, FIFO and arbitrary dispatch: OrderPreserved, Reproducible (every returned list is a function
    of (seed, batch) alone: no schedule, no worker count), SeedsBeforeDispatch, RngOK, ExactlyOnce, WorkerBound, Progress.
    The wrong variants "shared-rng", "draw-at-dispatch" and "collect-as-completed" must each violate one of the two
    property-level invariants OrderPreserved / Reproducible (model-level negative controls).
(R) spec -> code: the completion orders TLC enumerates for the batch size / worker counts used are forced onto real
    default.qubit executions (qp.device("default.qubit", seed, max_workers) + ExecutionConfig(executor_backend)) under the
    serial path (max_workers=None), multiprocessing pool, concurrent.futures process pool and thread pool: a hook around
    default_qubit._simulate_wrapper, installed in every spawned worker (harness/c31_driver.py), logs Start/End with
    pid + sequence number + the seed received, and holds each task until its predecessor in the TLC order finished.
    Several devices with the same seed run the same sequence of executions under DIFFERENT schedules.
(T) code -> spec: the worker logs, the digests of the results computed inside the workers and of the results returned to
    the caller are validated by Trace_Executor.tla: "order" (position k holds what task k computed), "repro" (same seed =>
    identical returned lists, whatever the schedule), "flag" (analytic results equal serial execution, compared at 1e-10
    by the harness; result structure equal).
(B) batch layer, ExecutorMix.tla (extends Executor) + ExecutorMixGen.tla: the batch has a COMPOSITION (mask: which circuits
    have finite shots, i.e. show the seed they are handed; analytic circuits never do) and may be LARGE (beyond ten
    circuits; multiprocessing.Pool hands such batches over in chunks, which the model follows).  TLC checks the same
    property-level invariants on observations (MixOrderPreserved, MixReproducible, AnalyticSeedFree) for every composition
    of the small batch (every interleaving, FIFO and arbitrary dispatch, two executions) and for batches of 11+ circuits
    (periodic compositions, chunked and unchunked pools); the variants "seed-iff-first-finite" and "collect-by-text-id"
    must be rejected, and must pass when compositions are restricted to those starting with a finite-shot circuit /
    batches to at most ten circuits (the model shows which inputs a replay has to contain).  ExecutorMixGen emits every
    (composition, completion order) of the small batch and randomly simulated behaviours of the large ones; the driver
    builds the batch from the mask and forces the completion order, per execution of a device (the composition changes
    between consecutive executions); the recorded runs are decided by Trace_Executor.tla as in (T)."""
import concurrent.futures as cf
import json
import os
import random
import shutil
import signal
import subprocess
import sys
import time

from .. import lib
from ..exec_tasks import read_logs
from ..lib import CheckResult, MachineryError, Violation
from .c65 import SMALL, model_consts, uniq

PY = sys.executable
INVS = ["TypeOK", "WorkerBound", "ExactlyOnce", "OrderPreserved", "Reproducible", "SeedsBeforeDispatch", "RngOK", "Progress"]
MIXINVS = ["MixTypeOK", "WorkerBound", "ExactlyOnce", "MixOrderPreserved", "MixReproducible", "AnalyticSeedFree", "SeedsBeforeDispatch",
           "RngOK", "MixProgress"]
# variant -> (constants, invariant that must HOLD: the property fails only inside the input class); the CONSTRAINT Rejected must
# report finished behaviours that violate the property
MIXBUGS = {"seed-iff-first-finite": (dict(tasks=range(0, 4), filt="any", rounds=2), "BoundarySeeds"),
           "collect-by-text-id": (dict(tasks=[9, 10, 11, 12], filt="all-finite", rounds=1), "BoundaryLarge")}
BUGS = {"shared-rng": True, "draw-at-dispatch": False, "collect-as-completed": True}      # bug -> Fifo used to expose it


def mix_consts(tasks, workers, fifo, rounds=1, seeds="{5}", allupto=4, filt="any", chunks=("single",), bug="none"):
    c = model_consts(tasks, workers, fifo, device=True, rounds=rounds, seeds=seeds)
    c.update({"AllUpTo": allupto, "MaskFilter": f'"{filt}"', "ChunkModes": "{" + ",".join(f'"{m}"' for m in chunks) + "}", "MixBug": f'"{bug}"'})
    return c


def mix_cfg(consts, invariants, view=True, **kw):
    return lib.cfg(init="MixInit", next_="MixNext", constants=consts, invariants=invariants, view="MixView" if view else None, **kw)


def tlc_models(tier, n, wcounts, mixw, bign, bigw, simseed):
    nm = 4 if tier == "quick" else 5
    quick = tier == "quick"
    both = ("single", "pool")
    jobs = {
        # ---- batch layer: compositions x schedules of the small batch (exhaustive), large batches (simulation)
        "mix_gen": lambda: lib.run_tlc("ExecutorMixGen", mix_cfg(mix_consts([n], mixw, True, allupto=n), MIXINVS, view=False, constraints=["Emit"]),
                                       lib.workdir("C31", "mix_gen"), timeout=1500, workers=SMALL),
        "mix_sim": lambda: lib.run_tlc("ExecutorMixGen", mix_cfg(mix_consts(bign, bigw, True, allupto=nm, chunks=both), MIXINVS[:-1], view=False,
                                                                 constraints=["Emit"]),
                                       lib.workdir("C31", "mix_sim"), timeout=1500, workers=1, simulate=f"num={140 if quick else 900}", seed=simseed, depth=400),
        "mix_small": lambda: lib.run_tlc("ExecutorMix", mix_cfg(mix_consts(range(0, nm + 1), [1, 2, 3], True, rounds=2, allupto=nm, chunks=both), MIXINVS),
                                         lib.workdir("C31", "mix_small"), timeout=1500, workers=SMALL),
        "mix_big": lambda: lib.run_tlc("ExecutorMix", mix_cfg(mix_consts([12] if quick else [10, 11, 12, 13], [2] if quick else [2, 3], True,
                                                                         allupto=nm, chunks=both), MIXINVS[:-1], action_constraints=["SubmitFirst"]),
                                       lib.workdir("C31", "mix_big"), timeout=1500, workers=SMALL if quick else None),
        "gen": lambda: lib.run_tlc("ExecutorGen", lib.cfg(constants=model_consts([n], wcounts, True, device=True, rounds=1),
                                                           invariants=INVS, constraints=["Emit"]), lib.workdir("C31", "gen"), timeout=1500, workers=SMALL),
        "mc_fifo": lambda: lib.run_tlc("Executor", lib.cfg(constants=model_consts(range(0, nm + 1), [1, 2, 3], True, device=True, rounds=2,
                                                                                  seeds="{0,5,63}"), invariants=INVS),
                                       lib.workdir("C31", "mc_fifo"), timeout=1500),
        "mc_any": lambda: lib.run_tlc("Executor", lib.cfg(constants=model_consts(range(0, nm), [1, 2, 3], False, device=True, rounds=2,
                                                                                 seeds="{0,5}"), invariants=INVS),
                                      lib.workdir("C31", "mc_any"), timeout=1500, workers=SMALL),
    }
    if not quick:
        jobs["mix_big2"] = lambda: lib.run_tlc("ExecutorMix", mix_cfg(mix_consts([17, 21], [2], True, allupto=nm, chunks=both), MIXINVS[:-1],
                                                                       action_constraints=["SubmitFirst"]), lib.workdir("C31", "mix_big2"), timeout=1500)
        jobs["mix_any"] = lambda: lib.run_tlc("ExecutorMix", mix_cfg(mix_consts(range(0, nm), [1, 2, 3], False, rounds=2, allupto=nm), MIXINVS),
                                              lib.workdir("C31", "mix_any"), timeout=1500, workers=SMALL)
    for bug, fifo in BUGS.items():
        jobs["bug:" + bug] = (lambda bug=bug, fifo=fifo: lib.run_tlc("Executor", lib.cfg(constants=model_consts(
            [3], [2], fifo, bug=bug, device=True, rounds=2, seeds="{5}"), invariants=["OrderPreserved", "Reproducible"]),
            lib.workdir("C31", "bug_" + bug), timeout=600, workers=2))
    for bug, (kw, boundary) in MIXBUGS.items():
        jobs[f"mixbug:{bug}"] = (lambda bug=bug, kw=kw, boundary=boundary: lib.run_tlc("ExecutorMix", mix_cfg(
            mix_consts(kw["tasks"], [2], True, rounds=kw["rounds"], filt=kw["filt"], bug=bug), [boundary], constraints=["Rejected"],
            action_constraints=["SubmitFirst"]), lib.workdir("C31", f"mixbug_{bug}"), timeout=600, workers=2))
    with cf.ThreadPoolExecutor(8) as tp:
        futs = {k: tp.submit(f) for k, f in jobs.items()}
        res = {k: f.result() for k, f in futs.items()}
    for k in [k for k in jobs if not k.startswith("bug:")]:
        lib.require_ok(res[k], f"C31 model {k}")          # for the batch-layer variants: the property fails only inside the input class
    rejected = {}
    for bug, (kw, boundary) in MIXBUGS.items():
        rej = sorted({t[2] for t in res[f"mixbug:{bug}"].tuples if list(t[:2]) == ["V", "rejected"]})
        if not rej:
            raise MachineryError(f"model-level negative control: batch-layer variant {bug} not rejected on batches of {list(kw['tasks'])}")
        rejected[bug] = f"MixReproducible on batches of {rej} circuits, {boundary} holds"
    for bug in BUGS:
        r = res["bug:" + bug]
        if r.invariant_violated not in ("OrderPreserved", "Reproducible"):
            raise MachineryError(f"model-level negative control: variant {bug} not rejected ({r.invariant_violated}, {r.error})")
        rejected[bug] = r.invariant_violated
    return res, rejected


def start_drivers(names):
    procs = {}
    for name in names:
        gap = "0.01" if name == "inproc2" else "0.05"     # inproc2: batch-layer families (many executions, up to 21 tasks each)
        shutil.rmtree(lib.WORK / "C31" / f"drv_{name}", ignore_errors=True)
        wd = lib.workdir("C31", f"drv_{name}")
        procs[name] = (subprocess.Popen([PY, "-W", "ignore", "-m", "harness.c31_driver", str(wd / "job.json"), str(wd / "out.jsonl")],
                                        cwd=str(lib.VERIF), stdout=subprocess.DEVNULL, stderr=subprocess.PIPE, text=True,
                                        start_new_session=True, env=dict(os.environ, VERIF_C31_DIR=str(wd), OMP_NUM_THREADS="1", VERIF_TURNSTILE_WAIT="150", VERIF_TURNSTILE_GAP=gap)), wd)
    return procs


def kill_drivers(procs):
    for p, _ in procs.values():
        try:
            os.killpg(p.pid, signal.SIGKILL)
        except (ProcessLookupError, PermissionError):
            pass


def run_drivers(procs, jobs, timeout):
    for name, (p, wd) in procs.items():
        (wd / "job.tmp").write_text(json.dumps(jobs.get(name, {"sessions": []})))
        os.replace(wd / "job.tmp", wd / "job.json")
    out, t_end = {}, time.time() + timeout
    for name, (p, wd) in procs.items():
        try:
            p.wait(timeout=max(1.0, t_end - time.time()))
            err = ""
        except subprocess.TimeoutExpired:
            err = "(killed: driver timeout)"
        kill_drivers({name: (p, wd)})
        try:
            err += (p.stderr.read() or "")[-800:]
        except Exception:  # noqa: BLE001
            pass
        recs = {}
        if (wd / "out.jsonl").exists():
            for line in (wd / "out.jsonl").read_text().splitlines():
                try:
                    r = json.loads(line)
                except ValueError:
                    continue
                recs[(r["sid"], r.get("round", 0))] = r
        if ("", 0) not in recs or not recs[("", 0)].get("hooked"):
            raise MachineryError(f"driver {name} did not start / hook not installed: {err}")
        out[name] = (recs, read_logs(str(wd)), err)
    return out


def plan(tier, rng):
    """Configurations: (backend, max_workers, rounds, sessions, own driver process per session?)."""
    if tier == "quick":
        proc = [("mp_pool", 2, 2, 2), ("cf_procpool", 2, 1, 2)]
        thr = [("cf_threadpool", w, 2, 6) for w in (1, 2, 4)] + [(None, None, 2, 3), ("serial", 1, 2, 2)]
        seeds = [42 + rng.randrange(1000)]
    else:
        proc = [(be, w, 2, 2) for be in ("mp_pool", "cf_procpool") for w in (1, 2, 4, 8)]
        thr = [("cf_threadpool", w, 3, 12) for w in (1, 2, 3, 4, 8)] + [(None, None, 3, 3), ("serial", 1, 3, 3)]
        seeds = [42 + rng.randrange(1000), 7, 123456]
    return proc, thr, seeds


def plan_batch(tier):
    """Batch-layer families.  mix: configurations the compositions of the small batch rotate through (first entry: every
    composition; the others: one each per composition pair), as (backend, max_workers, devices); mixproc: the same on
    process pools (own driver process per device); big: (backend, max_workers, batch size, executions, devices)."""
    if tier == "quick":
        mix = [("cf_threadpool", 2, 2), ("cf_threadpool", 4, 2), ("serial", 1, 2), ("cf_threadpool", 1, 2), (None, None, 2)]
        mixproc = []
        big = [("mp_pool", 2, 12, 1, 1), ("cf_procpool", 2, 12, 1, 1), ("cf_threadpool", 2, 11, 2, 2), ("cf_threadpool", 4, 13, 2, 2),
               (None, None, 12, 1, 2), ("serial", 1, 12, 1, 2)]
    else:
        mix = [("cf_threadpool", 2, 3), ("cf_threadpool", 4, 2), ("serial", 1, 2), ("cf_threadpool", 1, 2), (None, None, 2), ("cf_threadpool", 8, 2),
               ("cf_threadpool", 3, 2)]
        mixproc = [(be, 2, 2) for be in ("mp_pool", "cf_procpool")]
        big = ([(be, w, nb, 1, 2) for be in ("mp_pool", "cf_procpool") for w, nb in ((2, 12), (4, 17), (2, 21), (1, 11))]
               + [("cf_threadpool", w, nb, 2, 3) for w, nb in ((2, 11), (4, 13), (3, 17), (8, 21), (1, 12))]
               + [(None, None, 17, 2, 2), ("serial", 1, 13, 2, 2)])
    return mix, mixproc, big


PROC = ("mp_pool", "cf_procpool")


def run(tier, seed):
    rng = random.Random(seed)
    t0 = time.time()
    n = 4 if tier == "quick" else 5
    proc, thr, seeds = plan(tier, rng)
    names = ["inproc", "inproc2"] + [f"{be}_w{w}_s{j}" for be, w, _, m in proc for j in range(m)]
    procs = start_drivers(names if tier == "quick" else ["inproc", "inproc2"])
    try:
        return _run(tier, rng, procs, proc, thr, seeds, n, t0, seed)
    finally:
        kill_drivers(procs)


def fa(mask):
    return "".join("F" if b else "A" for b in mask)


def _run(tier, rng, procs, proc, thr, seeds, n, t0, seed):
    mix, mixproc, big = plan_batch(tier)
    wcounts = sorted({min(w or 1, n) for _, w, _, _ in proc + thr})
    mixw = sorted({min(w or 1, n) for _, w, _ in mix + mixproc})
    bign, bigw = sorted({nb for _, _, nb, _, _ in big}), sorted({w or 1 for _, w, _, _, _ in big})
    res, rejected = tlc_models(tier, n, wcounts, mixw, bign, bigw, 1000 + seed)
    t_models = time.time() - t0
    corders = {}
    for j in uniq([{"w": j["w"], "c": j["corders"][0]} for j in res["gen"].json_lines if j["n"] == n]):
        corders.setdefault(j["w"], []).append(j["c"])
    for w in wcounts:
        if not corders.get(w):
            raise MachineryError(f"no TLC schedule for {n} tasks x {w} workers")
        corders[w].sort()
    ident = list(range(1, n + 1))
    # behaviours of the batch layer: (composition, pool size) -> completion orders; large batches: (n, w, pooled?) -> [(mask, order)]
    mixsched, bigsched = {}, {}
    for j in uniq([{"w": j["w"], "m": j["mask"], "c": j["corders"][0]} for j in res["mix_gen"].json_lines if j["n"] == n]):
        mixsched.setdefault((tuple(j["m"]), j["w"]), []).append(j["c"])
    for v in mixsched.values():
        v.sort()
    allmasks = sorted({m for m, _ in mixsched})
    if len(allmasks) != 2 ** n or any((m, w) not in mixsched for m in allmasks for w in mixw):
        raise MachineryError(f"ExecutorMixGen: {len(allmasks)} compositions of {n} circuits (expected {2 ** n}) / pool sizes missing")
    simlines = sorted(uniq([{"n": j["n"], "w": j["w"], "k": j["chunk"], "m": j["mask"], "c": j["corders"][0]} for j in res["mix_sim"].json_lines]),
                      key=lambda j: json.dumps(j, sort_keys=True))
    for j in simlines:
        bigsched.setdefault((j["n"], j["w"]), []).append(j)

    # ---- groups of sessions (same seed => same results), each session under its own schedules
    groups, jobs = [], {}

    def add_group(family, be, w, sd, rounds, m, nn, sched_of, masks=None, wait=0, chunk=1):
        """sched_of(r) -> list of TLC completion orders usable in execution r (0-based)."""
        g = {"family": family, "backend": be, "w": w, "seed": sd, "rounds": rounds, "members": [], "variant": len(groups) % 3, "n": nn,
             "masks": masks, "chunk": chunk}
        idn = list(range(1, nn + 1))
        for j in range(m):
            rs = []
            for r in range(rounds):
                cw = sched_of(r)
                nonid = [c for c in cw if c != idn] or [idn]
                # session 0 follows out-of-order schedules, the others a seeded choice: pairwise different where possible
                rs.append(nonid[(j * 5 + r * 3 + len(groups)) % len(nonid)] if (j + r) % 2 == 0 else rng.choice(cw))
            name = f"{be}_w{w}_s{j}" if be in PROC else ("inproc" if family == "sched" else "inproc2")
            sid = f"g{len(groups)}s{j}"
            sess = {"sid": sid, "backend": be, "workers": w, "seed": sd, "n": nn, "variant": g["variant"], "rounds": rs}
            if masks:
                sess.update(masks=masks, wait=wait)
            jobs.setdefault(name, {"sessions": []})["sessions"].append(sess)
            g["members"].append((name, sid, rs))
        groups.append(g)

    for kind, confs in (("proc", proc), ("thr", thr)):
        for be, w, rounds, m in confs:
            for sd in (seeds if kind == "thr" else seeds[:1]):
                add_group("sched", be, w, sd, rounds, m, n, lambda r, w=w: corders[min(w or 1, n)])
    # compositions: every complement pair {m, ~m} of compositions is the history (execution 1, execution 2) of one device
    # group on the first configuration and, in the opposite order, on one of the others
    reps = [m for m in allmasks if m[0] == 0]
    for k, m0 in enumerate(reps):
        m1 = tuple(1 - b for b in m0)
        for (be, w, nd), ms in ((mix[0], (m0, m1) if k % 2 == 0 else (m1, m0)), (mix[1 + k % (len(mix) - 1)], (m1, m0) if k % 2 == 0 else (m0, m1))):
            add_group("mix", be, w, seeds[0], 2, nd, n, lambda r, w=w, ms=ms: mixsched[(ms[r], min(w or 1, n))], masks=[list(x) for x in ms], wait=20)
    for k, (be, w, nd) in enumerate(mixproc):
        m0 = reps[(k * 3 + 1) % len(reps)]
        ms = (m0, tuple(1 - b for b in m0))
        add_group("mix", be, w, seeds[0], 2, nd, n, lambda r, w=w, ms=ms: mixsched[(ms[r], min(w or 1, n))], masks=[list(x) for x in ms], wait=60)
    # large batches: composition and completion orders from TLC's simulated behaviours of (n, w, chunked or not)
    for k, (be, w, nb, rounds, nd) in enumerate(big):
        lines = bigsched.get((nb, w or 1), [])
        kmax = max([j["k"] for j in lines], default=0)
        lines = [j for j in lines if j["k"] == (kmax if be == "mp_pool" else 1)]     # multiprocessing.Pool.map chops the batch into chunks
        if not lines:
            raise MachineryError(f"no simulated TLC behaviour for a batch of {nb} on {w} workers ({be})")
        ms = [lines[(k + 7 * r) % len(lines)]["m"] for r in range(rounds)]
        add_group("big", be, w, seeds[0], rounds, nd, nb, lambda r, lines=lines: [j["c"] for j in lines], masks=ms, wait=60 if be in PROC else 20, chunk=lines[0]["k"])

    if tier == "thorough":
        # process-pool drivers in waves of 6 (each spawns up to 8 workers that import pennylane)
        got = {}
        pnames = [k for k in jobs if k not in ("inproc", "inproc2")]
        got.update(run_drivers({k: procs[k] for k in ("inproc", "inproc2")}, jobs, timeout=900))
        for i in range(0, len(pnames), 6):
            wave = start_drivers(pnames[i:i + 6])
            try:
                got.update(run_drivers(wave, jobs, timeout=1200))
            finally:
                kill_drivers(wave)
    else:
        got = run_drivers(procs, jobs, timeout=500)      # generous: a loaded machine must not turn into a machinery failure
    t_drivers = time.time() - t0 - t_models

    # ---- traces
    traces, tmeta = [], []
    realised = set()
    fully, nruns, seeds_equal, seeds_checked, nevals = 0, 0, 0, 0, 0
    unseeded_finite, finite_tasks = 0, 0
    for gi, g in enumerate(groups):
        runs, same, first = [], [], {}
        seedseq = {}
        gn = g["n"]
        g["stats"] = {"realised": 0, "out_of_order": 0}
        for name, sid, rs in g["members"]:
            recs, logs, err = got[name]
            for r, corder in enumerate(rs, start=1):
                rec = recs.get((sid, r))
                if rec is None:
                    raise MachineryError(f"no record for session {sid} round {r} in driver {name}: {err}")
                evs = logs.get(f"{sid}.{r}", [])
                runs.append({"ev": [{"e": e["e"], "i": e["i"], "v": e.get("v", 0)} for e in evs], "out": rec["digests"], "exc": rec["exc"],
                             "flags": bool(rec["flags"]), "intended": corder, "_rec": rec, "_evs": evs, "_sid": sid, "_round": r})
                idx = len(runs)
                if r in first:
                    same.append([first[r], idx])
                else:
                    first[r] = idx
                nruns += 1
                nevals += gn
                fully += len(evs) == 2 * gn
                ends = [e["i"] for e in evs if e["e"] == "e"]
                g["stats"]["realised"] += ends == corder
                g["stats"]["out_of_order"] += ends != sorted(ends)
                if ends == corder and ends != sorted(ends):
                    realised.add((g["family"], g["backend"], g["w"], gn, tuple(ends)))
                starts = sorted((e for e in evs if e["e"] == "s"), key=lambda e: e["i"])
                sq = tuple(e["seed"] for e in starts)
                if g["masks"] and g["w"] is not None:       # mechanism, evidence only: finite-shot circuits that were handed no seed
                    mk = g["masks"][r - 1]
                    finite_tasks += sum(1 for e in starts if mk[e["i"] - 1])
                    unseeded_finite += sum(1 for e in starts if mk[e["i"] - 1] and e["seed"] < 0)
                if r in seedseq:
                    seeds_checked += 1
                    seeds_equal += seedseq[r] == sq
                else:
                    seedseq[r] = sq
        traces.append({"n": gn, "w": min(g["w"] or 1, gn), "kind": "opaque", "same": same, "masks": g["masks"] or [],
                       "runs": [{k: v for k, v in r.items() if not k.startswith("_")} for r in runs]})
        tmeta.append((g, runs))

    # ---- negative controls
    neg = []

    def passes(t):       # only a trace that passes can serve as the base of a negative control
        tn = t["n"]
        for r in t["runs"]:
            done = {e["i"]: e["v"] for e in r["ev"] if e["e"] == "e"}
            if r["exc"] or not r["flags"] or len(r["out"]) != tn or len(r["ev"]) != 2 * tn or any(r["out"][k - 1] != done.get(k) for k in range(1, tn + 1)):
                return False
        return all(t["runs"][a - 1]["out"] == t["runs"][b - 1]["out"] for a, b in t["same"])

    def corrupt(f, want, family="sched"):
        for gi, t in enumerate(traces[:len(groups)]):
            if groups[gi]["family"] == family and len(t["runs"]) >= 2 and t["same"] and passes(t):
                bad = json.loads(json.dumps(t))
                f(bad)
                neg.append((len(traces), want))
                traces.append(bad)
                return

    def swap(b, i, j):
        o = b["runs"][0]["out"]
        o[i], o[j] = o[j], o[i]

    def second_differs(b, pos):      # the second device of the first same-seed pair computed and returned something else at `pos` (1-based)
        run = b["runs"][b["same"][0][1] - 1]
        run["out"][pos - 1] += 1
        run["ev"] = [dict(e, v=e["v"] + 1) if e["e"] == "e" and e["i"] == pos else e for e in run["ev"]]
    corrupt(lambda b: swap(b, 0, 1), "order")                                            # swapped positions
    corrupt(lambda b: second_differs(b, 1), "repro")                                     # second device differs
    corrupt(lambda b: b["runs"][-1].__setitem__("flags", False), "flag")                 # analytic != serial
    corrupt(lambda b: swap(b, 2, 10), "order", "big")                                    # positions 3 and 11 of a large batch exchanged
    corrupt(lambda b: second_differs(b, 1 + (b["masks"][0].index(1) if 1 in b["masks"][0] else 0)), "repro", "mix")   # a (finite-shot) result of the second device
    wd = lib.workdir("C31", "trace")
    (wd / "traces.json").write_text(json.dumps(traces))
    rt = lib.run_tlc("Trace_Executor", lib.cfg(init="TInit", next_="TNext", constants=dict(model_consts([0], [1], True), NTRACES=len(traces))),
                     wd, env={"TRACE_FILE": str(wd / "traces.json")}, timeout=1500)
    lib.require_ok(rt, "Trace_Executor")
    verd = {t[1] - 1: (t[2], t[3]) for t in rt.tuples if t[0] == "V"}
    if len(verd) != len(traces):
        raise MachineryError(f"verdicts not total: {len(verd)}/{len(traces)}")
    gotneg = [(verd[i][0], want) for i, want in neg]
    if any(a != b for a, b in gotneg) or (not neg and any(verd[i][0] == "ok" for i in range(len(groups)))):
        raise MachineryError(f"negative controls: (verdict, expected) = {gotneg}")

    # ---- verdicts
    viol, drift = [], 0
    samples = []
    fam_seen = set()
    for gi, (g, runs) in enumerate(tmeta):
        v, d = verd[gi]
        drift += d
        gn = g["n"]
        pattern = "+".join(fa(m) for m in g["masks"]) if g["masks"] else ""
        if v != "ok":
            be = g["backend"] or "none"
            what = {"sched": f"batch of {gn} circuits", "mix": f"batch of {gn} circuits with shots pattern per execution {pattern} (F finite shots, A analytic)",
                    "big": f"batch of {gn} circuits with shots pattern per execution {pattern}"}[g["family"]]
            detail = (f"clause '{v}' fails for default.qubit(seed={g['seed']}, max_workers={g['w']}) on backend {be}, {what}, "
                      f"{len(g['members'])} devices x {g['rounds']} executions; per run (session.round, intended completion order, returned digests, "
                      f"exception, flags): " + "; ".join(f"{r['_sid']}.{r['_round']} {r['intended']} {r['out']} {r['exc'] or '-'} "
                                                         f"{'ok' if r['flags'] else 'analytic/shape differs'}" for r in runs))
            key = f"{v}:{be}:w{g['w']}" + {"sched": "", "mix": f":shots={pattern}", "big": f":n{gn}"}[g["family"]]
            viol.append(Violation(key=key, detail=detail, replay={
                "group": {k: g[k] for k in ("family", "backend", "w", "seed", "rounds", "variant", "masks")}, "n": gn,
                "runs": [{"session": r["_sid"], "round": r["_round"], "intended": r["intended"], "returned_digests": r["out"], "exc": r["exc"],
                          "record": r["_rec"], "events": [(e["e"], e["i"], e["pid"], e["seq"], e.get("seed", e.get("v"))) for e in r["_evs"]]} for r in runs]}))
        interesting = g["backend"] in ("mp_pool", "cf_procpool", "cf_threadpool") and (g["w"] or 1) > 1
        if interesting and ((g["family"] == "sched" and len(samples) < 3) or (g["family"] != "sched" and g["family"] not in fam_seen)):
            fam_seen.add(g["family"])
            r = runs[0]
            samples.append({"family": g["family"], "backend": g["backend"], "max_workers": g["w"], "seed": g["seed"], "batch": gn, "shots_pattern": pattern,
                            "completion_order": r["intended"], "events": [f"{e['e']}{e['i']}@pid{e['pid']}#{e['seq']}" for e in r["_evs"]],
                            "returned_digests": r["out"], "verdict": v, "devices_compared": len(g["members"])})
    # ---- vacuity
    need = {(be, w) for be, w, _, _ in proc + thr if be in ("mp_pool", "cf_procpool", "cf_threadpool") and (w or 1) > 1}
    have = {(k[1], k[2]) for k in realised if k[0] == "sched"}
    if need - have and not viol:
        raise MachineryError(f"vacuity: no out-of-order completion realised for {sorted(need - have)}")
    if fully < 0.9 * nruns and not viol:
        raise MachineryError(f"vacuity: only {fully}/{nruns} executions fully observed in the worker logs")
    mixg = [g for g in groups if g["family"] == "mix"]
    bigg = [g for g in groups if g["family"] == "big"]
    run_masks = {tuple(m) for g in mixg for m in g["masks"]}
    if run_masks != set(allmasks):
        raise MachineryError(f"vacuity: {len(run_masks)}/{len(allmasks)} compositions executed")
    thr_big = [g for g in bigg if g["backend"] == "cf_threadpool" and (g["w"] or 1) > 1]
    if thr_big and not any(g["stats"]["out_of_order"] for g in thr_big) and not viol:
        raise MachineryError("vacuity: no out-of-order completion in any large thread-pool batch")
    tl = list(res.values()) + [rt]
    cov = {"states": sum(t.distinct for t in tl), "transitions": sum(t.generated for t in tl),
           "traces_validated_against_impl": nruns, "evaluations": nevals, "distinct_nontrivial": len(realised),
           "rule": "non-trivial = distinct (family, backend, max_workers, batch size, completion order) where TLC's completion order is not the batch "
                   "order and the worker logs show exactly this order happened in a real default.qubit execution",
           "samples": samples, "exhaustive": False,
           "model": {"module": "Executor (device layer)", "batch": n, "states_fifo_2rounds": res["mc_fifo"].distinct,
                     "states_any_dispatch_2rounds": res["mc_any"].distinct, "invariants": INVS, "bug_variants_rejected": rejected,
                     "batch_layer": {"module": "ExecutorMix", "invariants": MIXINVS,
                                     "states_all_compositions_fifo_2rounds": res["mix_small"].distinct,
                                     "states_all_compositions_any_dispatch_2rounds": res["mix_any"].distinct if "mix_any" in res else "thorough tier",
                                     "states_large_batches": res["mix_big"].distinct + (res["mix_big2"].distinct if "mix_big2" in res else 0),
                                     "variants_violate_only_inside_input_class": {b: v[1] for b, v in MIXBUGS.items()}}},
           "configurations": [{"family": g["family"], "backend": g["backend"], "max_workers": g["w"], "seed": g["seed"], "batch": g["n"],
                               "shots_pattern_per_execution": [fa(m) for m in g["masks"]] if g["masks"] else "fixed", "devices": len(g["members"]),
                               "executions_each": g["rounds"]} for g in groups],
           "compositions": {"batch": n, "from_tlc": len(allmasks), "executed": len(run_masks),
                            "analytic_first_then_finite": sum(1 for m in run_masks if m[0] == 0 and any(m)),
                            "device_groups": len(mixg), "behaviours_from_tlc": sum(len(v) for v in mixsched.values())},
           "large_batches": [{"backend": g["backend"], "max_workers": g["w"], "batch": g["n"], "chunk": g["chunk"], "devices": len(g["members"]),
                              "executions_each": g["rounds"], "intended_order_realised": g["stats"]["realised"],
                              "runs_completing_out_of_order": g["stats"]["out_of_order"]} for g in bigg],
           "simulated_behaviours_from_tlc": len(simlines),
           "finite_shot_tasks_without_seed": f"{unseeded_finite}/{finite_tasks}",
           "schedules_from_tlc": {str(w): len(c) for w, c in corders.items()}, "executions": nruns, "executions_fully_observed": fully,
           "same_seed_pairs_with_equal_seed_sequences": f"{seeds_equal}/{seeds_checked}", "model_drift": {
               "start_not_head_of_queue_as_logged": drift % 1000, "more_than_w_observed_running": drift // 1000 % 1000, "other": drift // 1000000},
           "negative_controls_rejected": len(neg),
           "phase_s": {"tlc_models": round(t_models, 1), "drivers": round(t_drivers, 1), "trace_validation": round(time.time() - t0 - t_models - t_drivers, 1)}}
    return CheckResult(coverage=cov, violations=viol, assumptions=[
        "finite-shot results are compared through exact digests of the returned arrays; analytic results against max_workers=None at 1e-10",
        "schedule independence is exercised on batches of " + str(n) + " small circuits (every completion order) and of " + ", ".join(map(str, bign))
        + " circuits (simulated completion orders); the turnstile delays a task after it computed its result",
        "two executions that do not share their seed are assumed to return different samples (every finite-shot circuit of the composed batches "
        "has more than 20 bits of sampling entropy)",
        "shot results are not required to agree between different worker counts / backends (the statement fixes seed, backend and worker count)"])
