"""C30 Sample post-processing is exact.

(M) FromSamples.tla defines the finite-shot statistics as direct arithmetic on a sample array (per-shot value, mean, mean squared
    deviation, relative frequencies, counts with / without all_outcomes) over exact rationals, twice: from the shots and from the
    dictionary of full-width counts.  FromSamplesGen.tla enumerates EVERY array of <= MaxS shots x <= MaxW wires and TLC checks the
    specification's laws on each (both definitions agree, probabilities sum to 1, counts total the shots, all_outcomes only adds zero
    entries, variance identity and sign).
(R) spec -> code: for every enumerated array and every measurement process of the list TLC prints the expected result; the driver
    builds the real measurement process (qp.probs / counts / sample / expval / var on wire subsets and orders, eigenvalue tables
    - seeded ones and EVERY table over {-1, 0, 1} on one wire, sign tables on two / three wires, i.e. the spectra next to the ones an
    implementation may special-case -, diagonal observables with coefficients of either sign, Hermitian matrices (diagonal and not)
    whose spectrum TLC sorts, projectors, mid-circuit measurement values and lists of them), calls mp.process_samples on the array and
    mp.process_counts on the dictionary of counts TLC printed, and compares.
(T) code -> spec: seeded larger arrays (more shots and wires, batch dimension, shot_range, bin_size) are run through the real
    classes; each returned value is recorded as exact data and Trace_FromSamples.tla recomputes it from the array.
"""
import itertools
import json
import random
import time
from fractions import Fraction

import numpy as np

import pennylane as qp
from pennylane.measurements import CountsMP, ExpectationMP, SampleMP, VarianceMP

from .. import lib
from ..lib import CheckResult, Violation

PID = "C30"
LABELS = [3, 0, "a", 7, 1, "b"]          # wire label at position 1, 2, ... of the wire order (deliberately not 0, 1, 2, ...)
ATOL = 1e-10
POOL = [Fraction(x) for x in ("3", "1", "2", "5", "-2", "1/2", "0", "-7/4", "-1", "4", "3/2", "-5/2", "7", "1/4", "-3", "6")]
SIGN2 = [list(t) for t in itertools.product((1, -1), repeat=4) if len(set(t)) == 2 and list(t) not in ([1, -1, -1, 1], [-1, 1, 1, -1])]
CLS = {"expval": ExpectationMP, "var": VarianceMP, "counts": CountsMP, "sample": SampleMP}


def pair(q):
    q = Fraction(q)
    return [q.numerator, q.denominator]


def R(kind, src, sel=(), ev=(), terms=(), st=(), ao=False, py=""):
    return {"kind": kind, "src": src, "sel": list(sel), "ev": [pair(q) for q in ev],
            "terms": [{"c": pair(c), "ws": list(ws)} for c, ws in terms], "st": list(st), "ao": bool(ao), "py": py}


def all_sels(nw):
    return [p for k in range(1, nw + 1) for c in itertools.combinations(range(1, nw + 1), k) for p in itertools.permutations(c)]


def table(rng, n, degenerate):
    if degenerate:
        vals = rng.sample(POOL, 2 if n <= 2 else 3)
        t = [rng.choice(vals) for _ in range(n)]
        if len(set(t)) == 1:
            t[-1] = next(v for v in vals if v != t[0])
        return t
    return rng.sample(POOL, n)


def value_kinds(i, make, with_sample=True):
    """expval and var always, counts with alternating all_outcomes, sample for every second entry"""
    out = [make("expval", False), make("var", False), make("counts", i % 2 == 0)]
    if i % 3 == 0:
        out.append(make("counts", i % 2 == 1))
    if with_sample and i % 2 == 0:
        out.append(make("sample", False))
    return out


def mp_list(nw, rng, max_sels=None):
    """the measurement processes exercised on arrays with nw wires (records of FromSamples.tla + the Python form 'py')"""
    sels = all_sels(nw)
    if max_sels and len(sels) > max_sels:
        sels = sorted(rng.sample(sels, max_sels), key=lambda s: (len(s), s))
    out = []
    for sel in [()] + sels:
        out += [R("probs", "wires", sel), R("counts", "wires", sel, ao=False), R("counts", "wires", sel, ao=True),
                R("sample", "wires", sel)]
    for i, sel in enumerate(sels):
        ev = table(rng, 2 ** len(sel), i % 2 == 1)
        out += value_kinds(i, lambda kind, ao: R(kind, "eig", sel, ev=ev, ao=ao))
    # directed eigenvalue tables: every table over {-1, 0, 1} on one wire (among them <<1, -1>>, the spectrum of a Pauli operator, its
    # reversal <<-1, 1>> and the constant tables), sign tables on more wires (parity, its negation, seeded ones)
    n = 0
    for sel in sels:
        if len(sel) == 1:
            tabs = [list(t) for t in itertools.product((1, -1, 0), repeat=2)]
        elif len(sel) == 2:
            tabs = [[1, -1, -1, 1], [-1, 1, 1, -1]] + rng.sample(SIGN2, 2)
        else:
            tabs = [[rng.choice((1, -1)) for _ in range(2 ** len(sel) - 2)] + [1, -1]]
        for ev in tabs:
            out += value_kinds(n, lambda kind, ao: R(kind, "eig", sel, ev=ev, ao=ao))
            n += 1
    # Hermitian matrices given by their spectrum: the table is the spectrum in ascending order whatever the matrix looks like
    herm = []
    for i, sel in enumerate(sels):
        if len(sel) == 1:
            a, b = sorted(rng.sample(POOL, 2))
            herm += [(sel, [-1, 1], "x"), (sel, [1, -1], "diag"), (sel, [-1, 1], "y" if i % 2 else "diag"), (sel, [b, a], "diag"),
                     (sel, [a, b], "rot"), (sel, [1, 0], "x"), (sel, [a, a], "diag")]
        elif len(sel) == 2:
            herm += [(sel, rng.sample(POOL, 4), "rot"), (sel, rng.choice(SIGN2), "diag"), (sel, table(rng, 4, True), "diag"),
                     (sel, [-1, 1, 3, 5] if i % 2 else [1, -1, 1, -1], "blk")]
        elif i % 2 == 0:
            herm += [(sel, rng.sample(POOL, 8), "diag")]
    for i, (sel, ev, py) in enumerate(herm):
        # repeated eigenvalues of a non-diagonal matrix are computed numerically and may differ in the last bit: no counts keyed by them
        out += [r for r in value_kinds(i, lambda kind, ao: R(kind, "herm", sel, ev=ev, ao=ao, py=py))
                if r["kind"] != "counts" or py == "diag" or len(set(ev)) == len(ev)]
    # diagonal observables: linear combinations of Pauli-Z words on disjoint supports
    wires = list(range(1, nw + 1))
    obs = [([(1, [w])], "arith") for w in wires]
    obs += [([(-1, [w])], ("arith", "neg", "lc", "ham")[(w + nw) % 4]) for w in wires]
    if nw >= 2:
        obs += [([(-1, rng.sample(wires, 2))], "neg"), ([(-1, [wires[0]]), (-1, [wires[-1]])], "arith")]
    for k in range(2, nw + 1):
        for c in itertools.combinations(wires, k):
            ws = list(c)
            rng.shuffle(ws)
            obs.append(([(1, ws)], "arith"))
    obs += [([(3, [wires[0]])], "arith"), ([(Fraction(-1, 2), [wires[-1]])], "lc")]
    if nw >= 2:
        a, b = rng.sample(wires, 2)
        obs += [([(2, [a]), (1, [b])], "arith"), ([(1, [b]), (2, [a])], "lc"), ([(Fraction(-7, 4), [a, b])], "arith")]
    if nw >= 3:
        a, b, c = rng.sample(wires, 3)
        obs += [([(1, [a]), (-3, [b, c])], "arith"), ([(Fraction(1, 2), [a]), (1, [b]), (-2, [c])], "ham")]
    for i, (terms, py) in enumerate(obs):
        out += value_kinds(i, lambda kind, ao: R(kind, "obs", terms=terms, ao=ao, py=py))
    for i, sel in enumerate([s for s in sels if len(s) <= 2][:6]):
        st = [rng.randint(0, 1) for _ in sel]
        out += [R("expval", "proj", sel, st=st), R("var", "proj", sel, st=st), R("counts", "proj", sel, st=st, ao=i % 2 == 0)]
    # arithmetic on mid-circuit measurement values (polynomials in the measured bits)
    mvs = [([(1, [w])], "m") for w in wires] + [([(1, []), (-1, [wires[0]])], "not"), ([(3, []), (-1, [wires[-1]])], "rsub"),
                                                  ([(Fraction(1, 2), [wires[0]])], "half")]
    if nw >= 2:
        a, b = rng.sample(wires, 2)
        mvs += [([(1, [a]), (2, [b])], "lin2"), ([(1, [a, b])], "and"), ([(1, [a, b])], "mul"),
                ([(1, []), (-1, [a]), (-1, [b]), (2, [a, b])], "eq")]
    if nw >= 3:
        a, b, c = rng.sample(wires, 3)
        mvs += [([(2, [a]), (-1, [b]), (1, [c])], "lin3")]
    for i, (terms, py) in enumerate(mvs):
        out += value_kinds(i, lambda kind, ao: R(kind, "mv", terms=terms, ao=ao, py=py))
    for i, sel in enumerate(sels):
        out.append(R("probs", "mvlist", sel, py="single" if len(sel) == 1 and i % 2 == 0 else "list"))
        out.append(R("counts", "mvlist", sel, ao=i % 2 == 0, py="list"))
        if i % 2 == 0:
            out.append(R("sample", "mvlist", sel, py="list"))
    return out


# ----------------------------------------------------------------------------- building the real measurement process
def _word(ws, labels):
    ops = [qp.Z(labels[w - 1]) for w in ws]
    return ops[0] if len(ops) == 1 else qp.prod(*ops)


def _obs(rec, labels):
    terms = [(Fraction(*t["c"]), t["ws"]) for t in rec["terms"]]
    if rec["py"] == "lc":
        return qp.ops.LinearCombination([float(c) for c, _ in terms], [_word(ws, labels) for _, ws in terms])
    if rec["py"] == "ham":
        return qp.Hamiltonian([float(c) for c, _ in terms], [_word(ws, labels) for _, ws in terms])
    if rec["py"] == "neg":
        return -_word(terms[0][1], labels)
    parts = [_word(ws, labels) if c == 1 else qp.s_prod(float(c), _word(ws, labels)) for c, ws in terms]
    return parts[0] if len(parts) == 1 else qp.sum(*parts)


ROT = np.array([[3.0, -4.0], [4.0, 3.0]]) / 5            # an exactly orthogonal matrix up to rounding of 3/5, 4/5


def herm_matrix(rec):
    """a Hermitian matrix whose spectrum is the multiset rec['ev'] (the ORDER in which ev lists it is only used to lay out the matrix)"""
    ev = [n / d for n, d in rec["ev"]]
    k, py = len(rec["sel"]), rec["py"]
    D = np.diag(ev)
    if py == "diag":
        return D
    if py in ("x", "y"):                                  # mean * I + half-difference * X (resp. Y): eigenvalues ev[0], ev[1]
        P = np.array([[0, 1], [1, 0]]) if py == "x" else np.array([[0, -1j], [1j, 0]])
        return (ev[0] + ev[1]) / 2 * np.eye(2) + (ev[1] - ev[0]) / 2 * P
    if py == "rot":
        U = ROT if k == 1 else np.kron(ROT, np.eye(2 ** (k - 1)))[:, np.random.RandomState(7).permutation(2 ** k)]
        return U @ D @ U.T
    if py == "blk":                                       # |0><0| (x) A + |1><1| (x) B, A / B with eigenvalues ev[0], ev[1] / ev[2], ev[3]
        X = np.array([[0.0, 1.0], [1.0, 0.0]])
        A = (ev[0] + ev[1]) / 2 * np.eye(2) + (ev[1] - ev[0]) / 2 * X
        B = (ev[2] + ev[3]) / 2 * np.eye(2) + (ev[3] - ev[2]) / 2 * X
        return np.kron(np.diag([1.0, 0.0]), A) + np.kron(np.diag([0.0, 1.0]), B)
    raise lib.MachineryError(f"unknown Hermitian form {py}")


def _mv(rec, labels):
    m = {}
    for t in rec["terms"]:
        for w in t["ws"]:
            if w not in m:
                m[w] = qp.measure(labels[w - 1])
    terms = [(Fraction(*t["c"]), t["ws"]) for t in rec["terms"]]
    py = rec["py"]
    if py == "m":
        return m[terms[0][1][0]]
    if py == "not":
        return ~m[terms[1][1][0]]
    if py == "rsub":
        return 3 - m[terms[1][1][0]]
    if py == "half":
        return m[terms[0][1][0]] / 2
    if py == "lin2":
        return m[terms[0][1][0]] + 2 * m[terms[1][1][0]]
    if py == "and":
        return m[terms[0][1][0]] & m[terms[0][1][1]]
    if py == "mul":
        return m[terms[0][1][0]] * m[terms[0][1][1]]
    if py == "eq":
        return m[terms[1][1][0]] == m[terms[2][1][0]]
    if py == "lin3":
        return 2 * m[terms[0][1][0]] - m[terms[1][1][0]] + m[terms[2][1][0]]
    raise lib.MachineryError(f"unknown measurement-value form {py}")


def build(rec, labels):
    kind, src = rec["kind"], rec["src"]
    W = [labels[p - 1] for p in rec["sel"]]
    with qp.queuing.QueuingManager.stop_recording():
        if src == "wires":
            if kind == "probs":
                return qp.probs(wires=W) if W else qp.probs()
            if kind == "counts":
                return qp.counts(wires=W or None, all_outcomes=rec["ao"])
            return qp.sample(wires=W or None)
        if src == "eig":
            ev = np.array([n / d for n, d in rec["ev"]])
            return CountsMP(eigvals=ev, wires=W, all_outcomes=rec["ao"]) if kind == "counts" else CLS[kind](eigvals=ev, wires=W)
        if src == "mvlist":
            ms = [qp.measure(w) for w in W]
            op = ms[0] if rec["py"] == "single" else ms
            if kind == "probs":
                return qp.probs(op=op)
            return qp.counts(op, all_outcomes=rec["ao"]) if kind == "counts" else qp.sample(op)
        if src == "herm":
            op = qp.Hermitian(herm_matrix(rec), wires=W)
        else:
            op = qp.Projector(rec["st"], wires=W) if src == "proj" else (_obs(rec, labels) if src == "obs" else _mv(rec, labels))
        if kind == "counts":
            return qp.counts(op, all_outcomes=rec["ao"])
        return {"expval": qp.expval, "var": qp.var, "sample": qp.sample}[kind](op)


def describe(rec, labels):
    W = [labels[p - 1] for p in rec["sel"]]
    what = {"wires": f"wires={W or 'all'}", "mvlist": f"mid-circuit measurements on {W} ({rec['py']})",
            "eig": f"eigvals={[str(Fraction(*q)) for q in rec['ev']]}, wires={W}",
            "proj": f"Projector({rec['st']}, wires={W})",
            "herm": f"Hermitian({rec['py']} matrix with spectrum {[str(Fraction(*q)) for q in rec['ev']]}, wires={W})",
            "obs": "observable " + " + ".join(f"{Fraction(*t['c'])}*Z{[labels[w - 1] for w in t['ws']]}" for t in rec["terms"]) + f" ({rec['py']})",
            "mv": "measurement value " + " + ".join(f"{Fraction(*t['c'])}*m{[labels[w - 1] for w in t['ws']]}" for t in rec["terms"])
                  + f" ({rec['py']})"}[rec["src"]]
    return f"{rec['kind']}({what}{', all_outcomes=True' if rec['ao'] else ''})"


def vkey(call, rec, extra=""):
    k = f"{call}:{rec['kind']}:{rec['src']}"
    if rec["src"] in ("wires",) and not rec["sel"]:
        k += ":all-wires"
    if rec["py"]:
        k += ":" + rec["py"]
    if rec["src"] == "eig" and rec["kind"] == "counts" and len({tuple(q) for q in rec["ev"]}) < len(rec["ev"]):
        k += ":repeated-eigenvalues"
    if rec["src"] in ("eig", "herm") and {abs(Fraction(*q)) for q in rec["ev"]} == {1}:
        k += ":pm1-eigenvalues"
    if rec["ao"]:
        k += ":all_outcomes"
    return k + (":" + extra if extra else "")


# ----------------------------------------------------------------------------- comparing an output with the spec's result
def nsel(rec, nw):
    return len(rec["sel"]) or nw


def bitkind(rec):
    return rec["src"] in ("wires", "mvlist")


def fl(q):
    return q[0] / q[1]


def compare(rec, out, exp, nw, via="samples"):
    """None if the implementation's output equals the spec's result `exp`, else a short reason"""
    kind = rec["kind"]
    k = nsel(rec, nw)
    if kind == "probs":
        a = np.asarray(out, dtype=float)
        if a.shape != (2 ** k,):
            return f"shape {a.shape} instead of {(2 ** k,)}"
        e = np.array([fl(q) for q in exp])
        return None if np.allclose(a, e, rtol=0, atol=ATOL) else f"probabilities {a.tolist()} instead of {[str(Fraction(*q)) for q in exp]}"
    if kind in ("expval", "var"):
        a = np.asarray(out)
        if a.shape != () or a.dtype.kind not in "fiub":
            return f"result of shape {a.shape} / dtype {a.dtype} instead of a real scalar"
        return None if abs(float(a) - fl(exp)) <= ATOL else f"{float(a)!r} instead of {Fraction(*exp)}"
    if kind == "counts":
        if not isinstance(out, dict):
            return f"{type(out).__name__} instead of a dict"
        if bitkind(rec):
            want = {format(b, f"0{k}b"): c for b, c in exp}
            got = {}
            for key, c in out.items():
                if not isinstance(key, str):
                    return f"outcome key {key!r} is not a bit string"
                got[str(key)] = int(c)
            return None if got == want else f"counts {got} instead of {want}"
        want = {Fraction(n, d): c for n, d, c in exp}
        got = {}
        for key, c in out.items():
            x = float(key)
            hit = [q for q in want if abs(float(q) - x) <= ATOL]
            if len(hit) != 1 or hit[0] in got:
                return f"counts {dict((float(a), int(b)) for a, b in out.items())} instead of { {str(q): c for q, c in want.items()} }"
            got[hit[0]] = int(c)
        return None if got == want else f"counts { {str(q): c for q, c in got.items()} } instead of { {str(q): c for q, c in want.items()} }"
    # sample
    a = np.asarray(out)
    if bitkind(rec):
        e = np.array(exp, dtype=int).reshape(len(exp), k)
        if via == "counts":               # the order of the shots is lost in a dictionary: compare as multisets of rows
            if a.size != e.size:
                return f"{a.size} sampled bits instead of {e.size}"
            a = a.reshape(len(exp), k)
            return None if sorted(map(tuple, a.tolist())) == sorted(map(tuple, e.tolist())) else f"samples {a.tolist()} instead of (any order) {e.tolist()}"
        if a.shape != e.shape:
            return f"samples of shape {a.shape} instead of {e.shape}"
        return None if np.array_equal(a, e) else f"samples {a.tolist()} instead of {e.tolist()}"
    e = np.array([fl(q) for q in exp])
    if a.shape != e.shape:
        return f"samples of shape {a.shape} instead of {e.shape}"
    a = a.astype(float)
    if via == "counts":
        a, e = np.sort(a), np.sort(e)
    return None if np.allclose(a, e, rtol=0, atol=ATOL) else f"samples {a.tolist()} instead of {e.tolist()}"


def one_wire_table(rec):
    """the eigenvalue table <<value of bit 0, value of bit 1>> of a value measurement on ONE wire, else None"""
    if rec["src"] == "eig" and len(rec["ev"]) == 2:
        return tuple(Fraction(*q) for q in rec["ev"])
    if rec["src"] == "herm" and len(rec["ev"]) == 2:
        return tuple(sorted(Fraction(*q) for q in rec["ev"]))
    if rec["src"] == "obs" and len(rec["terms"]) == 1 and len(rec["terms"][0]["ws"]) == 1:
        c = Fraction(*rec["terms"][0]["c"])
        return (c, -c)
    return None


def nontrivial(rec, exp):
    """the shots take at least two different outcomes under this measurement process"""
    kind = rec["kind"]
    if kind == "probs":
        return sum(1 for q in exp if q[0] != 0) >= 2
    if kind == "counts":
        return sum(1 for p in exp if p[-1] > 0) >= 2
    if kind == "var":
        return exp[0] != 0
    if kind == "sample":
        return len({json.dumps(r) for r in exp}) >= 2
    return None          # expval alone does not tell


def counts_dict(C, X, nw, variant):
    """the dictionary of full-width counts handed to process_counts, built from the counts TLC printed"""
    keys = [format(f, f"0{nw}b") for f in range(2 ** nw)]
    if variant == 1:      # keys in order of first appearance in the array
        seen = []
        for row in X:
            s = "".join(map(str, row))
            if s not in seen:
                seen.append(s)
        return {s: C[int(s, 2)] for s in seen}
    if variant == 2:      # a dictionary that lists every outcome
        return {s: C[f] for f, s in enumerate(keys)}
    return {s: C[f] for f, s in enumerate(keys) if C[f] > 0}


# ----------------------------------------------------------------------------- code -> spec: exact records
class Malformed(Exception):
    pass


def to_rat(x, maxden):
    try:
        x = float(x)
    except Exception:
        raise Malformed(f"{x!r} is not a real number")
    if not np.isfinite(x):
        raise Malformed(f"{x!r}")
    q = Fraction(x).limit_denominator(maxden)
    if abs(float(q) - x) > 1e-9 * max(1.0, abs(x)):
        raise Malformed(f"{x!r} is not within 1e-9 of a rational with denominator <= {maxden}")
    return pair(q)


def canon(rec, out, k, shots):
    """one (unbinned, unbatched) output of the implementation -> the exact data Trace_FromSamples compares"""
    kind = rec["kind"]
    if kind == "probs":
        a = np.asarray(out, dtype=float)
        if a.shape != (2 ** k,):
            raise Malformed(f"probabilities of shape {a.shape}")
        return [to_rat(p, shots) for p in a]
    if kind in ("expval", "var"):
        a = np.asarray(out)
        if a.shape != ():
            raise Malformed(f"{kind} of shape {a.shape}")
        return to_rat(a, 4 * shots if kind == "expval" else 16 * shots * shots)
    if kind == "counts":
        if not isinstance(out, dict):
            raise Malformed(f"counts of type {type(out).__name__}")
        if bitkind(rec):
            for key in out:
                if not isinstance(key, str) or len(key) != k or set(key) - {"0", "1"}:
                    raise Malformed(f"outcome key {key!r}")
            return [[int(key, 2), int(c)] for key, c in out.items()]
        return [to_rat(key, 4) + [int(c)] for key, c in out.items()]
    a = np.asarray(out)
    if bitkind(rec):
        if a.shape != (shots, k):
            raise Malformed(f"samples of shape {a.shape}")
        return [[int(b) for b in row] for row in a]
    if a.shape != (shots,):
        raise Malformed(f"samples of shape {a.shape}")
    return [to_rat(v, 4) for v in a]


def rand_mp(rng, nw):
    """a random measurement process on nw wires (same families as mp_list, random wire selections and tables)"""
    wires = list(range(1, nw + 1))
    fam = rng.choice(["wires", "wires", "eig", "eig", "obs", "proj", "mv", "mvlist", "herm", "pm1"])
    k = rng.randint(1, min(nw, 3))
    sel = rng.sample(wires, k)
    ao = rng.random() < 0.5
    if fam == "wires":
        if rng.random() < 0.2:
            sel = []
        kind = rng.choice(["probs", "counts", "sample"])
        return R(kind, "wires", sel, ao=ao and kind == "counts")
    if fam == "mvlist":
        kind = rng.choice(["probs", "counts", "sample"])
        return R(kind, "mvlist", sel, ao=ao and kind == "counts", py="single" if k == 1 and kind == "probs" and rng.random() < 0.5 else "list")
    kind = rng.choice(["expval", "var", "counts", "sample"])
    ao = ao and kind == "counts"
    if fam == "eig":
        return R(kind, "eig", sel, ev=table(rng, 2 ** k, rng.random() < 0.5), ao=ao)
    if fam == "pm1":          # a sign table (one wire: <<1, -1>> or <<-1, 1>>), given as eigvals or as the spectrum of a diagonal matrix
        ev = [rng.choice((1, -1)) for _ in range(2 ** k - 2)] + rng.choice(([1, -1], [-1, 1]))
        rng.shuffle(ev)
        return R(kind, "eig", sel, ev=ev, ao=ao) if rng.random() < 0.6 else R(kind, "herm", sel, ev=ev, ao=ao, py="diag")
    if fam == "herm":
        k = min(k, 2)
        sel = sel[:k]
        py = rng.choice(["diag", "rot", "x", "y"] if k == 1 else ["diag", "rot", "blk"])
        ev = table(rng, 2 ** k, True) if py == "diag" and rng.random() < 0.4 else rng.sample(POOL, 2 ** k)
        return R(kind, "herm", sel, ev=ev, ao=ao, py=py)
    if fam == "proj":
        return R(kind if kind != "sample" else "expval", "proj", sel, st=[rng.randint(0, 1) for _ in sel], ao=ao)
    if fam == "obs":
        perm = rng.sample(wires, nw)
        terms, i = [], 0
        while i < nw and len(terms) < 3:
            n = rng.randint(1, min(2, nw - i))
            terms.append((rng.choice([1, 1, -1, -1, 2, -3, Fraction(1, 2), Fraction(-7, 4)]), perm[i:i + n]))
            i += n
        py = rng.choice(["arith", "lc", "ham"]) if len(terms) > 1 or terms[0][0] != 1 else "arith"
        return R(kind, "obs", terms=terms, ao=ao, py=py)
    a, b, c = (rng.sample(wires, 3) + [None] * 3)[:3] if nw >= 3 else (rng.sample(wires, 2) + [None])
    forms = {"m": [(1, [a])], "not": [(1, []), (-1, [a])], "rsub": [(3, []), (-1, [a])], "half": [(Fraction(1, 2), [a])],
             "lin2": [(1, [a]), (2, [b])], "and": [(1, [a, b])], "mul": [(1, [a, b])], "eq": [(1, []), (-1, [a]), (-1, [b]), (2, [a, b])]}
    if c is not None:
        forms["lin3"] = [(2, [a]), (-1, [b]), (1, [c])]
    py = rng.choice(sorted(forms))
    return R(kind, "mv", terms=forms[py], ao=ao, py=py)


def describe_call(rec, arrs, batch, lo, hi, via, bs=0):
    nw, shots = len(arrs[0][0]), len(arrs[0])
    a = np.array(arrs if batch else arrs[0], dtype=np.int64)
    kw = {}
    if (lo, hi) != (0, shots):
        kw["shot_range"] = (lo, hi)
    if bs:
        kw["bin_size"] = bs
    call = f"{describe(rec, LABELS)}.{'process_counts' if via == 'counts' else 'process_samples'}"
    rp = {"mp": rec, "measurement": describe(rec, LABELS), "samples": a.tolist(), "wire_order": [str(w) for w in LABELS[:nw]], "kwargs": kw,
          "via": via, "trace": {"arrs": arrs, "batch": batch, "lo": lo, "hi": hi, "bs": bs}}
    return call, rp, a, kw


def observe_call(rec, arrs, batch, lo, hi, bs, via, rp):
    """call the real measurement process; -> the exact observation of every batch entry (Malformed / any exception propagate)"""
    nw, shots = len(arrs[0][0]), len(arrs[0])
    order = LABELS[:nw]
    k = nsel(rec, nw)
    mp = build(rec, LABELS)
    a = np.array(arrs if batch else arrs[0], dtype=np.int64)
    kw = {}
    if (lo, hi) != (0, shots):
        kw["shot_range"] = (lo, hi)
    if bs:
        kw["bin_size"] = bs
    if via == "counts":
        d = {}
        for s in ["".join(map(str, r)) for r in arrs[0][lo:hi]]:
            d[s] = d.get(s, 0) + 1
        rp["counts"] = d
        outs = [mp.process_counts(d, order)]
    else:
        out = mp.process_samples(a, order, **kw)
        if batch:
            if len(out) != batch:
                raise Malformed(f"{len(out)} results for a batch of {batch}")
            outs = list(out)
        else:
            outs = [out]
    n = hi - lo
    obs = []
    for o in outs:
        if bs:
            nb = n // bs
            if rec["kind"] == "probs":
                o = np.asarray(o)
                if o.shape != (2 ** k, nb):
                    raise Malformed(f"binned probabilities of shape {o.shape}")
                o = [canon(rec, o[:, b], k, bs) for b in range(nb)]
            else:
                if len(o) != nb:
                    raise Malformed(f"{len(o)} results for {nb} bins")
                o = [canon(rec, x, k, bs) for x in o]
        else:
            o = canon(rec, o, k, n)
        obs.append(o)
    return obs


def run_trace_spec(records, name):
    wd2 = lib.workdir(PID, name)
    (wd2 / "traces.json").write_text(json.dumps(records))
    r = lib.run_tlc("Trace_FromSamples", lib.cfg(init="TInit", next_="TNext", constants={"NCHUNKS": 16}), wd2,
                    env={"TRACE_FILE": str(wd2 / "traces.json")}, timeout=3000)
    lib.require_ok(r, "Trace_FromSamples")
    verd = {t[1] - 1: t[2] for t in r.tuples if t[0] == "V"}
    if len(verd) != len(records):
        raise lib.MachineryError(f"verdicts not total: {len(verd)} of {len(records)}")
    return r, verd


def replay(path, tier, seed):
    """re-run the case of a replay file through the real code (replay cases: against the expected value TLC printed in the original
    run; trace cases: the new observation is validated by Trace_FromSamples.tla)"""
    doc = json.load(open(path))
    rp, rec = doc["replay"], doc["replay"]["mp"]
    viol = []
    if "call" in rp:
        X = rp["samples"]
        nw = len(X[0])
        mp = build(rec, LABELS)
        try:
            if rp["call"] == "process_samples":
                why = compare(rec, mp.process_samples(np.array(X, dtype=np.int64), LABELS[:nw]), rp["expected"], nw)
            else:
                why = compare(rec, mp.process_counts(dict(rp["counts"]), LABELS[:nw]), rp["expected"], nw, via="counts")
        except Exception as e:  # noqa: BLE001
            why = f"raised {type(e).__name__}: {e}"
        if why:
            viol.append(Violation(key=doc["key"], detail=f"{rp['measurement']}.{rp['call']}: {why}", replay=rp))
        states = 0
    else:
        t = rp["trace"]
        try:
            obs = observe_call(rec, t["arrs"], t["batch"], t["lo"], t["hi"], t["bs"], rp["via"], dict(rp))
            records = [{"nw": len(t["arrs"][0][0]), "X": t["arrs"][bi], "mp": rec, "lo": t["lo"], "hi": t["hi"], "bs": t["bs"], "via": rp["via"],
                        "o": o} for bi, o in enumerate(obs)]
            r, verd = run_trace_spec(records, "replay")
            states = r.distinct
            bad = [i for i in range(len(records)) if verd[i] not in ("ok", "ok-strided")]
            if bad:
                viol.append(Violation(key=doc["key"], detail=f"{rp['measurement']}: batch entries {bad} are not the statistic of the samples "
                                      f"(observed {[records[i]['o'] for i in bad]})", replay=rp))
        except lib.MachineryError:
            raise
        except Exception as e:  # noqa: BLE001
            states = 0
            viol.append(Violation(key=doc["key"], detail=f"{rp['measurement']}: {type(e).__name__}: {e}", replay=rp))
    return CheckResult(coverage={"states": states, "transitions": states, "traces_validated_against_impl": 1, "evaluations": 1,
                                 "distinct_nontrivial": 1, "rule": "one replayed case", "exhaustive": False, "samples": []}, violations=viol)


def run(tier, seed):
    quick = tier == "quick"
    rng = random.Random(seed)
    max_w, max_s = (3, 4) if quick else (3, 5)
    stride, big, stride2, big2 = (6, 8, 32, 12) if quick else (4, 12, 32, 15)
    mps = [mp_list(nw, random.Random(seed * 1000 + nw)) for nw in range(1, max_w + 1)]
    t_start = time.time()
    wd = lib.workdir(PID, "gen")
    (wd / "mps.json").write_text(json.dumps(mps))
    g = lib.run_tlc("FromSamplesGen", lib.cfg(constants={"MaxW": max_w, "MaxS": max_s, "Stride": stride, "BigBits": big, "Stride2": stride2,
                                                         "BigBits2": big2},
                                              invariants=["SpecLaws"]), wd, env={"MPS_FILE": str(wd / "mps.json")}, timeout=3000)
    if g.invariant_violated:
        raise lib.MachineryError(f"FromSamples.tla violates its own law {g.invariant_violated} (oracle error)\n" + g.out[-2000:])
    lib.require_ok(g, "FromSamplesGen")
    n_arrays = sum(2 ** (s * w) for w in range(1, max_w + 1) for s in range(1, max_s + 1))
    if len(g.json_lines) != n_arrays:
        raise lib.MachineryError(f"generator emitted {len(g.json_lines)} arrays, expected {n_arrays}")

    t_gen = time.time() - t_start
    built = [[build(r, LABELS) for r in lst] for lst in mps]
    found = {}                                   # key -> [Violation, occurrences]

    def report(key, detail, replay):
        if key in found:
            found[key][1] += 1
        else:
            found[key] = [Violation(key=key, detail=detail, replay=replay), 1]

    by_kind, by_src = {}, {}
    evals = n_counts_calls = zero_entries = permuted = 0
    pm1 = {"pauli <<1,-1>>": {}, "reversed <<-1,1>>": {}}     # class of one-wire table -> source -> pairs with two different outcomes
    nontriv, samples = set(), []
    controls = []
    for case in g.json_lines:
        nw, X, C = case["nw"], case["S"], case["C"]
        arr = np.array(X, dtype=np.int64)
        order = LABELS[:nw]
        code = int("".join(str(b) for row in X for b in row), 2) + 7 * nw + len(X)
        results = case["r"]
        results = enumerate(results) if isinstance(results, list) else sorted((int(a) - 1, b) for a, b in results.items())
        for k, exp in results:
            rec, mp = mps[nw - 1][k], built[nw - 1][k]
            evals += 1
            by_kind[rec["kind"]] = by_kind.get(rec["kind"], 0) + 1
            by_src[rec["src"]] = by_src.get(rec["src"], 0) + 1
            nt = nontrivial(rec, exp)
            if nt:
                nontriv.add((nw, len(X), code, k))
                t1 = one_wire_table(rec)
                if t1 in ((1, -1), (-1, 1)):
                    c = pm1["pauli <<1,-1>>" if t1 == (1, -1) else "reversed <<-1,1>>"]
                    c[rec["src"]] = c.get(rec["src"], 0) + 1
            if rec["kind"] == "counts":
                zero_entries += sum(1 for p in exp if p[-1] == 0)
            if len(rec["sel"]) > 1 and rec["sel"] != sorted(rec["sel"]):
                permuted += 1
            rp = {"call": "process_samples", "mp": rec, "measurement": describe(rec, LABELS), "samples": X, "wire_order": [str(w) for w in order],
                  "expected": exp}
            try:
                out = mp.process_samples(arr, order)
                why = compare(rec, out, exp, nw)
            except Exception as e:  # noqa: BLE001
                why = f"raised {type(e).__name__}: {e}"
            if why:
                report(vkey("process_samples", rec), f"{describe(rec, LABELS)}.process_samples({X}, wire_order={order}): {why}", rp)
            elif nt and len(controls) < 40 and (k + len(controls)) % 7 == 0:
                controls.append((rec, out, exp, nw))
            if len(samples) < 4 and nt and len(X) >= 3 and nw >= 2 and rec["src"] in (("eig", "wires", "obs", "mv")[len(samples)],):
                samples.append({"measurement": describe(rec, LABELS), "samples": X, "wire_order": [str(w) for w in order],
                                "expected": [str(Fraction(*q)) for q in exp] if rec["kind"] == "probs" else
                                (str(Fraction(*exp)) if rec["kind"] in ("expval", "var") else exp)})
            # process_counts on the dictionary of counts TLC printed (a third of the pairs; lists of mid-circuit measurements are
            # not sent there: process_counts keys them by integer, a representation the statement does not fix)
            if (k + code) % 3 == 0 and not (rec["src"] == "mvlist" and rec["kind"] in ("counts", "sample")):
                d = counts_dict(C, X, nw, (k + code) % 9 // 3)
                n_counts_calls += 1
                rp = dict(rp, call="process_counts", counts=d)
                try:
                    out = mp.process_counts(dict(d), order)
                    why = compare(rec, out, exp, nw, via="counts")
                except Exception as e:  # noqa: BLE001
                    why = f"raised {type(e).__name__}: {e}"
                if why:
                    report(vkey("process_counts", rec), f"{describe(rec, LABELS)}.process_counts({d}, wire_order={order}): {why}", rp)
    if evals < 1000:
        raise lib.MachineryError("vacuous replay")
    for cls, c in pm1.items():
        need = ("eig", "obs") if cls.startswith("pauli") else ("eig", "obs", "herm")
        if any(c.get(src, 0) < 20 for src in need):
            raise lib.MachineryError(f"vacuous: one-wire tables of class {cls} exercised only {c}")

    t_replay = time.time() - t_start - t_gen
    # negative controls of the comparator: a corrupted expected value must be rejected
    rejected = 0
    for rec, out, exp, nw in controls:
        bad = json.loads(json.dumps(exp))
        if rec["kind"] == "probs":
            i = next(i for i, q in enumerate(bad) if q[0] != 0)
            bad[i] = [bad[i][0] + 1, bad[i][1] + 1]
        elif rec["kind"] in ("expval", "var"):
            bad = pair(Fraction(*bad) + Fraction(1, 64))
        elif rec["kind"] == "counts":
            bad[0][-1] += 1
        else:
            bad = bad[1:] + bad[:1] if bad[1:] + bad[:1] != bad else bad[:-1]
        if compare(rec, out, bad, nw) is None:
            raise lib.MachineryError(f"negative control accepted by the comparator: {describe(rec, LABELS)} {exp} -> {bad}")
        rejected += 1
    if rejected < 10:
        raise lib.MachineryError("too few comparator controls")

    # ------------------------------------------------------------------ code -> spec on seeded larger arrays
    n_cases = 500 if quick else 4000
    records, meta = [], []
    t_batched = t_binned = t_ranged = t_via_counts = 0
    for ci in range(n_cases):
        nw = rng.randint(2, 5 if quick else 6)
        shots = rng.randint(5, 12 if quick else 16)
        rec = rand_mp(rng, nw)
        batch = rng.choice([0, 0, 2, 3])
        arrs = [[[rng.randint(0, 1) if rng.random() < 0.8 else 1 for _ in range(nw)] for _ in range(shots)] for _ in range(batch or 1)]
        lo, hi, bs = 0, shots, 0
        mode = rng.random()
        if mode < 0.25:
            lo = rng.randint(0, shots - 2)
            hi = rng.randint(lo + 1, shots)
        elif mode < 0.45 and rec["kind"] != "sample":
            n = hi - lo
            divs = [d for d in range(1, n + 1) if n % d == 0 and d < n]
            bs = rng.choice(divs)
            if batch and rec["kind"] != "probs":
                batch, arrs = 0, arrs[:1]         # batch + bin_size is only defined for probs
        via = "samples"
        if bs == 0 and not batch and rec["kind"] != "sample" and not (rec["src"] == "mvlist" and rec["kind"] == "counts") \
                and not (rec["src"] == "wires" and not rec["sel"]) and rng.random() < 0.25:
            via = "counts"
        call, rp, a, kw = describe_call(rec, arrs, batch, lo, hi, via, bs)
        try:
            for bi, o in enumerate(observe_call(rec, arrs, batch, lo, hi, bs, via, rp)):
                records.append({"nw": nw, "X": arrs[bi], "mp": rec, "lo": lo, "hi": hi, "bs": bs, "via": via, "o": o})
                meta.append((call, rp, rec, bi))
            t_batched += bool(batch)
            t_binned += bool(bs)
            t_ranged += "shot_range" in kw
            t_via_counts += via == "counts"
        except Malformed as e:
            report(vkey("trace:" + ("process_counts" if via == "counts" else "process_samples"), rec, "malformed"),
                   f"{call}(samples {a.shape}, {kw}): {e}", rp)
        except Exception as e:  # noqa: BLE001
            report(vkey("trace:" + ("process_counts" if via == "counts" else "process_samples"), rec, "raised"),
                   f"{call}(samples {a.shape}, {kw}) raised {type(e).__name__}: {e}", rp)
    n_real = len(records)
    # negative controls for TLC: corrupt one recorded field of real records
    neg = []
    for i in range(0, n_real, max(1, n_real // 40)):
        t = json.loads(json.dumps(records[i]))
        o = t["o"][0] if t["bs"] else t["o"]
        kind = t["mp"]["kind"]
        if kind in ("expval", "var"):
            o[0] += 1
        elif kind == "probs":
            i0 = next(j for j, q in enumerate(o) if q[0] != 0)
            o[i0] = [0, 1] if o[i0] != [0, 1] else [1, 1]
        elif kind == "counts":
            o[0][-1] += 1
        else:
            o[0] = [1 - o[0][0]] + o[0][1:] if bitkind(t["mp"]) else pair(Fraction(*o[0]) + 1)
        neg.append(t)
    records += neg
    r, verd = run_trace_spec(records, "trace")
    for j in range(len(neg)):
        if verd[n_real + j] in ("ok", "ok-strided"):
            raise lib.MachineryError(f"negative control accepted by Trace_FromSamples: {neg[j]}")
    t_ok = t_strided = 0
    for i, (call, rp, rec, bi) in enumerate(meta):
        v = verd[i]
        if v == "ok":
            t_ok += 1
        elif v == "ok-strided":
            t_ok += 1
            t_strided += 1
        else:
            extra = ("binned" if records[i]["bs"] else "") + ("batched" if np.ndim(rp["samples"]) == 3 else "")
            report(vkey("trace:" + ("process_counts" if rp["via"] == "counts" else "process_samples"), rec, extra or "plain"),
                   f"{call}(samples of shape {np.shape(rp['samples'])}, {rp['kwargs']}) batch entry {bi}: returned (exact) {records[i]['o']}, "
                   f"which is not the statistic of the given samples ({v})", dict(rp, observed=records[i]["o"], verdict=v))
    if t_ok < 100 and not found:
        raise lib.MachineryError("vacuous trace run")

    viol = []
    for key, (v, n) in sorted(found.items()):
        v.detail = f"[{n} case(s)] " + v.detail
        viol.append(v)
    cov = {"states": g.distinct + r.distinct, "transitions": g.generated + r.generated,
           "traces_validated_against_impl": n_real, "evaluations": evals + n_counts_calls + n_real,
           "distinct_nontrivial": len(nontriv),
           "rule": f"replay: every sample array of <= {max_s} shots x <= {max_w} wires ({n_arrays} arrays) x the measurement-process list "
                   f"(arrays of >= {big} / >= {big2} bits get every {stride}th / {stride2}th process, rotating with the array); non-trivial = distinct (array, measurement process) pair whose "
                   "shots take at least two different outcomes (probs / counts / var / sample; expval pairs are not counted)",
           "samples": samples, "exhaustive": True,
           "model": {"module": "FromSamples / FromSamplesGen", "invariants": ["SpecLaws"], "states": g.distinct, "arrays": n_arrays},
           "measurement_processes_per_wire_count": [len(x) for x in mps],
           "process_samples_calls": evals, "process_counts_calls": n_counts_calls,
           "by_kind": by_kind, "by_source": by_src, "all_outcomes_zero_entries_checked": zero_entries,
           "pairs_with_permuted_wire_order": permuted, "one_wire_sign_tables_nontrivial_pairs": pm1,
           "trace": {"cases": n_cases, "records": n_real, "accepted": t_ok, "batched_cases": t_batched, "binned_cases": t_binned,
                     "shot_range_cases": t_ranged, "process_counts_cases": t_via_counts},
           "model_drift": t_strided,
           "model_drift_meaning": "binned statistics that use the strided partition of the shot range (bin j = shots j, j + nbins, ...) instead "
                                  "of consecutive shots; accepted, the statement does not fix the partition",
           "negative_controls_rejected": rejected + len(neg),
           "wall_s": {"tlc_generator": round(t_gen, 1), "replay": round(t_replay, 1), "tlc_trace": round(r.wall_s, 1)}}
    return CheckResult(coverage=cov, violations=viol, assumptions=[
        "eigenvalue tables and observable coefficients are dyadic rationals (exact floats); outputs are compared at 1e-10 absolute "
        "(replay) resp. converted to the nearest rational with the denominator the arithmetic allows, round trip 1e-9 (trace)",
        "diagonal observables are linear combinations of Pauli-Z words on disjoint supports (no diagonalizing gates), whose eigenvalue "
        "order is the computational-basis order of the observable's wires",
        "variance is the population variance (numpy.var), i.e. the mean squared deviation of the per-shot values",
        "with bin_size either partition of the shot range into bins (consecutive or strided) is accepted; batch + bin_size only for probs",
        "counts / samples of a LIST of mid-circuit measurements are not sent through process_counts (outcomes are integers there, bit strings in process_samples)"])
