"""C65 Executor backends behave like map and starmap.

(M) Executor.tla (Submit / Dispatch / Complete(any running task) / Collect, one call on a pool of w workers) is
    model-checked for every batch size <= N and pool size <= W, FIFO and arbitrary dispatch: OrderPreserved (the list
    handed back is a prefix of the sequential map whatever the completion order), ExactlyOnce, WorkerBound, Progress.
    The deliberately wrong variant "collect-as-completed" must violate OrderPreserved (model-level negative control).
    ExecConv.tla defines submit / map / starmap by the Python built-ins (call, map, itertools.starmap); ExecConvGen
    enumerates calls (empty, single, many, uneven lengths, keyword arguments, variadic functions) with oracle self-checks.
(R) spec -> code: every completion order TLC found (ExecutorGen) is forced onto every native backend (serial,
    multiprocessing pool, concurrent.futures process pool / thread pool) x worker count by turnstile task bodies
    (harness/exec_tasks.py: task i finishes only after its predecessor in the TLC order; Start/End logged with pid and
    sequence number inside the workers), through map, starmap and submit; every ExecConvGen call is made on every backend
    and compared with the value TLC computed.
(T) code -> spec: the recorded worker logs + returned lists are validated by Trace_Executor.tla (events replayed through
    the Executor state; verdict clauses "order", "expected"), the convention calls and seeded random calls (worker
    counts 1..16) by Trace_ExecConv.tla, which re-computes the built-in's value."""
import concurrent.futures as cf
import json
import os
import random
import shutil
import signal
import subprocess
import sys
import time

from .. import lib
from ..exec_tasks import ARITY, TAKES_K, read_logs
from ..lib import CheckResult, MachineryError, Violation

BACKENDS = ["serial", "cf_threadpool", "cf_procpool", "mp_pool"]
MODEL_INVS = ["TypeOK", "WorkerBound", "ExactlyOnce", "OrderPreserved", "Reproducible", "Progress"]
PY = sys.executable
SMALL = min(4, int(os.environ.get("VERIF_TLC_WORKERS", "16")))      # small models run side by side: few TLC workers each


# ----------------------------------------------------------------------------- TLC side
def model_consts(tasks, workers, fifo, bug="none", device=False, rounds=1, seeds="{0}"):
    return {"TaskCounts": "{" + ",".join(map(str, tasks)) + "}", "WorkerCounts": "{" + ",".join(map(str, workers)) + "}",
            "Fifo": "TRUE" if fifo else "FALSE", "Device": "TRUE" if device else "FALSE", "Rounds": rounds,
            "Seeds": seeds, "Bug": f'"{bug}"'}


def tlc_models(tier):
    nmax, wmax = (5, 3) if tier == "quick" else (6, 4)
    tasks, workers = range(0, nmax + 1), range(1, wmax + 1)
    jobs = {
        "gen": lambda: lib.run_tlc("ExecutorGen", lib.cfg(constants=model_consts(tasks, workers, True), invariants=MODEL_INVS,
                                                           constraints=["Emit"]), lib.workdir("C65", "gen"), timeout=1500, workers=SMALL),
        "anyorder": lambda: lib.run_tlc("Executor", lib.cfg(constants=model_consts(tasks, workers, False), invariants=MODEL_INVS),
                                        lib.workdir("C65", "anyorder"), timeout=1500),
        "bug": lambda: lib.run_tlc("Executor", lib.cfg(constants=model_consts(range(0, 4), range(1, 3), True,
                                                                              bug="collect-as-completed"),
                                                       invariants=MODEL_INVS), lib.workdir("C65", "bug"), timeout=600, workers=2),
        "conv": lambda: lib.run_tlc("ExecConvGen", lib.cfg(constants={"Variants": "{0}" if tier == "quick" else "{0,1}",
                                                                      "Lens": "{0,1,3,5}" if tier == "quick" else "{0,1,2,3,5,8}"},
                                                           invariants=["AllDefined", "MapIsStarmapOfZip", "LengthLaw"],
                                                           constraints=["Emit"]), lib.workdir("C65", "conv"), timeout=1500, workers=SMALL),
    }
    with cf.ThreadPoolExecutor(4) as tp:
        futs = {k: tp.submit(f) for k, f in jobs.items()}
        res = {k: f.result() for k, f in futs.items()}
    for k in ("gen", "anyorder", "conv"):
        lib.require_ok(res[k], f"C65 model {k}")
    if res["bug"].invariant_violated != "OrderPreserved":
        raise MachineryError(f"model-level negative control: collect-as-completed did not violate OrderPreserved "
                             f"({res['bug'].invariant_violated}, {res['bug'].error})")
    return res, nmax, wmax


def uniq(js):
    seen, out = set(), []
    for j in js:
        k = json.dumps(j, sort_keys=True)
        if k not in seen:
            seen.add(k)
            out.append(j)
    return out


# ----------------------------------------------------------------------------- call classification (stable keys)
def feature(call):
    api, fn, its = call["api"], call["fn"], call["its"]
    if api == "starmap" and len({len(t) for t in its}) > 1:
        return "ragged-tuples"
    if fn in ("sq", "ident"):
        return "one-param-fn"
    if fn == "vsum":
        return "variadic-fn"
    if fn == "seven":
        return "zero-param-fn"
    if api == "map" and len({len(x) for x in its}) > 1:
        return "uneven-lengths"
    if call["haskw"]:
        return "kwargs"
    if (api == "map" and all(len(x) == 0 for x in its)) or (api == "starmap" and not its):
        return "empty"
    return "plain"


def random_call(rng):
    api = rng.choice(["map", "map", "starmap", "starmap", "submit"])
    fn = rng.choice(sorted(ARITY) if api == "submit" else sorted(set(ARITY) - {"seven"}))
    r = ARITY[fn] if ARITY[fn] >= 0 else rng.randint(0 if api == "submit" else 1, 3)
    val = lambda: rng.randint(-9, 9)
    haskw = fn in TAKES_K and rng.random() < 0.5
    if api == "submit":
        its = [[val() for _ in range(r)]]
    elif api == "map":
        L = rng.choice([0, 1, 2, 3, 4, 6, 9])
        lens = [L] * r
        if rng.random() < 0.25:
            lens = [max(0, L + rng.randint(-2, 2)) for _ in range(r)]
        its = [[val() for _ in range(n)] for n in lens]
    else:
        L = rng.choice([0, 1, 2, 3, 4, 6, 9])
        ragged = ARITY[fn] < 0 and rng.random() < 0.2
        its = [[val() for _ in range(rng.randint(1, 3) if ragged else r)] for _ in range(L)]
    return {"api": api, "fn": fn, "its": its, "haskw": haskw, "k": rng.randint(0, 5), "tuples": rng.random() < 0.3}


# ----------------------------------------------------------------------------- code side
def start_drivers(names):
    """One driver process per job name, started before the jobs exist (pennylane import overlaps the TLC generators)."""
    procs = {}
    for name in names:
        shutil.rmtree(lib.WORK / "C65" / f"drv_{name}", ignore_errors=True)     # logs of an earlier --keep run
        wd = lib.workdir("C65", f"drv_{name}")
        procs[name] = (subprocess.Popen([PY, "-W", "ignore", "-m", "harness.exec_driver", str(wd / "job.json"), str(wd / "out.jsonl")],
                                        cwd=str(lib.VERIF), stdout=subprocess.PIPE, stderr=subprocess.STDOUT, text=True,
                                        start_new_session=True), wd)
    return procs


def kill_drivers(procs):
    for p, _ in procs.values():
        try:
            os.killpg(p.pid, signal.SIGKILL)
        except (ProcessLookupError, PermissionError):
            pass


def run_drivers(procs, jobs, timeout):
    """jobs: {name: job dict} -> {name: {id: record}}; all drivers run in parallel."""
    for name, (p, wd) in procs.items():
        job = jobs.setdefault(name, {"backend": name.split("_w")[0], "items": []})
        job["dir"] = str(wd)
        (wd / "job.tmp").write_text(json.dumps(job))
        os.replace(wd / "job.tmp", wd / "job.json")
    out, t_end = {}, time.time() + timeout
    for name, (p, wd) in procs.items():
        try:
            so, _ = p.communicate(timeout=max(1.0, t_end - time.time()))
        except subprocess.TimeoutExpired:
            so = "(killed: driver timeout)"
        kill_drivers({name: (p, wd)})             # also the leaked pool workers of non-persistent executors
        recs = {}
        if (wd / "out.jsonl").exists():
            for line in (wd / "out.jsonl").read_text().splitlines():
                try:
                    r = json.loads(line)
                except ValueError:
                    continue
                recs[r["id"]] = r
        if -1 not in recs:
            raise MachineryError(f"driver {name} did not start: {so[-800:]}")
        out[name] = recs
    return out


def as_ints(v):
    return v if isinstance(v, list) else None


def run(tier, seed):
    rng = random.Random(seed)
    t0 = time.time()
    big_w = [1, 2, 3] if tier == "quick" else [1, 2, 3, 4, 8, 16]
    names = ["serial", "cf_threadpool"] + [f"{be}_w{w}" for be in ("cf_procpool", "mp_pool") for w in big_w]
    procs = start_drivers(names)
    try:
        return _run(tier, rng, procs, big_w, t0)
    finally:
        kill_drivers(procs)


def _run(tier, rng, procs, big_w, t0):
    res, nmax, wmax = tlc_models(tier)
    t_models = time.time() - t0
    scheds = uniq([{"n": j["n"], "w": j["w"], "corder": j["corders"][0], "out": j["outs"][0]} for j in res["gen"].json_lines])
    convs = uniq(res["conv"].json_lines)
    if len(scheds) < 20 or len(convs) < 100:
        raise MachineryError(f"generators produced too little: {len(scheds)} schedules, {len(convs)} calls")
    if tier == "thorough" and len(scheds) > 1500:
        keep = [s for s in scheds if s["n"] <= 5]
        rest = [s for s in scheds if s["n"] > 5]
        scheds = keep + rng.sample(rest, 1500 - len(keep)) if len(keep) < 1500 else keep
    nrand = 150 if tier == "quick" else 1200
    rcalls = [random_call(rng) for _ in range(nrand)]

    # ---- jobs: one driver per backend (thorough: process pools split per worker count)
    jobs, meta = {}, {}

    def add(jname, be, item, m):
        job = jobs.setdefault(jname, {"backend": be, "items": []})
        item["id"] = len(job["items"])
        job["items"].append(item)
        meta[(jname, item["id"])] = dict(m, backend=be)

    for be in BACKENDS:
        proc = be in ("cf_procpool", "mp_pool")
        for ci, c in enumerate(convs):
            w = 1 if be == "serial" else 1 + ci % 3
            pers = [True] + ([False] if ci % 16 == 0 else []) if proc else [False] + ([True] if ci % 8 == 0 else [])
            for p in pers:
                add(f"{be}_w{w}" if proc else be, be, {"kind": "conv", "workers": w, "persist": p, "call": c["call"]},
                    {"kind": "conv", "call": c["call"], "exp": c["exp"], "src": "gen"})
        for ci, c in enumerate(rcalls):
            w = 1 if be == "serial" else (rng.choice(big_w) if proc else rng.randint(1, 16))
            add(f"{be}_w{w}" if proc else be, be, {"kind": "conv", "workers": w, "persist": proc or ci % 2 == 0, "call": c},
                {"kind": "conv", "call": c, "exp": None, "src": "random", "w": w})
        for si, s in enumerate(scheds):
            if be == "serial" and s["w"] != 1:
                continue
            apis = ["map", "starmap"] + (["submit"] if s["w"] == 1 else [])
            for api in apis:
                pers = ([True] + ([False] if si % 20 == 0 else [])) if proc else [si % 2 == 0]
                for p in pers:
                    add(f"{be}_w{s['w']}" if proc else be, be,
                        {"kind": "sched", "workers": s["w"], "persist": p, "api": api, "n": s["n"], "corder": s["corder"]},
                        {"kind": "sched", "api": api, "sched": s, "persist": p})
    got = run_drivers(procs, jobs, timeout=900 if tier == "quick" else 3000)   # generous: a loaded machine is not a machinery failure
    t_drivers = time.time() - t0 - t_models

    # ---- collect
    conv_traces, conv_meta, sched_traces, sched_meta = [], [], [], []
    missing = 0
    hangs = []
    for jname, job in jobs.items():
        logs = read_logs(job["dir"])
        for it in job["items"]:
            m = meta[(jname, it["id"])]
            r = got[jname].get(it["id"])
            if r is None:
                missing += 1
                continue
            exc = r["exc"]["cls"] if r["exc"] else ""
            if exc == "Timeout":
                hangs.append((m, r))
            if m["kind"] == "conv":
                call = m["call"]
                bi = r.get("builtin")
                if m["exp"] is not None and bi != (m["exp"][0] if call["api"] == "submit" else m["exp"]):
                    raise MachineryError(f"oracle self-check: ExecConv.Expected {m['exp']} differs from the Python built-in {bi} on {call}")
                v = r["res"]
                if call["api"] == "submit":
                    shape, ints = ("scalar", [v]) if isinstance(v, int) else ("other", [])
                else:
                    shape, ints = ("list", v) if isinstance(v, list) else ("other", [])
                if exc:
                    shape, ints = "other", []
                conv_traces.append({"call": {k: call[k] for k in ("api", "fn", "its", "haskw", "k")}, "shape": shape, "res": ints, "exc": exc})
                conv_meta.append(dict(m, rec=r, workers=it["workers"], persist=it["persist"]))
            else:
                s = m["sched"]
                evs = [{"e": e["e"], "i": e["i"], "v": e.get("v", 0)} for e in logs.get(str(it["id"]), [])]
                out = as_ints(r["res"])
                sched_traces.append({"n": s["n"], "w": s["w"], "kind": "sched", "same": [],
                                     "runs": [{"ev": evs, "out": out if out is not None and not exc else [],
                                               "exc": exc or ("" if out is not None else "NotAList"), "flags": True,
                                               "intended": s["corder"]}]})
                sched_meta.append(dict(m, rec=r, evs=logs.get(str(it["id"]), [])))
    total_items = sum(len(j["items"]) for j in jobs.values())
    if missing and not hangs:
        raise MachineryError(f"{missing} of {total_items} calls have no record (driver died or timed out)")

    # ---- negative controls (must be rejected by TLC)
    neg_conv, neg_sched = [], []
    for i, t in enumerate(list(conv_traces)):
        if t["shape"] == "list" and len(t["res"]) >= 2 and len(neg_conv) < 6 and i % 7 == 0 and conv_meta[i]["exp"] == t["res"]:
            bad = json.loads(json.dumps(t))
            bad["res"][0], bad["res"][1] = bad["res"][1] + 1, bad["res"][0]
            neg_conv.append(len(conv_traces))
            conv_traces.append(bad)
    for i, t in enumerate(list(sched_traces)):
        run0 = t["runs"][0]
        if (len(run0["out"]) >= 3 and len(run0["ev"]) == 2 * t["n"] and len(neg_sched) < 8 and i % 5 == 0
                and run0["out"] == sched_meta[i]["sched"]["out"]):
            bad = json.loads(json.dumps(t))
            if len(neg_sched) % 2 == 0:      # the caller's list in completion order instead of input order
                bad["runs"][0]["out"] = [1000 * k for k in run0["intended"]]
                if bad["runs"][0]["out"] == run0["out"]:
                    bad["runs"][0]["out"] = list(reversed(run0["out"]))
            else:                            # a value changed between the worker and the caller
                bad["runs"][0]["ev"] = [dict(e, v=e["v"] + 1) if e["e"] == "e" and e["i"] == 2 else e for e in bad["runs"][0]["ev"]]
            neg_sched.append(len(sched_traces))
            sched_traces.append(bad)

    # ---- TLC decides
    wd_c, wd_s = lib.workdir("C65", "trace_conv"), lib.workdir("C65", "trace_sched")
    (wd_c / "traces.json").write_text(json.dumps(conv_traces))
    (wd_s / "traces.json").write_text(json.dumps(sched_traces))
    with cf.ThreadPoolExecutor(2) as tp:
        f1 = tp.submit(lambda: lib.run_tlc("Trace_ExecConv", lib.cfg(init="TInit", next_="TNext", constants={"NTRACES": len(conv_traces)}),
                                           wd_c, env={"TRACE_FILE": str(wd_c / "traces.json")}, timeout=1500))
        f2 = tp.submit(lambda: lib.run_tlc("Trace_Executor", lib.cfg(init="TInit", next_="TNext", constants=dict(
            model_consts([0], [1], True), NTRACES=len(sched_traces))), wd_s, env={"TRACE_FILE": str(wd_s / "traces.json")}, timeout=1500))
        rc_, rs_ = f1.result(), f2.result()
    lib.require_ok(rc_, "Trace_ExecConv")
    lib.require_ok(rs_, "Trace_Executor")
    vc = {t[1] - 1: t[2] for t in rc_.tuples if t[0] == "V"}
    vs = {t[1] - 1: (t[2], t[3]) for t in rs_.tuples if t[0] == "V"}
    if len(vc) != len(conv_traces) or len(vs) != len(sched_traces):
        raise MachineryError(f"verdicts not total: {len(vc)}/{len(conv_traces)} {len(vs)}/{len(sched_traces)}")
    rej = sum(vc[i] not in ("ok", "undefined") for i in neg_conv) + sum(vs[i][0] != "ok" for i in neg_sched)
    if rej != len(neg_conv) + len(neg_sched):
        raise MachineryError(f"negative controls rejected: {rej}/{len(neg_conv) + len(neg_sched)}")
    # a control can only be built from a passing trace: its absence is tolerated only when nothing passes (reported below)
    if (not neg_conv and any(vc[i] == "ok" for i in range(len(conv_meta)))) or \
            (not neg_sched and all(vs[i][0] == "ok" for i in range(len(sched_meta)))):
        raise MachineryError(f"negative controls missing: {len(neg_conv)} convention, {len(neg_sched)} schedule")

    # ---- verdicts -> violations (grouped by stable key)
    groups, undefined = {}, 0
    replay_disagree = oracle_disagree = 0
    for i, m in enumerate(conv_meta):
        v = vc[i]
        if v == "undefined":
            undefined += 1
            continue
        bi = m["rec"].get("builtin")
        if m["exp"] is None and isinstance(bi, dict) and "raises" in bi:
            raise MachineryError(f"Trace_ExecConv calls {m['call']} defined but the built-in raises {bi}")
        if m["exp"] is None:            # random calls: the spec's verdict must agree with the real built-in's value
            t = conv_traces[i]
            got = t["res"][0] if (m["call"]["api"] == "submit" and t["res"]) else t["res"]
            oracle_disagree += (t["exc"] == "" and t["shape"] != "other" and got == bi) != (v == "ok")
        if m["exp"] is not None:        # REPLAY comparator (expected value emitted by TLC) must agree with the trace verdict
            t = conv_traces[i]
            same = t["exc"] == "" and t["shape"] != "other" and t["res"] == m["exp"]
            replay_disagree += same != (v == "ok")
        if v != "ok":
            c = m["call"]
            key = f"{c['api']}:{feature(c)}:{m['backend']}"
            groups.setdefault(key, []).append((v, m))
    if replay_disagree:
        raise MachineryError(f"REPLAY comparator and Trace_ExecConv disagree on {replay_disagree} calls")
    if oracle_disagree:
        raise MachineryError(f"ExecConv.Expected and the Python built-ins disagree on {oracle_disagree} random calls")
    if undefined > len(conv_meta) // 3:
        raise MachineryError("too many generated calls are undefined for the built-in")
    viol = []
    sgroups = {}
    drift, realised, out_of_order, fully_observed = 0, 0, 0, 0
    nontriv = set()
    for i, m in enumerate(sched_meta):
        v, d = vs[i]
        drift += d
        s = m["sched"]
        ends = [e["i"] for e in m["evs"] if e["e"] == "e"]
        fully_observed += len(m["evs"]) == 2 * s["n"]
        if ends == s["corder"]:
            realised += 1
            if ends != sorted(ends):
                out_of_order += 1
                nontriv.add((m["backend"], m["api"], s["w"], tuple(ends)))
        if v != "ok":
            sgroups.setdefault(f"sched:{m['api']}:{v}:{m['backend']}", []).append((v, m))
    for key, items in sorted(sgroups.items()):
        v, m = items[0]
        s = m["sched"]
        viol.append(Violation(key=key, detail=(
            f"{len(items)} scheduled call(s) fail clause '{v}'; e.g. {m['backend']}(max_workers={s['w']}, persist={m['persist']})."
            f"{m['api']} over {s['n']} tasks finishing in order {s['corder']} returned {m['rec']['exc'] or m['rec']['res']}, "
            f"sequential map gives {s['out']}"),
            replay={"backend": m["backend"], "api": m["api"], "sched": s, "got": m["rec"],
                    "events": [(e["e"], e["i"], e["pid"], e["seq"]) for e in m["evs"]]}))
    for m, r in hangs:
        viol.append(Violation(key=f"hang:{m['kind']}:{m['backend']}", detail=f"call did not return: {m.get('call') or m.get('sched')}",
                              replay={"meta": {k: v for k, v in m.items() if k != "rec"}}))
    for key, items in sorted(groups.items()):
        v, m = items[0]
        c, r = m["call"], m["rec"]
        kw = f", k={c['k']}" if c["haskw"] else ""
        kinds = sorted({f"{x[0]}/{(x[1]['rec']['exc'] or {}).get('cls', '-')}" for x in items})
        viol.append(Violation(key=key, detail=(
            f"{len(items)} call(s) differ from the built-in [{', '.join(kinds)}]; e.g. {m['backend']}(max_workers={m['workers']}, "
            f"persist={m['persist']}).{c['api']}({c['fn']}, {', '.join(map(str, c['its'])) if c['api'] != 'starmap' else c['its']}{kw}) "
            f"-> {r['exc'] or r['res']}; built-in returns {r.get('builtin')}"),
            replay={"backend": m["backend"], "workers": m["workers"], "persist": m["persist"], "call": c, "got": r}))
    # ---- vacuity
    per_be = {be: sum(1 for k in nontriv if k[0] == be) for be in BACKENDS if be != "serial"}
    if min(per_be.values()) < 10 and not sgroups and not hangs:
        raise MachineryError(f"vacuity: out-of-order completion orders realised per backend: {per_be}")
    if fully_observed < 0.95 * len(sched_meta) and not sgroups and not hangs:
        raise MachineryError(f"vacuity: only {fully_observed}/{len(sched_meta)} scheduled calls fully observed in the worker logs")
    samples = []
    for i, m in enumerate(sched_meta):
        if m["backend"] == "mp_pool" and m["sched"]["n"] >= 4 and [e["i"] for e in m["evs"] if e["e"] == "e"] != sorted(m["sched"]["corder"]):
            samples.append({"backend": m["backend"], "api": m["api"], "workers": m["sched"]["w"], "completion_order": m["sched"]["corder"],
                            "events": [f"{e['e']}{e['i']}@pid{e['pid']}#{e['seq']}" for e in m["evs"]], "returned": m["rec"]["res"],
                            "verdict": vs[i][0]})
            if len(samples) == 2:
                break
    for i, m in enumerate(conv_meta):
        if vc[i] == "ok" and m["call"]["haskw"] and m["src"] == "random" and len(samples) < 4:
            samples.append({"backend": m["backend"], "workers": m["workers"], "call": m["call"], "returned": m["rec"]["res"], "verdict": "ok"})
    tl = [res["gen"], res["anyorder"], res["bug"], res["conv"], rc_, rs_]
    cov = {"states": sum(t.distinct for t in tl), "transitions": sum(t.generated for t in tl),
           "traces_validated_against_impl": len(conv_meta) + len(sched_meta), "evaluations": len(conv_meta) + len(sched_meta),
           "distinct_nontrivial": len(nontriv),
           "rule": "non-trivial = distinct (backend, api, worker count, completion order) where the TLC-chosen completion order is "
                   "not the input order and the worker logs show that exactly this order happened",
           "samples": samples, "exhaustive": True,
           "model": {"module": "Executor", "max_tasks": nmax, "max_workers": wmax, "states_fifo": res["gen"].distinct,
                     "states_any_dispatch": res["anyorder"].distinct, "invariants": MODEL_INVS,
                     "bug_variant_rejected": res["bug"].invariant_violated},
           "schedules_from_tlc": len(scheds), "scheduled_calls": len(sched_meta), "schedules_realised": realised,
           "out_of_order_realised": out_of_order, "out_of_order_per_backend": per_be,
           "convention_calls_from_tlc": len(convs), "random_calls": nrand, "convention_calls_run": len(conv_meta),
           "calls_undefined_for_builtin": undefined,
           "model_drift": {"start_not_head_of_queue_as_logged": drift % 1000, "more_than_w_observed_running": drift // 1000 % 1000,
                           "other": drift // 1000000},
           "phase_s": {"tlc_models": round(t_models, 1), "drivers": round(t_drivers, 1), "trace_validation": round(time.time() - t0 - t_models - t_drivers, 1)}, "negative_controls_rejected": rej,
           "failing_call_groups": {k: len(v) for k, v in groups.items()},
           "failing_schedule_groups": {k: len(v) for k, v in sgroups.items()}, "calls_not_returning": len(hangs), "worker_counts_random": "1..16 (threads), " + str(big_w) + " (process pools)"}
    return CheckResult(coverage=cov, violations=viol, assumptions=[
        "task functions are pure, picklable, module-level functions over small integers (table in ExecConv.tla)",
        "calls on which the Python built-in itself raises carry no obligation",
        "pool dispatch is first-in-first-out (all native pools); arbitrary dispatch is covered on the model only"])
