"""C61 Optimizers apply their documented update rules.

(M) spec/sys/Optimizers.tla transcribes the documented update rules of GradientDescent, Momentum, NesterovMomentum, Adagrad,
    RMSProp, Adam, QNG and MomentumQNG over exact numbers: rationals for hyperparameters / gradients / accumulators, algebraic
    numbers  r + sum c_j sqrt(q_j)  for parameters that went through the square root of an adaptive rule (a perfect square is
    folded into the rational part).  OptimizersGen.tla explores EVERY history of <= MaxSteps public calls (step, step_and_cost,
    step_and_cost with grad_fn, reset, recompute_tensor=False) over an alphabet of quadratic / coupled / linear objectives with
    integer coefficients, for every optimizer x hyperparameter set x argument layout (1-3 arguments, non-trainable ones mixed in,
    scalars and vectors), and TLC checks on the model the closed forms of the accumulator recurrences, frozen non-trainable
    arguments, dyadic values (= float64 arithmetic on them is exact) and the first adaptive step.
(R) spec -> code: every maximal history is replayed through the real optimizer objects (autograd gradients of the same objective);
    new parameters, returned cost, accumulation / fm / sm / t are compared call by call with the values TLC emitted.
(T) code -> spec: those recordings and seeded random histories (wider hyperparameters, 5 calls) are converted to rationals and
    Trace_Optimizers.tla re-validates each call exactly (TLC decides); where a square root is irrational the value is bridged:
    TLC emits the algebraic number and the harness compares floats.
(S) Rotosolve / Rotoselect: spec/sys/Roto.tla states the objective family  sum_d A s_d + sum B s_d s_e  (s_d = sin(fq_d x_d + ph)) with a
    RATIONAL frequency fq_d = fn/fd per parameter (1, integers > 1, non-integers below and above 1: 1/4, 1/3, 1/2, 2/3, 3/4, 5/4, 3/2),
    lattice phases in units of pi/12, parameter d on the lattice pi/(12 fn), A odd, B a multiple of 4, every sine in {-1, -1/2, 0, 1/2, 1}
    (start points a multiple of pi/2 or pi/6 off a multiple of pi), in integer arithmetic (doubled sines, 4 F); a one-parameter
    restriction is the sinusoid a sin(fq theta + ph) whose exact minima are sin = -sign(a).  RotoGen.tla runs the coordinate sweep one
    sub-step per TLC transition and TLC checks SubMin (no better value at s_d = -1 / +1 under any generator: the global minimum, F being
    affine in s_d), Descent, Exact; its histories are replayed through RotosolveOptimizer (analytic branch; the frequency handed over as
    nums_frequency = 1, as nums_frequency taking precedence over a contradicting spectrum, or as a spectrum with one positive frequency
    spelled [0, f] / [-f, 0, f] / [f] / unsorted / tuple / ndarray; several arguments, vectors, non-trainable arguments, full_output) and
    RotoselectOptimizer, and the recorded results are decided by Trace_Roto.tla (minimiser condition mod the period 2 pi / fq, best
    generator, cost before the call, sub-step minima).
Not covered (partial): the numeric multi-frequency branch of Rotosolve, QNG's metric computed from a QNode, SPSA / QNSPSA / ShotAdaptive /
Riemannian / adaptive optimizers, torch / jax interfaces and the *QJIT optimizers.
"""
import json
import math
import random
from fractions import Fraction

import numpy as np

import pennylane as qp
from pennylane import numpy as pnp

from .. import lib
from ..lib import CheckResult, Violation

PID = "C61"
TOL = 1e-9                 # float bridge: |observed - expected| <= TOL * max(1, |expected|)
SNAP_DEN = 1 << 20         # a float stands for the rational with denominator <= SNAP_DEN within TOL/10 of it (Trace_Optimizers!Cmp)
KINDS = ("gd", "momentum", "nesterov", "adagrad", "rmsprop", "adam", "qng", "momentum_qng")
RESET_KINDS = ("momentum", "nesterov", "adagrad", "rmsprop", "adam")
QNG_KINDS = ("qng", "momentum_qng")
ACC_KINDS = ("momentum", "nesterov", "adagrad", "rmsprop")
INVARIANTS = ["MomentumClosed", "AdagradClosed", "RmsClosed", "AdamClosed", "GDClosed", "MqngForms", "Frozen", "Dyadic",
              "AdaptiveDyadic", "FirstAdaptiveStep"]


# ----------------------------------------------------------------------------- data <-> TLA+
def tla(v):
    if isinstance(v, bool):
        return "TRUE" if v else "FALSE"
    if isinstance(v, int):
        return str(v)
    if isinstance(v, str):
        return '"%s"' % v
    if isinstance(v, (list, tuple)):
        return "<<" + ", ".join(tla(x) for x in v) + ">>"
    if isinstance(v, dict):
        return "[" + ", ".join(f"{k} |-> {tla(x)}" for k, x in v.items()) + "]"
    raise TypeError(v)


def tla_set(xs):
    return "{" + ", ".join(tla(x) for x in xs) + "}"


def rq(n, d=1):
    f = Fraction(n, d)
    return [f.numerator, f.denominator]


def fl(p):
    return p[0] / p[1]


def make_cfg(kind, eta=(1, 4), m=(1, 2), b2=(3, 4), eps=(0, 1), lam=(0, 1), train=(True,), D=1, x0=None):
    return {"kind": kind, "eta": rq(*eta), "m": rq(*m), "b2": rq(*b2), "eps": rq(*eps), "lam": rq(*lam),
            "train": list(train), "D": D, "x0": x0}


X0 = {1: [[rq(1)], [rq(-2)], [rq(3)]], 2: [[rq(1), rq(-1, 2)], [rq(-2), rq(1)], [rq(3), rq(1, 2)]]}
LAYOUTS = [((True,), 1), ((True, True), 2), ((True, False, True), 1), ((False, True), 2)]
HYPER = {   # kind -> hyperparameter sets (dyadic); decay / beta2 = 0 and eps = 0 keep every square root rational
    "gd": [{"eta": (1, 2)}],
    "momentum": [{}, {"eta": (1, 2), "m": (1, 4)}],
    "nesterov": [{}, {"eta": (1, 2), "m": (1, 4)}],
    "adagrad": [{}, {"eps": (1, 4)}],
    "rmsprop": [{"m": (0, 1)}, {"m": (3, 4)}, {"m": (1, 2), "eps": (1, 4)}],
    "adam": [{"b2": (0, 1)}, {"b2": (3, 4)}, {"b2": (3, 4), "eps": (1, 4)}],
    "qng": [{}, {"lam": (1, 2)}],
    "momentum_qng": [{}, {"m": (1, 4), "lam": (1, 2)}],
}
OBJ = {"lin1": {"q": [0, 0, 0], "b": [2, -1, 3], "r": 0, "m": [1, 0, 2]},
       "lin2": {"q": [0, 0, 0], "b": [-3, 2, 1], "r": 0, "m": [2, 1, 1]},
       "quad": {"q": [1, 0, -1], "b": [-1, 2, 0], "r": 0, "m": [2, 1, 1]},
       "coup": {"q": [0, 1, 0], "b": [1, 0, -2], "r": 1, "m": [1, 1, 3]}}


def gen_inputs(tier):
    cfgs = [make_cfg(k, train=tr, D=D, x0=X0[D][:len(tr)], **hp) for k in KINDS for hp in HYPER[k] for tr, D in LAYOUTS]
    adaptive = ["adagrad", "rmsprop", "adam"]      # the second linear objective keeps their histories going once x is irrational
    calls = [{"k": "step", "rc": True, "o": OBJ["lin1"], "ks": []}, {"k": "cost", "rc": True, "o": OBJ["quad"], "ks": []},
             {"k": "cost_gf", "rc": True, "o": OBJ["coup"], "ks": []}, {"k": "cost", "rc": True, "o": OBJ["lin2"], "ks": adaptive},
             {"k": "reset", "rc": True, "o": OBJ["lin1"], "ks": []}, {"k": "cost", "rc": False, "o": OBJ["lin1"], "ks": []}]
    for i, c in enumerate(cfgs):
        c["id"] = i
    for i, c in enumerate(calls):
        c["id"] = i
    return cfgs, calls, (3 if tier == "quick" else 4)


# ----------------------------------------------------------------------------- the real code
def make_opt(cfg):
    k, eta, m, b2, eps, lam = cfg["kind"], fl(cfg["eta"]), fl(cfg["m"]), fl(cfg["b2"]), fl(cfg["eps"]), fl(cfg["lam"])
    if k == "gd":
        return qp.GradientDescentOptimizer(stepsize=eta)
    if k == "momentum":
        return qp.MomentumOptimizer(stepsize=eta, momentum=m)
    if k == "nesterov":
        return qp.NesterovMomentumOptimizer(stepsize=eta, momentum=m)
    if k == "adagrad":
        return qp.AdagradOptimizer(stepsize=eta, eps=eps)
    if k == "rmsprop":
        return qp.RMSPropOptimizer(stepsize=eta, decay=m, eps=eps)
    if k == "adam":
        return qp.AdamOptimizer(stepsize=eta, beta1=m, beta2=b2, eps=eps)
    if k == "qng":
        return qp.QNGOptimizer(stepsize=eta, lam=lam)
    if k == "momentum_qng":
        return qp.MomentumQNGOptimizer(stepsize=eta, momentum=m, lam=lam)
    raise lib.MachineryError(f"unknown optimizer kind {k}")


def make_objective(o, n):
    """The objective family of Optimizers.tla (the only thing spec and harness share)."""
    q, b, r = o["q"], o["b"], o["r"]

    def f(*args):
        tot = 0.0
        for i, a in enumerate(args):
            tot = tot + pnp.sum(q[i] * a ** 2 + b[i] * a)
        if n >= 2 and r != 0:
            tot = tot + r * pnp.sum(args[0] * args[-1])
        return tot
    return f


def make_metric(o, cfg):
    ntr, D = sum(cfg["train"]), cfg["D"]

    def one(j):
        a, b, d = o["m"][0] + j, o["m"][1], o["m"][2]
        return np.array(float(a)) if D == 1 else np.array([[float(a), float(b)], [float(b), float(d)]])

    def mfn(*args, **kwargs):
        return tuple(one(j) for j in range(ntr)) if ntr >= 2 else one(0)
    return mfn


def vec(v, D):
    a = np.asarray(v, dtype=float)
    if a.shape not in ((), (D,)) or (a.shape == () and D != 1):
        raise ValueError(f"shape {a.shape}")
    return [float(z) for z in a.reshape(-1)]


def execute(job):
    """Drive one optimizer object through a history.  -> list of observations (floats), one per call; stops at an exception."""
    cfg, calls = job
    opt = make_opt(cfg)
    n, D = len(cfg["train"]), cfg["D"]
    args = []
    for i in range(n):
        vals = [fl(p) for p in cfg["x0"][i]]
        args.append(pnp.array(vals[0] if D == 1 else vals, requires_grad=cfg["train"][i]))
    zeros = [[0.0] * D for _ in range(n)]
    obs = []
    for call in calls:
        ob = {"x": None, "cost": 0.0, "acc": zeros, "sm": zeros, "t": 0, "exc": "", "msg": ""}
        try:
            if call["k"] == "reset":
                opt.reset()
                ob["x"] = [vec(a, D) for a in args]
                obs.append(ob)
                continue
            f = make_objective(call["o"], n)
            kw = {}
            if cfg["kind"] in QNG_KINDS:
                kw = {"metric_tensor_fn": make_metric(call["o"], cfg), "recompute_tensor": call["rc"]}
            if call["k"] == "step":
                new = opt.step(f, *args, **kw)
            elif call["k"] == "cost":
                new, cost = opt.step_and_cost(f, *args, **kw)
                ob["cost"] = float(cost)
            else:
                new, cost = opt.step_and_cost(f, *args, grad_fn=lambda *a, _f=f, **k: qp.grad(_f)(*a, **k), **kw)
                ob["cost"] = float(cost)
            new = [new] if n == 1 else list(new)
            if len(new) != n:
                raise ValueError(f"{len(new)} arguments returned for {n}")
            ob["x"] = [vec(a, D) for a in new]
            if cfg["kind"] in ACC_KINDS:
                ob["acc"] = [vec(opt.accumulation[i], D) if cfg["train"][i] else zeros[i] for i in range(n)]
            elif cfg["kind"] == "adam":
                ob["acc"] = [vec(opt.fm[i], D) if cfg["train"][i] else zeros[i] for i in range(n)]
                ob["sm"] = [vec(opt.sm[i], D) if cfg["train"][i] else zeros[i] for i in range(n)]
                ob["t"] = int(opt.t)
            args = new
        except lib.MachineryError:
            raise
        except Exception as e:  # noqa: BLE001  (the exception class is the observation)
            ob["exc"], ob["msg"] = type(e).__name__, str(e)[:200]
            ob["x"] = [vec(a, D) for a in args]
            obs.append(ob)
            break
        obs.append(ob)
    return obs


def execute_all(jobs, fn=None):
    fn = fn or execute
    if len(jobs) < 1500:
        return [fn(j) for j in jobs]
    import multiprocessing as mp
    with mp.get_context("fork").Pool(8) as pool:
        return pool.map(fn, jobs, chunksize=64)


# ----------------------------------------------------------------------------- float bridge
def alg_float(a):
    """<<n, d, c1n, c1d, q1n, q1d, ...>> = n/d + sum c_j sqrt(q_j)  (Optimizers!AlgOut)"""
    return a[0] / a[1] + sum((a[j] / a[j + 1]) * math.sqrt(a[j + 2] / a[j + 3]) for j in range(2, len(a), 4))


def step_rec(t):
    return {"x": t[1], "cost": t[2], "acc": t[3], "sm": t[4], "t": t[5], "shc": t[6]}


def close(o, e):
    return math.isfinite(o) and abs(o - e) <= TOL * max(1.0, abs(e))


def to_rat(v):
    """float -> the rational <<n, d>> it stands for (exactly, or the nearest with denominator <= SNAP_DEN)."""
    v = float(v)
    if not math.isfinite(v):
        return [0, 0]
    ex = Fraction(v)
    q = ex if ex.denominator <= SNAP_DEN else ex.limit_denominator(SNAP_DEN)
    if abs(q.numerator) >= (1 << 30):
        return [0, 0]
    return [q.numerator, q.denominator]


def obs_to_trace(ob, kind):
    return {"x": [[to_rat(v) for v in a] for a in ob["x"]], "cost": to_rat(ob["cost"]),
            "acc": [[to_rat(v) for v in a] for a in ob["acc"]] if kind in ACC_KINDS or kind == "adam" else [],
            "sm": [[to_rat(v) for v in a] for a in ob["sm"]] if kind == "adam" else [],
            "t": ob["t"], "exc": ob["exc"]}


def compare(cfg, calls, exps, obs, stats):
    """REPLAY comparator: expected (TLC) vs observed (code), call by call, same clause order as Trace_Optimizers.
    -> (clause, step, detail) of the first failing non-cost clause or None; (costclause, step, detail) or None."""
    kind, train = cfg["kind"], cfg["train"]
    bad = costbad = None
    for l, (call, ex, ob) in enumerate(zip(calls, exps, obs)):
        if call["k"] == "reset":
            continue
        if ob["exc"]:
            bad = ("raised", l, f"{ob['exc']}: {ob['msg']}")
            break
        stats["calls"] += 1
        clause = None

        def chk(name, got, want_alg=None, want=None):
            nonlocal clause
            w = alg_float(want_alg) if want_alg is not None else fl(want)
            stats["values"] += 1
            if want_alg is not None and len(want_alg) > 2:
                stats["irrational"] += 1
            if got == w:
                stats["bit_exact"] += 1
            if clause is None and not close(got, w):
                clause = (name, l, f"{name}: observed {got!r}, documented rule gives {w!r}")
        tr = [i for i in range(len(train)) if train[i]]
        if kind in ACC_KINDS:
            for i in tr:
                for e in range(cfg["D"]):
                    chk("acc", ob["acc"][i][e], want=ex["acc"][i][e])
        if kind == "adam":
            stats["values"] += 1
            if ob["t"] != ex["t"] and clause is None:
                clause = ("t", l, f"t: observed {ob['t']}, expected {ex['t']}")
            for name, fld in (("fm", "acc"), ("sm", "sm")):
                for i in tr:
                    for e in range(cfg["D"]):
                        chk(name, ob[fld][i][e], want=ex[fld][i][e])
        for i in range(len(train)):
            if not train[i]:
                for e in range(cfg["D"]):
                    chk("frozen", ob["x"][i][e], want_alg=ex["x"][i][e])
        for i in tr:
            for e in range(cfg["D"]):
                chk("x", ob["x"][i][e], want_alg=ex["x"][i][e])
        if call["k"] in ("cost", "cost_gf"):
            w = alg_float(ex["cost"])
            stats["values"] += 1
            stats["costs"] += 1
            if not close(ob["cost"], w) and costbad is None:
                sh = fl(ex["shc"])
                name = "cost-at-shifted-point" if kind == "nesterov" and len(ex["cost"]) == 2 and close(ob["cost"], sh) else "cost"
                costbad = (name, l, f"step_and_cost returned {ob['cost']!r}, the objective at the pre-step parameters is {w!r}")
        if clause:
            bad = clause
            break
    return bad, costbad


# ----------------------------------------------------------------------------- seeded random histories
def random_job(rng, steps):
    kind = rng.choice(KINDS)
    n = rng.choice((1, 2, 2, 3))
    train = [rng.random() < 0.7 for _ in range(n)]
    if not any(train):
        train[rng.randrange(n)] = True
    D = rng.choice((1, 2))
    dy = lambda lo, hi, den: rq(rng.randint(lo, hi), den)      # noqa: E731
    cfg = {"kind": kind, "eta": rq(*rng.choice(((1, 8), (1, 4), (1, 2), (1, 1), (3, 4)))),
           "m": rq(*rng.choice(((0, 1), (1, 4), (1, 2), (3, 4)))), "b2": rq(*rng.choice(((0, 1), (1, 4), (1, 2), (3, 4)))),
           "eps": rq(*rng.choice(((0, 1), (0, 1), (1, 4), (1, 16), (1, 1)))), "lam": rq(*rng.choice(((0, 1), (1, 2), (1, 1)))),
           "train": train, "D": D, "x0": [[dy(-8, 8, 4) for _ in range(D)] for _ in range(n)]}
    adaptive = kind in ("adagrad", "rmsprop", "adam")
    calls = []
    for _ in range(steps):
        if kind in RESET_KINDS and rng.random() < 0.12:
            calls.append({"k": "reset", "rc": True, "o": OBJ["lin1"]})
            continue
        lin = adaptive and rng.random() < 0.7
        o = {"q": [0 if lin else rng.randint(-1, 1) for _ in range(3)], "b": [rng.randint(-3, 3) for _ in range(3)],
             "r": 0 if lin else rng.randint(-1, 1), "m": [rng.randint(1, 3), rng.randint(-1, 1), rng.randint(1, 3)]}
        calls.append({"k": rng.choice(("step", "cost", "cost", "cost_gf")), "rc": not (kind in QNG_KINDS and rng.random() < 0.3), "o": o})
    return cfg, calls


# ----------------------------------------------------------------------------- main
def hist_key(cfg, calls):
    return json.dumps([cfg, calls], sort_keys=True)


def describe(cfg, calls):
    hp = {k: f"{cfg[k][0]}/{cfg[k][1]}" for k in ("eta", "m", "b2", "eps", "lam")}
    return {"optimizer": cfg["kind"], "hyper": hp, "trainable": cfg["train"], "D": cfg["D"],
            "x0": [[f"{p[0]}/{p[1]}" for p in a] for a in cfg["x0"]],
            "calls": [c["k"] if c["k"] == "reset" else {"call": c["k"], "recompute_tensor": c["rc"], "q": c["o"]["q"], "b": c["o"]["b"],
                                                        "r": c["o"]["r"], "metric": c["o"]["m"]} for c in calls]}


def merge_verdicts(r, n, what):
    """<<"V", tid, clause, step, ...>> + <<"C", tid, costclause, step>> -> {index: (clause, step, costclause, coststep, ...)}"""
    v = {t[1] - 1: t[2:] for t in r.tuples if t[0] == "V"}
    c = {t[1] - 1: t[2:] for t in r.tuples if t[0] == "C"}
    if len(v) != n or len(c) != n:
        raise lib.MachineryError(f"{what}: verdicts not total: {len(v)} / {len(c)} of {n}")
    return {i: (v[i][0], v[i][1], c[i][0], c[i][1], *v[i][2:]) for i in range(n)}


def run_trace(traces, wd):
    cfgs, objs, ci, oi, tr = [], [], {}, {}, []

    def intern(table, index, rec):
        key = json.dumps(rec, sort_keys=True)
        if key not in index:
            table.append(rec)
            index[key] = len(table)
        return index[key]
    for t in traces:
        cfg = {k: v for k, v in t["cfg"].items() if k != "id"}
        tr.append({"c": intern(cfgs, ci, cfg), "e": t["emit"],
                   "k": [[c["k"], c["rc"], intern(objs, oi, c["o"])] for c in t["calls"]],
                   "o": [[o["x"], o["cost"], o["acc"], o["sm"], o["t"], o["exc"]] for o in t["obs"]]})
    (wd / "traces.json").write_text(json.dumps({"cfgs": cfgs, "objs": objs, "tr": tr}, separators=(",", ":")))
    r = lib.run_tlc("Trace_Optimizers", lib.cfg(init="TInit", next_="TNext", constants={"NTRACES": len(traces)}), wd,
                    env={"TRACE_FILE": str(wd / "traces.json")}, timeout=3000)
    lib.require_ok(r, "Trace_Optimizers")
    verd = merge_verdicts(r, len(traces), "Trace_Optimizers")
    exps = {j["tid"] - 1: [step_rec([None] + t) for t in j["exp"]] for j in r.json_lines}
    return r, verd, exps


def _tick(label, _st=[None]):
    import os, resource, time
    if not os.environ.get("C61_TIMING"):
        return
    now = (time.time(), resource.getrusage(resource.RUSAGE_CHILDREN).ru_utime, resource.getrusage(resource.RUSAGE_SELF).ru_utime)
    if _st[0]:
        print(f"[timing] {label}: wall {now[0] - _st[0][0]:.1f}s child-cpu {now[1] - _st[0][1]:.1f}s self-cpu {now[2] - _st[0][2]:.1f}s", flush=True)
    _st[0] = now


def gradient_part(tier, seed, only=None):
    rng = random.Random(seed)
    _tick("start")
    viol = {}

    def add(key, detail, cfg, calls, extra=None):
        if key not in viol:
            viol[key] = [Violation(key=key, detail=detail, replay={"cfg": cfg, "calls": calls, "what": describe(cfg, calls), **(extra or {})}), 0]
        viol[key][1] += 1

    stats = {"calls": 0, "values": 0, "irrational": 0, "bit_exact": 0, "costs": 0}
    # (M) + generator
    if only is None:
        cfgs, calls_alpha, max_steps = gen_inputs(tier)
        g = lib.run_tlc_mc("OptimizersGen", {"Configs": tla_set(cfgs), "Calls": tla_set(calls_alpha)}, lib.workdir(PID, "gen"),
                           constants={"MaxSteps": max_steps}, invariants=INVARIANTS, constraints=["Emit"], timeout=3000)
        if g.invariant_violated:
            raise lib.MachineryError(f"Optimizers.tla: the model violates its own invariant {g.invariant_violated}\n" + g.out[-1500:])
        lib.require_ok(g, "OptimizersGen")
        hists = [{"cfg": cfgs[j["c"]], "hist": [dict(step_rec(t), call=calls_alpha[t[0]]) for t in j["h"]]} for j in g.json_lines]
        if len(hists) < 500:
            raise lib.MachineryError(f"generator produced only {len(hists)} histories")
        n_random = 400 if tier == "quick" else 4000
        rjobs = [random_job(rng, 5) for _ in range(n_random)]
    else:
        g = None
        hists, rjobs, max_steps = [], [only], len(only[1])
    gjobs = [(h["cfg"], [s["call"] for s in h["hist"]]) for h in hists]
    _tick("generator")
    all_obs = execute_all(gjobs + rjobs)
    _tick("execute")
    gobs, robs = all_obs[:len(gjobs)], all_obs[len(gjobs):]

    # (R) replay comparison of the generated histories
    per_kind = {k: 0 for k in KINDS}
    replay_bad = 0
    for h, (cfg, calls), obs in zip(hists, gjobs, gobs):
        bad, costbad = compare(cfg, calls, h["hist"], obs, stats)
        per_kind[cfg["kind"]] += 1
        for b in (bad, costbad):
            if b:
                replay_bad += 1
                add(f"{cfg['kind']}:{b[0]}", f"{cfg['kind']} call {b[1] + 1} ({calls[b[1]]['k']}): {b[2]}", cfg, calls[:b[1] + 1],
                    {"observed": obs[:b[1] + 1]})

    # comparator controls (independent of the implementation): observations made of the spec's own expectations are accepted,
    # one corrupted expectation is flagged
    neg_cmp = 0
    for idx in range(0, len(hists), max(1, len(hists) // 25)):
        h, (cfg, calls) = hists[idx], gjobs[idx]
        if calls[0]["k"] == "reset":
            continue
        synth = [{"x": [[alg_float(a) for a in arg] for arg in st["x"]], "cost": alg_float(st["cost"]),
                  "acc": [[fl(v) for v in a] for a in st["acc"]], "sm": [[fl(v) for v in a] for a in st["sm"]], "t": st["t"],
                  "exc": "", "msg": ""} for st in h["hist"]]
        if compare(cfg, calls, h["hist"], synth, dict(stats)) != (None, None):
            raise lib.MachineryError("comparator rejected the spec's own expectations")
        hh = json.loads(json.dumps(h["hist"]))
        i = cfg["train"].index(True)
        hh[0]["x"][i][0][:2] = rq(Fraction(*hh[0]["x"][i][0][:2]) + Fraction(1, 64))
        if compare(cfg, calls, hh, synth, dict(stats))[0] is None:
            raise lib.MachineryError("comparator accepted a corrupted expectation")
        neg_cmp += 1
    if hists and neg_cmp == 0:
        raise lib.MachineryError("no comparator negative control could be built")

    # (T) trace validation: generated (a stratified sample) + random histories, controls
    traces, meta = [], []
    stride = 1 if only is not None else max(1, len(gjobs) // (1000 if tier == "quick" else 8000))
    for j, ((cfg, calls), obs) in enumerate(zip(gjobs, gobs)):
        if (j + seed) % stride == 0:
            traces.append({"cfg": cfg, "calls": calls[:len(obs)], "obs": [obs_to_trace(o, cfg["kind"]) for o in obs], "emit": False})
            meta.append(("gen", cfg, calls, obs))
    for (cfg, calls), obs in zip(rjobs, robs):
        traces.append({"cfg": cfg, "calls": calls[:len(obs)], "obs": [obs_to_trace(o, cfg["kind"]) for o in obs], "emit": True})
        meta.append(("rnd", cfg, calls, obs))
    controls = build_controls(hists)
    for name, want, t in controls:
        traces.append(t)
        meta.append(("ctl", name, want, None))
    _tick("replay-compare")
    r, verd, exps = run_trace(traces, lib.workdir(PID, "trace"))
    _tick("trace")
    neg_ok = pos_ok = 0
    for i, (tag, name, want, _) in enumerate(meta):
        if tag != "ctl":
            continue
        v = verd[i]
        got = v[0] if v[0] != "ok" else v[2]
        if want == "ok":
            if got != "ok" or v[6] not in ("",):
                raise lib.MachineryError(f"positive control {name} rejected by Trace_Optimizers: {v}")
            pos_ok += 1
        else:
            if got != want:
                raise lib.MachineryError(f"negative control {name}: Trace_Optimizers answered {v}, expected clause {want}")
            neg_ok += 1
    if only is None and (neg_ok < 5 or pos_ok < 1):
        raise lib.MachineryError(f"too few controls: {neg_ok} negative, {pos_ok} positive")

    validated_calls = bridged = 0
    stops = {}
    nontriv, samples = set(), []
    kinds_seen = {k: 0 for k in KINDS}
    bridged_by_kind = {k: 0 for k in KINDS}
    for i, (tag, cfg, calls, obs) in enumerate(meta):
        if tag == "ctl":
            continue
        clause, vstep, cclause, cstep, nval, nbr, stop = verd[i]
        if stop == "bad-input":
            raise lib.MachineryError(f"trace {i} is not a valid input for the spec: {describe(cfg, calls)}")
        validated_calls += nval
        bridged += nbr
        bridged_by_kind[cfg["kind"]] += nbr
        kinds_seen[cfg["kind"]] += nval
        stops[stop or "end"] = stops.get(stop or "end", 0) + 1
        if clause != "ok":
            l = vstep - 1
            ob = obs[l]
            add(f"{cfg['kind']}:{clause}", f"{cfg['kind']} call {vstep} ({calls[l]['k']}): clause {clause} of Trace_Optimizers fails; observed "
                f"x={ob['x']} cost={ob['cost']} acc={ob['acc']} sm={ob['sm']} t={ob['t']} exc={ob['exc']} {ob['msg']}", cfg, calls[:vstep],
                {"observed": obs[:vstep]})
        if cclause != "ok":
            l = cstep - 1
            add(f"{cfg['kind']}:{cclause}", f"{cfg['kind']} call {cstep} ({calls[l]['k']}): step_and_cost returned {obs[l]['cost']!r}, which is not "
                f"the objective at the pre-step parameters ({cclause})", cfg, calls[:cstep], {"observed": obs[:cstep]})
        if tag == "rnd" and i in exps:
            ex = exps[i]
            bad, costbad = compare(cfg, calls[:len(ex)], ex, obs[:len(ex)], stats)
            for b in (bad, costbad):
                if b and b[0] != "raised":
                    add(f"{cfg['kind']}:{b[0]}", f"{cfg['kind']} call {b[1] + 1} ({calls[b[1]]['k']}): {b[2]}", cfg, calls[:b[1] + 1],
                        {"observed": obs[:b[1] + 1]})
        # non-trivial: at least two validated gradient calls in a row (state carried across steps)
        run_len = best = 0
        for c in calls[:nval]:
            run_len = 0 if c["k"] == "reset" else run_len + 1
            best = max(best, run_len)
        if best >= 2:
            nontriv.add(hist_key(cfg, calls[:nval]))
            if len(samples) < 4 and tag == "gen" and cfg["kind"] in ("adam", "nesterov", "rmsprop", "momentum_qng") and \
                    not any(s["optimizer"] == cfg["kind"] for s in samples) and len(cfg["train"]) >= 2 and clause == "ok":
                d = describe(cfg, calls)
                d["observed_after_last_call"] = {"x": obs[-1]["x"], "acc": obs[-1]["acc"], "sm": obs[-1]["sm"], "t": obs[-1]["t"]}
                samples.append(d)
    if only is None:
        for k in KINDS:
            if kinds_seen[k] < 20:
                raise lib.MachineryError(f"vacuous: only {kinds_seen[k]} validated calls for {k}")
        if bridged == 0 or stats["irrational"] == 0:
            raise lib.MachineryError("vacuous: no irrational (bridged) step was exercised")
    cov = {"states": (g.distinct if g else 0) + r.distinct, "transitions": (g.generated if g else 0) + r.generated,
           "traces_validated_against_impl": len(gjobs) + len(rjobs), "histories_revalidated_by_tlc": len(traces) - len(controls),
           "evaluations": validated_calls,
           "distinct_nontrivial": len(nontriv),
           "rule": "evaluations = public optimizer calls validated exactly by TLC (Trace_Optimizers); non-trivial = distinct (optimizer, "
                   "hyperparameters, argument layout, call history) with at least two validated gradient calls in a row, i.e. state carried "
                   "across steps",
           "samples": samples, "exhaustive": only is None,
           "model": {"module": "Optimizers / OptimizersGen", "invariants": INVARIANTS, "states": g.distinct if g else 0,
                     "max_steps": max_steps, "histories": len(hists), "histories_per_optimizer": per_kind},
           "random_histories": len(rjobs), "validated_calls_per_optimizer": kinds_seen,
           "trace_stop_reasons": stops, "values_bridged_in_trace": bridged, "values_bridged_per_optimizer": bridged_by_kind,
           "replay_comparison": {"calls": stats["calls"], "values_compared": stats["values"], "costs_compared": stats["costs"],
                                 "values_with_irrational_expectation": stats["irrational"], "bit_exact_matches": stats["bit_exact"],
                                 "tolerance": TOL, "mismatching_histories": replay_bad},
           "negative_controls_rejected": neg_ok + neg_cmp, "positive_controls_accepted": pos_ok}
    return cov, [v for v, _ in viol.values()], {k: n for k, (_, n) in viol.items()}


def build_controls(hists):
    """Controls made of the SPEC's own expectations: accepted as they are, rejected (with the right clause) when one field is corrupted."""
    out = []

    def as_obs(step):
        return {"x": [[a[:2] for a in arg] for arg in step["x"]], "cost": step["cost"][:2], "acc": step["acc"], "sm": step["sm"],
                "t": step["t"], "exc": ""}

    def rational(h):
        return all(len(a) == 2 and a[1] <= 4096 for s in h["hist"] for arg in s["x"] for a in arg) and \
            all(len(s["cost"]) == 2 for s in h["hist"])
    want = {"momentum": ["acc", "x", "frozen", "cost"], "nesterov": ["acc", "cost-at-shifted-point"], "adagrad": ["acc", "x"], "rmsprop": ["acc"],
            "adam": ["t", "fm", "sm", "x"], "gd": ["x", "cost", "raised"], "qng": ["x", "frozen"], "momentum_qng": ["x"]}
    done = set()
    for h in hists:
        cfg, hist = h["cfg"], h["hist"]
        kind = cfg["kind"]
        if not rational(h) or any(s["call"]["k"] == "reset" for s in hist) or len(hist) < 2:
            continue
        calls = [s["call"] for s in hist]
        base = {"cfg": cfg, "calls": calls, "obs": [as_obs(s) for s in hist], "emit": False}
        if ("pos", kind) not in done:
            done.add(("pos", kind))
            out.append((f"{kind}:spec-values", "ok", base))
        L = len(hist) - 1
        i = cfg["train"].index(True)
        for clause in want[kind]:
            if (clause, kind) in done:
                continue
            t = json.loads(json.dumps(base))
            ob = t["obs"][L]
            bump = lambda p: rq(Fraction(*p) + Fraction(1, 64))      # noqa: E731
            if clause in ("acc", "fm"):
                ob["acc"][i][0] = bump(ob["acc"][i][0])
            elif clause == "sm":
                ob["sm"][i][0] = bump(ob["sm"][i][0])
            elif clause == "t":
                ob["t"] += 1
            elif clause == "x":
                ob["x"][i][0] = bump(ob["x"][i][0])
            elif clause == "frozen":
                if all(cfg["train"]):
                    continue
                j = cfg["train"].index(False)
                ob["x"][j][0] = bump(ob["x"][j][0])
            elif clause == "cost":
                if calls[L]["k"] == "step":
                    continue
                ob["cost"] = bump(ob["cost"])
            elif clause == "cost-at-shifted-point":
                if calls[L]["k"] == "step" or hist[L]["shc"] == hist[L]["cost"][:2]:
                    continue
                ob["cost"] = hist[L]["shc"]
            elif clause == "raised":
                ob["exc"] = "ValueError"
            done.add((clause, kind))
            out.append((f"{kind}:{clause}-corrupted", clause, t))
    return out


# ----------------------------------------------------------------------------- Rotosolve / Rotoselect (Roto.tla)
U = math.pi / 12           # lattice unit of the phases; parameter d lives on the lattice of U / fn[d]  (Roto.tla, "Units")
ROTO_INV = ["Exact", "SubMin", "Descent", "Posed"]
ROTO_LAYOUTS = [[(True, 1)], [(True, 2)], [(True, 1), (False, 1), (True, 1)], [(True, 2), (True, 1)], [(False, 1), (True, 2)]]
K0 = (0, 1, 3, 5, 6, 7, 9, 11)      # initial sine arguments in units of pi/6: the sine is 0, +-1/2, +-1
# frequencies fn/fd of a Rotosolve parameter (weights by repetition): 1, integers > 1, non-integers below 1, non-integers above 1
ROTO_FREQS = ((1, 1), (1, 1), (1, 1), (2, 1), (3, 1), (1, 2), (1, 2), (1, 4), (3, 4), (1, 3), (2, 3), (3, 2), (5, 4))
# how a frequency is handed to Rotosolve: nums_frequency = 1 (unit frequency only), nums_frequency = 1 taking precedence over a
# contradicting spectrum (documented), or a spectrum with ONE positive frequency in several spellings
SPEC_VARIANTS = ("pos0", "sym", "only", "unsorted", "tuple", "array")


def roto_problem(rng, kind, pid):
    if kind == "rotosolve":
        layout = rng.choice(ROTO_LAYOUTS)
        tr = [t for t, n in layout for _ in range(n)]
    else:
        layout = [(True, rng.choice((1, 2, 3)))]
        tr = [True] * layout[0][1]
    P = len(tr)
    B = [[0] * P for _ in range(P)]
    for d in range(P):
        for e in range(d + 1, P):
            B[d][e] = B[e][d] = rng.choice((0, 4, -4, 8))
    fqs = [rng.choice(ROTO_FREQS) if kind == "rotosolve" else (1, 1) for _ in range(P)]
    via = ["n/a" if kind != "rotosolve" else rng.choice(("nf", "nf", "nf+sp") + SPEC_VARIANTS[:2]) if f == (1, 1) else rng.choice(SPEC_VARIANTS)
           for f in fqs]
    return {"id": pid, "kind": kind, "P": P, "tr": tr, "layout": [[t, n] for t, n in layout],
            "fn": [f[0] for f in fqs], "fd": [f[1] for f in fqs], "via": via,
            "A": [[rng.choice((-3, -1, 1, 3, 5)) for _ in range(P)] for _ in range(3)],
            "ph": [[rng.randrange(24) for _ in range(P)] for _ in range(3)],
            "C0": [[rng.randint(-2, 2) for _ in range(P)] for _ in range(3)],
            "B": B, "k0": [rng.choice(K0) for _ in range(P)],
            "g0": [rng.choice((1, 2, 3)) if kind == "rotoselect" else 1 for _ in range(P)]}


def roto_freq(pr, d):
    return pr["fn"][d] / pr["fd"][d]


def roto_fq_text(pr):
    return [f"{n}/{m}" if m != 1 else str(n) for n, m in zip(pr["fn"], pr["fd"])]


def roto_spectrum(pr, d):
    """One positive frequency, spelled in the way pr['via'][d] says (Rotosolve: 'spectra only contains one positive frequency')."""
    f, via = roto_freq(pr, d), pr["via"][d]
    if via == "nf+sp":
        return [0.0, 2.0 * f, 3.0 * f]          # contradicts nums_frequency = 1, which takes precedence
    return {"pos0": [0, f], "sym": [-f, 0.0, f], "only": [f], "unsorted": [f, 0.0, -f], "tuple": (-f, 0.0, f),
            "array": np.array([0.0, f])}[via]


def roto_F(pr, flat, gens):
    s = [pnp.sin(roto_freq(pr, d) * flat[d] + pr["ph"][gens[d] - 1][d] * U) for d in range(pr["P"])]
    tot = 0.0
    for d in range(pr["P"]):
        tot = tot + pr["A"][gens[d] - 1][d] * s[d] + pr["C0"][gens[d] - 1][d]
        for e in range(d + 1, pr["P"]):
            tot = tot + pr["B"][d][e] * s[d] * s[e]
    return tot


def lat(v, fn=1):
    u = U / fn
    k = round(float(v) / u)
    return k, bool(abs(float(v) - k * u) < 1e-7)


def near_int(v):
    """4 x value (Roto!F is 4 F) as an integer"""
    v = 4 * float(v)
    if not math.isfinite(v) or abs(v) > 1e6:
        return 0, False
    return round(v), bool(abs(v - round(v)) < 1e-7)


def roto_x0(pr):
    """Roto!X0: lattice integers, parameter d in units of U / fn[d]"""
    return [2 * pr["fd"][d] * pr["k0"][d] - pr["fd"][d] * pr["ph"][pr["g0"][d] - 1][d] for d in range(pr["P"])]


def roto_execute(job):
    """-> per call [call, x (lattice ints), on-lattice flags, generators, cost, cost ok, ys, ys ok, exception, cost hint]"""
    pr, calls = job
    P = pr["P"]
    x0 = roto_x0(pr)
    ux = [U / pr["fn"][d] for d in range(P)]
    out = []
    if pr["kind"] == "rotosolve":
        sizes = [n for _, n in pr["layout"]]
        args, pos = [], 0
        for t, n in pr["layout"]:
            vals = [x0[pos + j] * ux[pos + j] for j in range(n)]
            args.append(pnp.array(vals[0] if n == 1 and pr["id"] % 3 else vals, requires_grad=bool(t)))     # size 1: scalar or shape (1,)
            pos += n
        shapes = [np.shape(a) for a in args]

        def flat_of(aa):
            return [z for a in aa for z in pnp.reshape(a, (-1,))]
        F = lambda *aa: roto_F(pr, flat_of(aa), [1] * P)        # noqa: E731
        fn = {1: lambda a: F(a), 2: lambda a, b: F(a, b), 3: lambda a, b, c: F(a, b, c)}[len(args)]
        names = ["a", "b", "c"]
        nf, sp, pos = {}, {}, 0
        for i, (t, n) in enumerate(pr["layout"]):
            for j in range(n):
                idx = () if shapes[i] == () else (j,)
                if pr["via"][pos] in ("nf", "nf+sp"):
                    nf.setdefault(names[i], {})[idx] = 1
                if pr["via"][pos] != "nf":
                    sp.setdefault(names[i], {})[idx] = roto_spectrum(pr, pos)
                pos += 1
        opt = qp.RotosolveOptimizer()
        for k in calls:
            rec = [k, [], [], [1] * P, 0, True, [], True, "", False]
            try:
                if k == "step":
                    new = opt.step(fn, *args, nums_frequency=nf, spectra=sp)
                else:
                    new, cost, ys = opt.step_and_cost(fn, *args, nums_frequency=nf, spectra=sp, full_output=True)
                    rec[4], rec[5] = near_int(cost)
                    yy = [near_int(y) for y in ys]
                    rec[6], rec[7] = [y[0] for y in yy], all(y[1] for y in yy)
                new = [new] if len(args) == 1 else list(new)
                if len(new) != len(args) or any(np.shape(a) != sh for a, sh in zip(new, shapes)):
                    raise ValueError("shape of the returned arguments")
                ll = [lat(z, pr["fn"][d]) for d, z in enumerate(z for a in new for z in np.reshape(np.asarray(a, dtype=float), (-1,)))]
                rec[1], rec[2] = [z[0] for z in ll], [z[1] for z in ll]
                args = new
            except Exception as e:  # noqa: BLE001
                rec[8] = type(e).__name__ + ": " + str(e)[:120]
                out.append(rec)
                break
            out.append(rec)
        return out
    opt = qp.RotoselectOptimizer(possible_generators=[1, 2, 3])
    fn = lambda x, generators=None: roto_F(pr, x, generators)        # noqa: E731
    x, gens = [v * U for v in x0], list(pr["g0"])          # Rotoselect: frequency 1, fn = 1
    for k in calls:
        rec = [k, [], [], [], 0, True, [], True, "", False]
        try:
            g_in = list(gens)
            if k == "step":
                nx, ng = opt.step(fn, list(x), g_in)
            else:
                nx, ng, cost = opt.step_and_cost(fn, list(x), g_in)
                rec[4], rec[5] = near_int(cost)
                rec[9] = bool(list(ng) != gens and abs(float(cost) - float(fn(x, list(ng)))) < 1e-9)
            ll = [lat(z) for z in nx]
            rec[1], rec[2], rec[3] = [z[0] for z in ll], [z[1] for z in ll], [g if g in (1, 2, 3) else 0 for g in ng]
            x, gens = [float(z) for z in nx], list(ng)
        except Exception as e:  # noqa: BLE001
            rec[8] = type(e).__name__ + ": " + str(e)[:120]
            out.append(rec)
            break
        out.append(rec)
    return out


def roto_compare(pr, exp, obs):
    """REPLAY comparator -> (clause, call) or None, (costclause, call) or None, drift"""
    bad = costbad = None
    drift = False
    for l, (ex, ob) in enumerate(zip(exp, obs)):
        k, ex_x, ex_g, f0, ys, tie = ex
        if ob[8]:
            return ("raised", l), costbad, drift
        if k == "cost" and not (ob[5] and ob[4] == f0) and costbad is None:
            costbad = ("cost-at-new-generators" if ob[9] else "cost", l)
        if tie:
            return bad, costbad, True          # equally good generators: the continuation depends on the choice (Trace_Roto decides)
        if pr["kind"] == "rotoselect" and list(ob[3]) != list(ex_g):
            return ("not-the-best-generator", l), costbad, drift
        for d in range(pr["P"]):
            if not ob[2][d]:
                return ("frozen" if not pr["tr"][d] else "off-lattice", l), costbad, drift
            if not pr["tr"][d]:
                if ob[1][d] != ex_x[d]:
                    return ("frozen", l), costbad, drift
            elif (ob[1][d] - ex_x[d]) % (24 * pr["fd"][d]) != 0:            # one period = 24 fd lattice units
                return ("not-a-minimum", l), costbad, drift
            elif ob[1][d] != ex_x[d]:
                drift = True
        if pr["kind"] == "rotosolve" and k == "cost" and not (ob[7] and list(ob[6]) == list(ys)):
            return ("ymin", l), costbad, drift
    return bad, costbad, drift


def rotosolve_part(tier, seed):
    rng = random.Random(seed + 61)
    n_solve, n_select, steps = (160, 90, 2) if tier == "quick" else (800, 400, 3)
    probs = [roto_problem(rng, "rotosolve" if i < n_solve else "rotoselect", i) for i in range(n_solve + n_select)]
    tprobs = [{k: v for k, v in p.items() if k not in ("layout", "via")} for p in probs]
    g = lib.run_tlc_mc("RotoGen", {"Problems": tla_set(tprobs)}, lib.workdir(PID, "rotogen"), constants={"MaxSteps": steps},
                       invariants=ROTO_INV, constraints=["Emit"], timeout=3000)
    if g.invariant_violated:
        raise lib.MachineryError(f"Roto.tla: the model violates its own invariant {g.invariant_violated}\n" + g.out[-1500:])
    lib.require_ok(g, "RotoGen")
    hists = [(probs[j["p"]], j["h"]) for j in g.json_lines]
    if len(hists) != len(probs) * 2 ** steps:
        raise lib.MachineryError(f"RotoGen emitted {len(hists)} histories for {len(probs)} problems")
    jobs = [(pr, [c[0] for c in h]) for pr, h in hists]
    obs_all = execute_all(jobs, roto_execute)
    viol = {}

    def add(key, detail, pr, calls, obs):
        if key not in viol:
            viol[key] = [Violation(key=key, detail=detail, replay={"roto": True, "problem": pr, "calls": calls, "observed": obs}), 0]
        viol[key][1] += 1
    # (R)
    rdrift = ties = 0
    fclass = {"1": 0, "integer>1": 0, "non-integer<1": 0, "non-integer>1": 0}
    via_count = {}
    far = half_start = 0
    for (pr, h), obs in zip(hists, obs_all):
        if pr["kind"] == "rotosolve":        # vacuity counters over the model's own (TLC-emitted) sub-steps
            prev = roto_x0(pr)
            for l, c in enumerate(h):
                for d in range(pr["P"]):
                    if not pr["tr"][d]:
                        continue
                    fn, fd = pr["fn"][d], pr["fd"][d]
                    fclass["1" if fn == fd else "integer>1" if fd == 1 else "non-integer<1" if fn < fd else "non-integer>1"] += 1
                    via_count[pr["via"][d]] = via_count.get(pr["via"][d], 0) + 1
                    far += abs(c[1][d] - prev[d]) > 12 * fn              # the minimiser lies further than pi from the old value
                    half_start += l == 0 and pr["k0"][d] % 3 != 0         # the sub-step starts where the sine is +-1/2
                prev = c[1]
        bad, costbad, dr = roto_compare(pr, h, obs)
        rdrift += dr
        ties += any(c[5] for c in h)
        for b in (bad, costbad):
            if b:
                add(f"{pr['kind']}:{b[0]}", f"{pr['kind']} call {b[1] + 1} ({h[b[1]][0]}): {b[0]}; frequencies {roto_fq_text(pr)} given as {pr['via']}; returned x (units of pi/(12 fn)) {obs[b[1]][1]}, "
                    f"generators {obs[b[1]][3]}, 4*cost {obs[b[1]][4]}; Roto.tla expects x = {h[b[1]][1]} (mod 24 fd = one period), generators {h[b[1]][2]}, "
                    f"4*cost before the call {h[b[1]][3]}, 4*sub-step minima {h[b[1]][4]}", pr, [c[0] for c in h], obs)
    # comparator controls (independent of the implementation)
    neg_cmp = 0
    for pr, h in hists[::max(1, len(hists) // 20)]:
        if any(c[5] for c in h):
            continue
        synth = [[c[0], list(c[1]), [True] * pr["P"], list(c[2]), c[3], True, list(c[4]), True, "", False] for c in h]
        if roto_compare(pr, h, synth)[:2] != (None, None):
            raise lib.MachineryError("Roto comparator rejected the spec's own expectations")
        hh = json.loads(json.dumps(h))
        d = pr["tr"].index(True)
        hh[0][1][d] += 12 * pr["fd"][d]      # half a period away: the maximum instead of the minimum
        if roto_compare(pr, hh, synth)[0] is None:
            raise lib.MachineryError("Roto comparator accepted a corrupted expectation")
        neg_cmp += 1
    # (T)
    traces, meta = [], []
    for (pr, h), obs in zip(hists, obs_all):
        traces.append({"p": pr["id"] + 1, "o": obs})
        meta.append(("impl", pr, [c[0] for c in h], obs))
    # controls from the spec's own values
    want = {"rotosolve": ["not-a-minimum", "frozen", "off-lattice", "ymin", "cost"], "rotoselect": ["not-a-minimum", "not-the-best-generator", "cost"]}
    done = set()
    for pr, h in hists:
        kind = pr["kind"]
        if any(c[5] for c in h) or h[-1][0] != "cost":
            continue
        base = [[c[0], list(c[1]), [True] * pr["P"], list(c[2]), c[3], True, list(c[4]) if kind == "rotosolve" else [], True, "", False] for c in h]
        if ("pos", kind) not in done:
            done.add(("pos", kind))
            traces.append({"p": pr["id"] + 1, "o": base})
            meta.append(("ctl", f"{kind}:spec-values", "ok", None))
        L = len(h) - 1
        d = pr["tr"].index(True)
        for clause in want[kind]:
            if (clause, kind) in done:
                continue
            t = json.loads(json.dumps(base))
            ob = t[L]
            if clause == "not-a-minimum":
                ob[1][d] += 6 * pr["fd"][d]            # a quarter period away from the minimum
            elif clause == "frozen":
                if all(pr["tr"]):
                    continue
                ob[1][pr["tr"].index(False)] += 1
            elif clause == "off-lattice":
                ob[2][d] = False
            elif clause == "ymin":
                ob[6][0] += 1
            elif clause == "cost":
                ob[4] += 1
            elif clause == "not-the-best-generator":
                # put another generator at its own minimiser when that is strictly worse: needs the spec -> use a generator whose
                # minimum TLC says differs; approximated by trying both others, the trace spec must reject at least one of them
                continue
            done.add((clause, kind))
            traces.append({"p": pr["id"] + 1, "o": t})
            meta.append(("ctl", f"{kind}:{clause}-corrupted", clause, None))
    wd = lib.workdir(PID, "rototrace")
    (wd / "traces.json").write_text(json.dumps({"probs": tprobs, "tr": traces}, separators=(",", ":")))
    r = lib.run_tlc("Trace_Roto", lib.cfg(init="TInit", next_="TNext", constants={"NTRACES": len(traces)}), wd,
                    env={"TRACE_FILE": str(wd / "traces.json")}, timeout=3000)
    lib.require_ok(r, "Trace_Roto")
    verd = merge_verdicts(r, len(traces), "Trace_Roto")
    neg_ok = pos_ok = 0
    calls_ok = tdrift = 0
    nontriv, samples = set(), []
    for i, (tag, pr, calls, obs) in enumerate(meta):
        clause, vstep, cclause, cstep, nval, dr = verd[i]
        if tag == "ctl":
            got = clause if clause != "ok" else cclause
            if got != calls:
                raise lib.MachineryError(f"control {pr}: Trace_Roto answered {verd[i]}, expected {calls}")
            pos_ok += calls == "ok"
            neg_ok += calls != "ok"
            continue
        if clause == "degenerate-input":
            raise lib.MachineryError(f"degenerate Roto problem {pr}")
        calls_ok += nval
        tdrift += dr == "drift"
        if clause != "ok":
            add(f"{pr['kind']}:{clause}", f"{pr['kind']} call {vstep} ({calls[vstep - 1]}): clause {clause} of Trace_Roto fails; frequencies {roto_fq_text(pr)} given as "
                f"{pr['via']}; returned x (units of pi/(12 fn)) {obs[vstep - 1][1]} on-lattice {obs[vstep - 1][2]} generators {obs[vstep - 1][3]} {obs[vstep - 1][8]}", pr, calls, obs)
        if cclause != "ok":
            add(f"{pr['kind']}:{cclause}", f"{pr['kind']} call {cstep}: step_and_cost returned {obs[cstep - 1][4]}/4 (on the quarter-integer grid: {obs[cstep - 1][5]}), "
                f"which is not the objective before the call ({cclause})", pr, calls, obs)
        if nval >= 2 and any(any(row) for row in pr["B"]):
            nontriv.add(pr["id"])
            if len(samples) < 2 and not any(s["kind"] == pr["kind"] for s in samples):
                samples.append({"kind": pr["kind"], "problem": {k: pr[k] for k in ("P", "tr", "fn", "fd", "via", "A", "ph", "B", "k0", "g0")}, "calls": calls,
                                "returned_x_units_of_pi_over_12fn": [o[1] for o in obs], "generators": [o[3] for o in obs]})
    if neg_ok < 5 or pos_ok < 2 or neg_cmp < 1:
        raise lib.MachineryError(f"too few Roto controls: {neg_ok} negative, {pos_ok} positive, {neg_cmp} comparator")
    if calls_ok < 100:
        raise lib.MachineryError("vacuous Roto run")
    if min(fclass.values()) < 20 or far < 10 or half_start < 20 or len(via_count) < 2 + len(SPEC_VARIANTS):
        raise lib.MachineryError(f"vacuous Roto run: sub-steps per frequency class {fclass}, {far} further than pi, {half_start} from a "
                                 f"half-sine start, frequency spellings {via_count}")
    cov = {"states": g.distinct + r.distinct, "transitions": g.generated + r.generated, "problems": len(probs), "histories": len(hists),
           "calls_validated": calls_ok, "coupled_problems_validated": len(nontriv), "histories_with_generator_ties": ties,
           "model_drift": {"replay_histories": rdrift, "trace_histories": tdrift,
                           "what": "representative of theta mod 2 pi/fq, choice among equally good generators"},
           "model": {"module": "Roto / RotoGen", "invariants": ROTO_INV, "states": g.distinct, "max_steps": steps},
           "rotosolve_substeps_per_frequency_class": fclass, "rotosolve_substeps_minimiser_further_than_pi_away": far,
           "rotosolve_substeps_starting_at_sine_one_half": half_start, "rotosolve_substeps_per_frequency_spelling": via_count,
           "frequencies": sorted({f"{n}/{m}" for n, m in ROTO_FREQS}),
           "negative_controls_rejected": neg_ok + neg_cmp, "positive_controls_accepted": pos_ok, "samples": samples}
    return cov, [v for v, _ in viol.values()], {k: n for k, (_, n) in viol.items()}


def run(tier, seed):
    cov, viol, counts = gradient_part(tier, seed)
    rcov, rviol, rcounts = rotosolve_part(tier, seed)
    _tick("roto")
    for k in ("states", "transitions"):
        cov[k] += rcov.pop(k)
    cov["traces_validated_against_impl"] += rcov["histories"]
    cov["evaluations"] += rcov["calls_validated"]
    cov["distinct_nontrivial"] += rcov["coupled_problems_validated"]
    cov["rule"] += "; plus Rotosolve / Rotoselect: calls validated by Trace_Roto, non-trivial = distinct problems with coupled parameters"
    cov["samples"] = cov["samples"][:3] + rcov.pop("samples")
    cov["negative_controls_rejected"] += rcov.pop("negative_controls_rejected")
    cov["positive_controls_accepted"] += rcov.pop("positive_controls_accepted")
    cov["model_drift"] = rcov["model_drift"]["replay_histories"] + rcov["model_drift"]["trace_histories"]
    cov["rotosolve_rotoselect"] = rcov
    counts.update(rcounts)
    cov["violating_histories_per_key"] = counts
    return CheckResult(coverage=cov, violations=viol + rviol, assumptions=ASSUMPTIONS)


def replay(path, tier="quick", seed=0):
    rp = json.loads(open(path).read())["replay"]
    if rp.get("roto"):
        return run(tier, seed)
    cov, viol, counts = gradient_part(tier, seed, only=(rp["cfg"], rp["calls"]))
    cov["violating_histories_per_key"] = counts
    return CheckResult(coverage=cov, violations=viol, assumptions=ASSUMPTIONS)


ASSUMPTIONS = [
    "objective family f = sum_e(sum_i q_i a_i[e]^2 + b_i a_i[e] + r a_1[e] a_N[e]) with integer coefficients; its definition is shared by "
    "Optimizers.tla and the harness; gradients are taken by autograd (qp.grad) or passed as grad_fn",
    f"float bridge: a float64 stands for the rational with denominator <= 2^20 nearest to it (exact for dyadic values: TLC's invariant Dyadic "
    f"certifies that all values of gd / momentum / nesterov and all accumulators under linear objectives are dyadic); irrational expectations "
    f"(square roots of non-squares) and rationals with larger denominators are compared as floats at {TOL:g} relative",
    "QNG / MomentumQNG: the metric tensor is supplied through metric_tensor_fn (computing it from a QNode is C38); pinv of an invertible "
    "metric is its inverse",
    "histories feed the returned parameters back as the next call's arguments (the documented usage); MomentumQNG's documented two-point "
    "form is checked under this usage",
]
