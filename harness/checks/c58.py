"""C58 Block-encoding, oracle and algorithm templates implement their operators (partial: QSVT/GQSP/FABLE/BlockEncode bridged).

TRACE (code -> spec) with TLC-computed exact targets.  For every template instance (Select, QROM, QFT/AQFT, Permute, FlipSign,
Reflection, GroverOperator, AmplitudeAmplification, ControlledSequence, QuantumPhaseEstimation, PrepSelPrep, Qubitization,
TrotterProduct, ApproxTimeEvolution, CommutingEvolution, QSVT; option combinations: partial, work wires, clean flags,
reflection wires, orders, steps; mixed wire labels) the driver records the gate sequence emitted by op.decomposition() and by
every applicable registered rule.  Trace_Templates.tla builds the DOCUMENTED operator from the docstring's definition as an
exact matrix over Z[zeta_N][1/2] (sub-operators are small circuits over the reference table, evaluated by TLC), applies the
emitted gates exactly, one gate per step, and decides the documented relation (equality; equality on the clean-work-wire
columns; equality up to a global phase; equality of the block-encoded block).  TLC prints the exact target, against which
qp.matrix(template) and off-lattice decompositions (float bridge) are compared numerically; for qsvt / GQSP / FABLE /
BlockEncode TLC computes the exact polynomial of the exact matrix / the exact block and the comparison is numeric."""
import json
import math
import random

import numpy as np

import pennylane as qp

from .. import lib, tmpl
from ..codec import wire_positions, rec
from ..lib import CheckResult, Violation

LEVELS = (4, 5)
TOL = 1e-7
LABELS = ["a", 3, "c", 0, "e", 7, "g", 11, "q", 5, "x", 9, "z", 13]
PWI = {"I": 0, "X": 1, "Y": 2, "Z": 3}
PARAM = {"RX", "RY", "RZ", "PhaseShift", "CRX", "CRY", "CRZ", "ControlledPhaseShift", "IsingXX", "IsingZZ"}


# ------------------------------------------------------------------------------------------------ abstract sub-circuits
# gate = (name, [wire positions within the sub register, 1-based], u) with theta = u * pi/4
def g_rec(gt, lv):
    name, w, u = gt
    return rec(name, list(w), [u * (1 << (lv - 4))] if name in PARAM else [])


def g_op(gt, labels):
    name, w, u = gt
    ws = [labels[i - 1] for i in w]
    cls = getattr(qp, name)
    return cls(u * math.pi / 4, wires=ws) if name in PARAM else cls(wires=ws)


def circ_op(circ, labels):
    """operator applying the gates of circ in order (qp.prod multiplies matrices: the LAST factor acts first)"""
    ops = [g_op(gt, labels) for gt in circ]
    if len(ops) == 1:
        return ops[0]
    return qp.prod(*reversed(ops))


def rand_circ(rng, k, length, diag_only=False):
    one = [("PauliX", 0), ("PauliY", 0), ("PauliZ", 0), ("Hadamard", 0), ("S", 0), ("T", 0), ("RX", 1), ("RY", 1), ("RZ", 1), ("PhaseShift", 1)]
    two = [("CNOT", 0), ("CZ", 0), ("SWAP", 0), ("CRY", 1), ("IsingXX", 1), ("ControlledPhaseShift", 1)]
    out = []
    for _ in range(length):
        if k >= 2 and rng.random() < 0.35:
            nm, p = rng.choice(two)
            w = rng.sample(range(1, k + 1), 2)
        else:
            nm, p = rng.choice(one)
            w = [rng.randint(1, k)]
        out.append((nm, w, rng.choice([1, 2, 3, 4, 6, -1, -2]) if p else None))
    return out


def flipsign_circ(bits):
    """table circuit of I - 2|s><s|: X on the 0-bits, (multi-)controlled Z, X on the 0-bits"""
    k = len(bits)
    xs = [("PauliX", [i + 1], None) for i, b in enumerate(bits) if not b]
    mid = {1: ("PauliZ", [1], None), 2: ("CZ", [1, 2], None), 3: ("CCZ", [1, 2, 3], None)}[k]
    return xs + [mid] + xs


def ring_scalar(num, k, lv, im=0):
    """(num + i*im) / 2^k as a ring scalar [c, k] at level lv"""
    H = 1 << (lv - 1)
    c = [0] * H
    c[0] = num
    c[H // 2] = im          # zeta^(N/4) = i
    return {"c": c, "k": k}


def ring_matrix_dyadic(nums, k, lv):
    H = 1 << (lv - 1)
    return {"k": k, "e": [[[x] + [0] * (H - 1) for x in row] for row in nums]}


# ------------------------------------------------------------------------------------------------ instances
def build_instances(tier, seed):
    rng = random.Random(5800 + seed)
    quick = tier == "quick"
    inst = []

    def add(tname, variant, make, nreg, kind, par, subs=(), mats=(), rel="exact", cs=None, ww=(), numeric="cols", unitary=1, blk=0):
        inst.append({"tmpl": tname, "variant": variant, "make": make, "nreg": nreg, "kind": kind, "par": par, "subs": list(subs),
                     "mats": list(mats), "rel": rel, "cs": cs, "ww": list(ww), "numeric": numeric, "unitary": unitary, "blk": blk})

    def cols(n, pred):
        return [c for c in range(1 << n) if pred(c)]

    def field(c, lo, cnt, n):
        """value of the cnt wires lo+1..lo+cnt (1-based positions) of basis index c on n wires"""
        return (c >> (n - lo - cnt)) & ((1 << cnt) - 1)

    # ---------------- Select
    sel_cfgs = [(1, 1, 2), (2, 1, 3), (2, 1, 4), (2, 2, 4), (2, 2, 3), (1, 2, 2), (3, 1, 5)]
    for (nc, kt, K) in sel_cfgs if not quick else sel_cfgs[:6]:
        for partial in (False, True):
            for nwork in (0, 1, 2):
                if partial and K == 2 ** nc:
                    continue
                if nc + kt + nwork > 5 or (quick and nwork == 2 and nc < 2):
                    continue
                circs = [rand_circ(rng, kt, rng.choice([1, 1, 2])) for _ in range(K)]
                n = nc + kt + nwork

                def make(L, nc=nc, kt=kt, circs=circs, partial=partial, nwork=nwork):
                    return qp.Select([circ_op(c, L[nc:nc + kt]) for c in circs], control=L[:nc], partial=partial,
                                     work_wires=L[nc + kt:] if nwork else None)
                add("Select", f"nc{nc}kt{kt}K{K}{'-partial' if partial else ''}-work{nwork}", make, n, "select", {"nc": nc, "kt": kt},
                    subs=[(kt, c) for c in circs], cs=cols(n, lambda c, nc=nc, kt=kt, n=n, K=K: field(c, 0, nc, n) < K and field(c, nc + kt, n - nc - kt, n) == 0))
    # ---------------- QROM
    qrom_cfgs = [(1, 1, 2, 0), (1, 2, 2, 1), (2, 2, 3, 1), (2, 2, 4, 2), (2, 1, 4, 0), (2, 2, 4, 3), (2, 3, 3, 0), (1, 2, 2, 2), (2, 1, 3, 2)]
    for (nc, kt, K, nwork) in qrom_cfgs:
        for clean in (True, False):
            if nc + kt + nwork > 6 or (quick and nc + kt + nwork > 5 and not clean):
                continue
            bits = [[rng.randint(0, 1) for _ in range(kt)] for _ in range(K)]
            if all(not any(b) for b in bits):
                bits[0][0] = 1
            n = nc + kt + nwork

            def make(L, nc=nc, kt=kt, bits=bits, clean=clean):
                return qp.QROM(bits, control_wires=L[:nc], target_wires=L[nc:nc + kt], work_wires=L[nc + kt:], clean=clean)
            # documented on target register |0>; clean=True: any state of the work wires; clean=False: work wires |0>, output garbage
            pred = (lambda c, nc=nc, kt=kt, n=n, K=K: field(c, 0, nc, n) < K and field(c, nc, kt, n) == 0) if clean else \
                   (lambda c, nc=nc, kt=kt, n=n, K=K: field(c, 0, nc, n) < K and field(c, nc, n - nc, n) == 0)
            add("QROM", f"nc{nc}kt{kt}K{K}work{nwork}{'-clean' if clean else '-unclean'}", make, n, "qrom", {"nc": nc, "kt": kt, "bits": bits},
                rel="exact" if clean or nwork == 0 else "support", cs=cols(n, pred), ww=list(range(nc + kt + 1, n + 1)),
                numeric="cols" if clean or nwork == 0 else "support", unitary=1 if n <= 4 else 0)
    # ---------------- QFT / AQFT
    for n in (1, 2, 3, 4):
        add("QFT", f"n{n}", lambda L, n=n: qp.QFT(wires=L[:n]), n, "qft", {})
    for n, order in ((3, 1), (4, 1), (4, 2)) + (() if quick else ((5, 1), (5, 2), (5, 3))):
        add("AQFT", f"n{n}order{order}", lambda L, n=n, order=order: qp.AQFT(order, wires=L[:n]), n, "aqft", {"order": order}, unitary=1 if n <= 4 else 0)
    # ---------------- Permute
    for n in (2, 3, 4, 4, 5):
        perm = list(range(n))
        while perm == list(range(n)):
            rng.shuffle(perm)
        add("Permute", f"n{n}", lambda L, n=n, perm=perm: qp.Permute([L[i] for i in perm], wires=L[:n]), n, "perm", {"perm": [i + 1 for i in perm]})
    # subset of the register
    n, sub = 4, [0, 2, 3]
    sp = [2, 3, 0]
    full = [sp[sub.index(i)] if i in sub else i for i in range(n)]
    add("Permute", "subset", lambda L, sub=sub, sp=sp: qp.Permute([L[i] for i in sp], wires=[L[i] for i in sub]), n, "perm", {"perm": [i + 1 for i in full]})
    # ---------------- FlipSign
    for n in (1, 2, 3, 3, 4):
        bits = [rng.randint(0, 1) for _ in range(n)]
        add("FlipSign", f"n{n}-bits", lambda L, n=n, bits=bits: qp.FlipSign(bits, wires=L[:n]), n, "flipsign", {"bits": bits})
        val = int("".join(map(str, bits)), 2)
        add("FlipSign", f"n{n}-int", lambda L, n=n, val=val: qp.FlipSign(val, wires=L[:n]), n, "flipsign", {"bits": bits})
    # ---------------- Reflection
    for k in (1, 2, 2, 3, 3) + (() if quick else (2, 3, 3)):
        circ = rand_circ(rng, k, rng.choice([1, 2, 3]))
        alpha_u = rng.choice([4, 4, 2, 1, -2, 6, 3])
        touched = sorted({w for gt in circ for w in gt[1]})
        for rw in (None, sorted(rng.sample(touched, rng.randint(1, len(touched))))):
            def make(L, k=k, circ=circ, alpha_u=alpha_u, rw=rw):
                return qp.Reflection(circ_op(circ, L[:k]), alpha=alpha_u * math.pi / 4, reflection_wires=None if rw is None else [L[i - 1] for i in rw])
            add("Reflection", f"k{k}alpha{alpha_u}pi/4-{'default' if rw is None else 'rw' + ''.join(map(str, rw))}", make, k, "reflection",
                {"alpha_u": alpha_u, "rw": rw if rw is not None else touched}, subs=[(k, circ)])
    # ---------------- GroverOperator
    for kt, nwork in ((2, 0), (3, 0), (3, 1), (4, 0), (4, 1), (3, 2)):
        n = kt + nwork
        add("GroverOperator", f"n{kt}work{nwork}", lambda L, kt=kt, nwork=nwork: qp.GroverOperator(wires=L[:kt], work_wires=L[kt:kt + nwork]), n, "grover",
            {"kt": kt}, cs=cols(n, lambda c, kt=kt, n=n: field(c, kt, n - kt, n) == 0))
    # ---------------- AmplitudeAmplification (oracle = FlipSign, described to the spec as a table circuit)
    for k, iters in ((2, 1), (2, 2), (3, 1), (3, 2), (2, 3)):
        bits = [rng.randint(0, 1) for _ in range(k)]
        for ukind in ("hadamards", "random"):
            circ = [("Hadamard", [i], None) for i in range(1, k + 1)] if ukind == "hadamards" else rand_circ(rng, k, 2)

            def make(L, k=k, circ=circ, bits=bits, iters=iters):
                return qp.AmplitudeAmplification(circ_op(circ, L[:k]), qp.FlipSign(bits, wires=L[:k]), iters=iters)
            add("AmplitudeAmplification", f"k{k}iters{iters}-{ukind}", make, k, "ampamp", {"iters": iters, "rw": sorted({w for gt in circ for w in gt[1]})},
                subs=[(k, circ), (k, flipsign_circ(bits))],
                rel="phase")
    # ---------------- ControlledSequence / QuantumPhaseEstimation
    for nc, kt in ((1, 1), (2, 1), (3, 1), (2, 2), (3, 2)):
        circ = rand_circ(rng, kt, rng.choice([1, 2]))
        n = nc + kt
        add("ControlledSequence", f"nc{nc}kt{kt}", lambda L, nc=nc, kt=kt, circ=circ: qp.ControlledSequence(circ_op(circ, L[nc:nc + kt]), control=L[:nc]), n,
            "ctrlseq", {"nc": nc, "kt": kt}, subs=[(kt, circ)])
    for ne, kt in ((1, 1), (2, 1), (3, 1), (2, 2), (3, 2)):
        circ = rand_circ(rng, kt, rng.choice([1, 2]))
        n = ne + kt
        add("QuantumPhaseEstimation", f"ne{ne}kt{kt}-operator",
            lambda L, ne=ne, kt=kt, circ=circ: qp.QuantumPhaseEstimation(circ_op(circ, L[ne:ne + kt]), estimation_wires=L[:ne]), n, "qpe",
            {"nc": ne, "kt": kt}, subs=[(kt, circ)], unitary=1 if n <= 4 else 0)
    circ = [("T", [1], None)]
    add("QuantumPhaseEstimation", "ne2kt1-matrix",
        lambda L: qp.QuantumPhaseEstimation(np.diag([1, np.exp(1j * np.pi / 4)]), target_wires=[L[2]], estimation_wires=L[:2]), 3, "qpe",
        {"nc": 2, "kt": 1}, subs=[(1, circ)])
    # ---------------- PrepSelPrep / Qubitization (LCU with ring square roots of the normalised weights)
    lcus = [([1, 1], 1), ([1, -1], 1), ([1, 1, 1, 1], 2), ([1, -1, -1, 1], 2), ([2, 1, 1], 2), ([-2, 1, -1], 2), ([1, 1, 2], 2)]
    words1, words2 = ["X", "Y", "Z"], ["XI", "IZ", "XZ", "YY", "ZX", "IY", "ZZ", "YI"]
    for wi, (nums, kexp) in enumerate(lcus):
        for kt in (1, 2):
            K = len(nums)
            ws = rng.sample(words1 if kt == 1 else words2, K) if K <= 3 or kt == 2 else None
            if ws is None:
                continue
            nc = max(1, math.ceil(math.log2(K)))
            n = nc + kt
            scale = rng.choice([1.0, 0.3, 2.0])
            coeffs = [scale * x for x in nums]

            def mk_lcu(L, ws=ws, coeffs=coeffs, nc=nc, kt=kt):
                ops = [qp.pauli.string_to_pauli_word(w, wire_map={L[nc + i]: i for i in range(kt)}) for w in ws]
                return qp.dot(coeffs, ops)
            subs = [(kt, [({"X": "PauliX", "Y": "PauliY", "Z": "PauliZ"}[ch], [i + 1], None) for i, ch in enumerate(w) if ch != "I"]) for w in ws]
            par = {"wts_num": nums, "wts_k": kexp}
            block_cols = list(range(1 << kt))
            for tname in ("PrepSelPrep", "Qubitization"):
                add(tname, f"w{wi}kt{kt}", lambda L, mk_lcu=mk_lcu, nc=nc, tname=tname: getattr(qp, tname)(mk_lcu(L), control=L[:nc]), n, "lcu", par,
                    subs=subs, rel="block", cs=block_cols, numeric="block", unitary=0, blk=1 << kt)
    # ---------------- product formulas
    ham_pool = [(["X", "Z"], 1), (["XI", "ZZ", "IY"], 2), (["XX", "YY", "ZI"], 2), (["XYI", "IZZ", "YIX"], 3), (["ZI", "XI"], 2), (["XZ", "ZX", "YY"], 2)]
    coef_pool = [1.0, 0.5, -1.0, 2.0, -0.5]
    for (words, n) in ham_pool:
        for order, nsteps in ((1, 1), (1, 2), (2, 1), (2, 2)):
            cs_ = [rng.choice(coef_pool) for _ in words]
            t_u = rng.choice([1, 2, 4, -2])           # time = t_u * pi/4

            def mk_h(L, words=words, cs_=cs_, n=n):
                ops = [qp.pauli.string_to_pauli_word(w, wire_map={L[i]: i for i in range(n)}) for w in words]
                return cs_, ops
            par = {"order": order, "nsteps": nsteps, "adj": 0, "words": words, "coef": cs_, "t_u": t_u}
            add("TrotterProduct", f"{'+'.join(words)}-order{order}-n{nsteps}",
                lambda L, mk_h=mk_h, t_u=t_u, order=order, nsteps=nsteps: qp.TrotterProduct(qp.dot(*mk_h(L)), t_u * math.pi / 4, n=nsteps, order=order), n,
                "trotter", par)
            if order == 1:
                par2 = dict(par, adj=1)
                add("ApproxTimeEvolution", f"{'+'.join(words)}-n{nsteps}",
                    lambda L, mk_h=mk_h, t_u=t_u, nsteps=nsteps: qp.ApproxTimeEvolution(qp.Hamiltonian(*mk_h(L)), t_u * math.pi / 4, nsteps), n, "trotter", par2)
    for (words, n) in ((["XY", "YX"], 2), (["ZZ", "ZI", "IZ"], 2), (["XXI", "IXX", "XIX"], 3), (["XX", "YY", "ZZ"], 2)):
        cs_ = [rng.choice(coef_pool) for _ in words]
        t_u = rng.choice([1, 2, -2])

        def mk_h(L, words=words, cs_=cs_, n=n):
            return cs_, [qp.pauli.string_to_pauli_word(w, wire_map={L[i]: i for i in range(n)}) for w in words]
        add("CommutingEvolution", "+".join(words), lambda L, mk_h=mk_h, t_u=t_u: qp.CommutingEvolution(qp.Hamiltonian(*mk_h(L)), t_u * math.pi / 4), n,
            "trotter", {"order": 1, "nsteps": 1, "adj": 1, "words": words, "coef": cs_, "t_u": t_u})
    # ---------------- QSVT: the documented alternating sequence with projector-controlled phase shifts at lattice angles
    for k, dim, nph in ((1, 1, 3), (1, 1, 2), (2, 2, 3), (2, 1, 4), (2, 3, 2), (1, 1, 5)):
        circ = rand_circ(rng, k, rng.choice([1, 2]))
        phis = [rng.choice([1, 2, 3, -1, -2, 4, 5]) for _ in range(nph)]

        def make(L, k=k, circ=circ, dim=dim, phis=phis):
            return qp.QSVT(circ_op(circ, L[:k]), [qp.PCPhase(u * math.pi / 4, dim=dim, wires=L[:k]) for u in phis])
        add("QSVT", f"k{k}dim{dim}phases{nph}", make, k, "qsvtseq", {"dim": dim, "phis_u": phis}, subs=[(k, circ)])
    # ---------------- numeric: qsvt / GQSP polynomials, FABLE, BlockEncode (TLC computes the exact target, comparison at 1e-7)
    A2s = [([[2, 1], [1, -2]], 2), ([[1, 1], [1, -1]], 1), ([[0, 1], [1, 0]], 1), ([[2, 0], [0, -1]], 2)]
    A4s = [([[1, 0, 1, 0], [0, -1, 0, 1], [1, 0, -1, 0], [0, 1, 0, 1]], 2)]
    polys = [([0, 1, 0, 1], 1), ([-1, 0, 2], 1), ([0, -2, 0, 1, 0, 1], 1), ([1, 0, 1], 1)]
    for (nums, kexp) in A2s + A4s:
        d = len(nums)
        for (pn, pk) in polys if not quick else polys[:3]:
            A = np.array(nums, dtype=float) / (1 << kexp)
            poly = [x / (1 << pk) for x in pn]
            nw = int(math.log2(d)) + 1
            add("qsvt", f"d{d}A{nums[0]}poly{pn}", lambda L, A=A, poly=poly, nw=nw: qp.qsvt(A, poly, encoding_wires=L[:nw], block_encoding="embedding"), nw,
                "poly", {"ps_num": pn, "ps_k": pk, "A": (nums, kexp)}, rel="emit", cs=list(range(d)), numeric="reblock", unitary=0, blk=d)
    for k, pn in ((1, [(1, 0), (0, 1), (1, 0)]), (1, [(0, 0), (2, 0), (0, -1)]), (2, [(1, 0), (1, 0), (0, 1)])):
        circ = rand_circ(rng, k, 2)
        poly = [(a + 1j * b) / 4 for a, b in pn]

        def make(L, k=k, circ=circ, poly=poly):
            return qp.GQSP(circ_op(circ, L[1:1 + k]), qp.poly_to_angles(poly, "GQSP"), control=L[0])
        add("GQSP", f"k{k}poly{pn}", make, k + 1, "poly", {"ps_cplx": pn, "ps_k": 2}, subs=[(k, circ)], rel="emit", cs=list(range(1 << k)),
            numeric="block", unitary=0, blk=1 << k)
    for (nums, kexp) in A2s[:3] + A4s:
        d = len(nums)
        s = int(math.log2(d))
        A = np.array(nums, dtype=float) / (1 << kexp)
        add("FABLE", f"d{d}A{nums[0]}", lambda L, A=A, s=s: qp.FABLE(A, wires=L[:2 * s + 1], tol=0), 2 * s + 1, "scaled", {"s": s, "A": (nums, kexp)},
            rel="emit", cs=list(range(d)), numeric="block", unitary=0, blk=d)
        add("BlockEncode", f"d{d}A{nums[0]}", lambda L, A=A, s=s: qp.BlockEncode(A, wires=L[:s + 1]), s + 1, "scaled", {"s": 0, "A": (nums, kexp)},
            rel="emit", cs=list(range(d)), numeric="block+unitary", unitary=0, blk=d)
    for k in (1, 1, 2):
        circ = rand_circ(rng, k, 2)
        add("BlockEncode", f"V/sqrt2-k{k}", None, k + 1, "blockenc", {}, subs=[(k, circ)], rel="emit", numeric="cols-sub", unitary=1)
        inst[-1]["v_circ"] = circ
    return inst


def trotter_terms(par, lv):
    """x_j = c_j * t / nsteps as lattice ints X_j (x_j = X_j * 2pi/N); None when off the lattice at this level"""
    N = 1 << lv
    out = []
    for w, c in zip(par["words"], par["coef"]):
        x = c * par["t_u"] * math.pi / 4 / par["nsteps"]
        X = x * N / (2 * math.pi)
        if abs(X - round(X)) > 1e-9 or (par["order"] == 2 and round(X) % 2):
            return None
        out.append({"pw": [PWI[ch] for ch in w], "X": int(round(X))})
    return out


def spec_par(it, lv):
    p, kind = it["par"], it["kind"]
    if kind == "reflection":
        return {"alpha": p["alpha_u"] * (1 << (lv - 4)), "rw": p["rw"]}
    if kind == "lcu":
        return {"wts": [ring_scalar(x, p["wts_k"], lv) for x in p["wts_num"]]}
    if kind == "trotter":
        return {"order": p["order"], "nsteps": p["nsteps"], "adj": p["adj"], "terms": trotter_terms(p, lv)}
    if kind == "qsvtseq":
        return {"dim": p["dim"], "phis": [u * (1 << (lv - 4)) for u in p["phis_u"]]}
    if kind == "poly":
        if "ps_cplx" in p:
            return {"ps": [ring_scalar(a, p["ps_k"], lv, im=b) for a, b in p["ps_cplx"]]}
        return {"ps": [ring_scalar(x, p["ps_k"], lv) for x in p["ps_num"]]}
    if kind == "scaled":
        return {"s": p["s"]}
    return p


def spec_mats(it, lv):
    if "A" in it["par"]:
        nums, kexp = it["par"]["A"]
        return [ring_matrix_dyadic(nums, kexp, lv)]
    return []


def mk_case(it, n, b, rel, lv):
    return {"n": n, "kind": it["kind"], "par": spec_par(it, lv), "subs": [{"k": k, "g": [g_rec(gt, lv) for gt in c]} for k, c in it["subs"]],
            "mats": spec_mats(it, lv), "b": b, "cs": it["cs"] or [], "rel": rel, "ww": it["ww"], "unitary": it["unitary"], "M": lv}


def run_tlc(cases, name):
    verdicts, targets = {}, {}
    tot = {"distinct": 0, "generated": 0, "levels": {}}
    for lv in LEVELS:
        sel = [i for i, c in enumerate(cases) if c["M"] == lv]
        if not sel:
            continue
        wd = lib.workdir("C58", f"{name}{lv}")
        (wd / "cases.json").write_text(json.dumps([cases[i] for i in sel]))
        r = lib.run_tlc("Trace_Templates", lib.cfg(constants={"M": lv, "NCASES": len(sel)}), wd, env={"TRACE_FILE": str(wd / "cases.json")}, timeout=3000)
        lib.require_ok(r, f"Trace_Templates {name} level {lv}")
        for t in r.tuples:
            if t[0] == "V":
                verdicts[sel[t[1] - 1]] = t[2]
        for j in r.json_lines:
            targets[sel[j["tid"] - 1]] = lib.ring_matrix_to_numpy(j["t"], lv)
        tot["distinct"] += r.distinct
        tot["generated"] += r.generated
        tot["levels"][f"M={lv}"] = len(sel)
    if len(verdicts) != len(cases) or len(targets) != len(cases):
        raise lib.MachineryError(f"verdicts are not total: {len(verdicts)}/{len(targets)} of {len(cases)}")
    return verdicts, targets, tot


def level_of(it):
    """coarsest level at which the instance's own parameters are on the lattice"""
    for lv in LEVELS:
        if it["kind"] == "trotter" and trotter_terms(it["par"], lv) is None:
            continue
        if it["kind"] in ("qft",) and it["nreg"] >= 4 and lv < 5:
            continue
        if it["kind"] == "aqft" and it["par"]["order"] >= 3 and lv < 5:
            continue
        return lv
    return None


def numeric_ok(kind, got, T, it, relname):
    """compare a numeric matrix (qp.matrix of the template / bridged decomposition, already restricted to the columns cs) with TLC's T"""
    d = it["blk"]
    if kind == "block":
        return bool(np.allclose(got[:d, :], T, atol=TOL, rtol=0))
    if kind == "reblock":
        return bool(np.allclose(np.real(got[:d, :]), np.real(T), atol=TOL, rtol=0)) and bool(np.allclose(np.imag(T), 0, atol=1e-12))
    if kind == "block+unitary":
        return bool(np.allclose(got[:d, :], T, atol=TOL, rtol=0))
    Tc = T[:, it["cs"]] if it["cs"] else T
    if kind == "support":
        n = int(math.log2(T.shape[0]))
        keep = [w for w in range(1, n + 1) if w not in it["ww"]]

        def proj(r):
            return tuple((r >> (n - w)) & 1 for w in keep)
        for j in range(got.shape[1]):
            allowed = {proj(r) for r in range(T.shape[0]) if abs(Tc[r, j]) > 1e-9}
            for r in range(got.shape[0]):
                if abs(got[r, j]) > TOL and proj(r) not in allowed:
                    return False
        return True
    if relname == "phase":
        from ..bridge import equal_up_to_phase
        return bool(equal_up_to_phase(got, Tc, tol=TOL))
    return bool(np.allclose(got, Tc, atol=TOL, rtol=0))


def how_different(it, got, T):
    """'equal-only-up-to-phase' when the compared block / columns agree up to one unit scalar, else 'not-equal'"""
    from ..bridge import equal_up_to_phase
    d = it["blk"]
    try:
        a, b = (got[:d, :], T) if d else (got, T[:, it["cs"]] if it["cs"] else T)
        if it["numeric"] == "reblock":
            return "not-equal"
        return "equal-only-up-to-phase" if equal_up_to_phase(a, b, tol=TOL) else "not-equal"
    except Exception:
        return "not-equal"


def run(tier, seed):
    import time
    stats = {"skipped": {}, "sources": {}, "raised": 0}
    timing, t_last = {}, [time.time()]

    def lap(name):
        timing[name] = round(time.time() - t_last[0], 1)
        t_last[0] = time.time()

    def skip(why):
        stats["skipped"][why] = stats["skipped"].get(why, 0) + 1

    rng = random.Random(5801 + seed)
    inst = build_instances(tier, seed)
    if tier != "quick":                    # thorough: two more independently seeded instance sets (deterministic families once)
        for extra in (1, 2):
            inst += [it for it in build_instances(tier, seed + 1000 * extra) if it["tmpl"] not in ("QFT", "AQFT", "GroverOperator")]
    attempted = set()                      # templates with a raising decomposition source: reported as violations, not as vacuity
    viol, cases, owners = [], [], []
    mats, float_srcs = {}, []
    for ii, it in enumerate(inst):
        key0 = f"{it['tmpl']}[{it['variant']}]"
        lv0 = level_of(it)
        if lv0 is None:
            skip(f"{it['tmpl']}: parameters off the lattice")
            it["dead"] = True
            continue
        L = rng.sample(LABELS, it["nreg"])
        it["reg"] = L
        try:
            if it["kind"] == "blockenc":
                # A = V / sqrt2 needs V as numbers: TLC computes V exactly (the case's target is built from it); the operator is
                # constructed after the TLC run
                op = None
            else:
                op = it["make"](L)
        except Exception as e:
            viol.append(Violation(key=f"{it['tmpl']}:constructor-raises:{type(e).__name__}", detail=f"{key0} raised {type(e).__name__}: {e}",
                                  replay={"template": it["tmpl"], "variant": it["variant"]}))
            stats["raised"] += 1
            it["dead"] = True
            continue
        it["op"] = repr(op)[:300] if op is not None else "BlockEncode(V/sqrt2)"
        it["opobj"] = op
        have_case = False
        seen = []
        srcs = tmpl.decomposition_sources(op) if op is not None and it["tmpl"] not in ("BlockEncode",) else []
        for sname, ops in srcs:
            if isinstance(ops, Exception):
                attempted.add(it["tmpl"])
                viol.append(Violation(key=f"{it['tmpl']}:{sname}:raises:{type(ops).__name__}",
                                      detail=f"{sname} of {it['op']} raised {type(ops).__name__}: {ops}", replay={"op": it["op"], "source": sname}))
                stats["raised"] += 1
                continue
            try:
                for lv in [x for x in LEVELS if x >= lv0]:
                    wpos = wire_positions(L)
                    recs, fl, info = tmpl.flatten2(ops, wpos, lv)
                    if recs is not None:
                        break
            except tmpl.Skip as e:
                skip(f"{it['tmpl']}:{sname}: {e}")
                continue
            n = len(wpos)
            if n != it["nreg"]:
                skip(f"{it['tmpl']}:{sname}: dynamically allocated wires")
                continue
            stats["sources"][sname.split(":")[0]] = stats["sources"].get(sname.split(":")[0], 0) + 1
            if recs is not None and it["rel"] != "emit":
                sig = json.dumps(recs, sort_keys=True)
                if sig in seen:
                    stats["duplicate_sources"] = stats.get("duplicate_sources", 0) + 1
                    continue
                seen.append(sig)
                cases.append(mk_case(it, n, recs, it["rel"], lv))
                owners.append((ii, sname))
                have_case = True
            else:
                float_srcs.append((ii, sname, fl, n, lv))
        if not have_case:
            cases.append(mk_case(it, it["nreg"], [], "emit", lv0))
            owners.append((ii, "emit"))
        if op is not None:
            try:
                mats[ii] = np.asarray(qp.matrix(op, wire_order=L), dtype=complex)
            except Exception as e:
                viol.append(Violation(key=f"{it['tmpl']}:matrix:raises:{type(e).__name__}", detail=f"qp.matrix({it['op']}) raised {type(e).__name__}: {str(e)[:300]}",
                                      replay={"op": it["op"]}))
                stats["raised"] += 1
    lap("python_templates")

    # ---- negative controls: corrupt the recorded emission (extra gate) or the recorded instance (parameter of the documented operator)
    negs = []
    step = max(1, len(cases) // 30)
    for ci in range(0, len(cases), step):
        c = cases[ci]
        if c["rel"] == "emit" or not c["b"]:
            continue
        bad = json.loads(json.dumps(c))
        kind = "extra-gate"
        if c["kind"] == "flipsign":
            bad["par"]["bits"][0] = 1 - bad["par"]["bits"][0]
            kind = "wrong-parameter"
        elif c["kind"] == "qrom":
            bad["par"]["bits"][0][0] = 1 - bad["par"]["bits"][0][0]
            kind = "wrong-parameter"
        elif c["kind"] == "ampamp":
            bad["par"]["iters"] += 1
            kind = "wrong-parameter"
        elif c["kind"] == "trotter":
            bad["par"]["terms"][0]["X"] += 2
            kind = "wrong-parameter"
        elif c["kind"] == "lcu":
            bad["par"]["wts"][0]["c"][0] = -bad["par"]["wts"][0]["c"][0]
            kind = "wrong-parameter"
        elif c["kind"] == "qsvtseq":
            bad["par"]["phis"][0] += 1
            kind = "wrong-parameter"
        else:
            # a gate that changes the columns that are compared: T then H on wire 1 acts on every column
            bad["b"] = c["b"] + [tmpl.g("T", 1), tmpl.g("Hadamard", 1)]
        negs.append((len(cases) + len(negs), kind, bad, ci))
    verdicts, T, r = run_tlc(cases + [b for _, _, b, _ in negs], "trace")
    lap("tlc_trace")
    neg_rej = {}
    for ti_, kind, bad, src in negs:
        if verdicts[ti_] == "ok":
            # a changed parameter can leave the documented operator unchanged (e.g. a Z rotation angle inside X . X): such a
            # control corrupts nothing; TLC printed both operators, compare them
            if kind == "wrong-parameter" and T[ti_].shape == T[src].shape and np.allclose(T[ti_], T[src], atol=1e-12):
                neg_rej["neutral(not a corruption)"] = neg_rej.get("neutral(not a corruption)", 0) + 1
                continue
            raise lib.MachineryError(f"negative control ({kind}, {bad['kind']}) accepted by TLC")
        neg_rej[kind] = neg_rej.get(kind, 0) + 1
    if sum(v for k, v in neg_rej.items() if not k.startswith("neutral")) < 5:
        raise lib.MachineryError(f"too few negative controls: {neg_rej}")

    # ---- verdicts
    T_of, per_tmpl, samples, nontrivial = {}, {}, [], set()
    n_exact = n_bridge = n_mat = 0
    for ci, (ii, sname) in enumerate(owners):
        it = inst[ii]
        T_of.setdefault(ii, T[ci])
        v = verdicts[ci]
        if v in ("overflow", "off-lattice", "documented-operator-not-unitary", "unknown-relation"):
            raise lib.MachineryError(f"spec-side failure '{v}' for {it['tmpl']}[{it['variant']}]")
        if sname == "emit":
            continue
        n_exact += 1
        per_tmpl[it["tmpl"]] = per_tmpl.get(it["tmpl"], 0) + 1
        nontrivial.add((it["tmpl"], it["variant"], sname))
        if v != "ok":
            viol.append(Violation(key=f"{it['tmpl']}:{sname}:{v}",
                                  detail=f"{sname} of {it['op']} (register {it['reg']}): TLC verdict {v} against the documented operator "
                                         f"({it['kind']}, relation {it['rel']}, columns {it['cs'] or 'all'})",
                                  replay={"op": it["op"], "source": sname, "case": cases[ci], "register": [str(x) for x in it["reg"]]}))
        elif len(samples) < 5 and len(cases[ci]["b"]) >= 4 and it["tmpl"] not in [s["template"] for s in samples]:
            samples.append({"template": it["tmpl"], "variant": it["variant"], "op": it["op"][:200], "source": sname, "gates": len(cases[ci]["b"]),
                            "n": cases[ci]["n"], "relation": it["rel"], "columns": len(it["cs"] or []) or "all", "verdict": v})
    # BlockEncode(V/sqrt2): V comes from TLC (top-left block of the exact target times sqrt2)
    for ii, it in enumerate(inst):
        if it["kind"] == "blockenc" and ii in T_of and not it.get("dead"):
            d = T_of[ii].shape[0] // 2
            A = T_of[ii][:d, :d]
            try:
                op = qp.BlockEncode(A, wires=it["reg"])
                it["op"] = repr(op)[:200]
                mats[ii] = np.asarray(qp.matrix(op, wire_order=it["reg"]), dtype=complex)
            except Exception as e:
                viol.append(Violation(key=f"BlockEncode:matrix:raises:{type(e).__name__}", detail=f"BlockEncode raised {e}", replay={"A": str(A)}))
    for (ii, sname, fl, n, lv) in float_srcs:
        it = inst[ii]
        got = tmpl.bridge_unitary(fl, n, lv, cols=it["cs"])
        n_bridge += 1
        per_tmpl[it["tmpl"]] = per_tmpl.get(it["tmpl"], 0) + 1
        nontrivial.add((it["tmpl"], it["variant"], sname))
        if not numeric_ok(it["numeric"], got, T_of[ii], it, it["rel"]):
            viol.append(Violation(key=f"{it['tmpl']}:{sname}:{how_different(it, got, T_of[ii])}(bridged)",
                                  detail=f"{sname} of {it['op']}: bridged matrix differs from the documented operator ({it['numeric']})",
                                  replay={"op": it["op"], "source": sname}))
    for ii, mfull in mats.items():
        it = inst[ii]
        if ii not in T_of:
            continue
        got = mfull[:, it["cs"]] if it["cs"] else mfull
        n_mat += 1
        nontrivial.add((it["tmpl"], it["variant"], "matrix"))
        per_tmpl.setdefault(it["tmpl"], 0)
        kind = "cols" if it["numeric"] == "cols-sub" else it["numeric"]
        ok = numeric_ok(kind, got, T_of[ii], it, it["rel"])
        if ok and it["numeric"] == "block+unitary":
            ok = bool(np.allclose(mfull.conj().T @ mfull, np.eye(len(mfull)), atol=TOL))
        if not ok:
            viol.append(Violation(key=f"{it['tmpl']}:matrix:{how_different(it, got, T_of[ii])}",
                                  detail=f"qp.matrix({it['op']}) (wire order {it['reg']}) differs from the documented operator ({it['kind']}, {it['numeric']}, "
                                         f"relation {it['rel']})", replay={"op": it["op"], "register": [str(x) for x in it["reg"]]}))
    # comparator negative control
    some = next(i for i in mats if inst[i]["numeric"] == "cols" and i in T_of)
    it = inst[some]
    badm = np.array(mats[some], dtype=complex)
    badm = badm[:, it["cs"]] if it["cs"] else badm
    badm = badm.copy()
    badm[np.unravel_index(np.argmax(np.abs(badm)), badm.shape)] *= (1 + 1e-5)
    if numeric_ok("cols", badm, T_of[some], it, "phase"):
        raise lib.MachineryError("numeric comparator accepted a perturbed matrix")
    neg_rej["comparator"] = 1
    lap("numeric")

    templates = sorted({it["tmpl"] for it in inst if not it.get("dead")})
    no_decomp = {"BlockEncode", "qsvt"}
    missing = [t for t in templates if per_tmpl.get(t, 0) == 0 and t not in no_decomp and t not in attempted]
    if missing:
        raise lib.MachineryError(f"vacuous: no decomposition validated for {missing}")
    cov = {"states": r["distinct"], "transitions": r["generated"], "traces_validated_against_impl": n_exact + n_bridge + n_mat,
           "evaluations": n_exact + n_bridge + n_mat, "distinct_nontrivial": len(nontrivial),
           "rule": "distinct (template, option variant, source) combinations validated against the documented operator; source = "
                   "decomposition() / registered rule (identical emissions count once) / qp.matrix",
           "samples": samples, "exhaustive": False, "template_instances": len(inst), "exact_by_tlc": n_exact, "bridged_float": n_bridge,
           "matrix_comparisons": n_mat, "per_template_decompositions": per_tmpl, "negative_controls_rejected": sum(v for k, v in neg_rej.items() if not k.startswith("neutral")),
           "negative_controls": neg_rej, "wall_split_s": timing, "ring_levels": r["levels"], **stats}
    return CheckResult(coverage=cov, violations=viol, assumptions=[
        "documented operators are the docstring definitions transcribed in Trace_Templates.tla; gate semantics = Gates.tla",
        "sub-operators are 1-3 gate circuits over the reference table at angles that are multiples of pi/4; registers <= 5-6 wires",
        "Select / QROM are only required on the documented domain: control values < number of operations / bitstrings, QROM target register |0>, "
        "work wires |0> (clean=True: any work-wire state); clean=False outputs are compared outside the work wires",
        "AmplitudeAmplification is compared up to a global phase with ((2|Psi><Psi|-I) O)^iters (fixed_point=True is not covered); "
        "product formulas of order 1 and 2 at lattice times (order 4 has irrational step sizes); QuantumMonteCarlo is not covered",
        "partial: qsvt (real part of the block = poly(A), A real symmetric dyadic), GQSP (block = poly(U)), FABLE (block = A/2^s), BlockEncode "
        "(block = A, unitarity, full matrix for A = V/sqrt2) and every off-lattice decomposition are compared numerically at 1e-7 with TLC's exact target"])
