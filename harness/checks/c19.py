"""C19 transpile respects device connectivity.

REL + REPLAY: spec/gen/GraphGen.tla enumerates EVERY connected labelled graph on 3..5 nodes (TLC checks the generator's
own invariants and emits edge set + distance matrix); the driver builds, per graph, seeded circuits of <= 5 one- and
two-qubit gates (non-adjacent pairs forced in), applies the real qp.transforms.transpile with several measurement
styles (explicit wires, per-wire observables, wire-less measurements with the `device` option), and records
Transpile(in, graph, out | error, perm) where perm is read off the remapped measurement wires.  TLC decides
  * Trace_Transpile.tla: connected map, wide gates rejected with the documented error, every multi-qubit gate of the
    output on an edge, perm a permutation that remaps every measurement;
  * CircuitEq.tla (relation 'perm'): U(out) = P_perm U(in) exactly in Z[zeta_16][1/2].
Calls whose measurements do not determine the whole permutation (partial probs, state with a device) are decided on
their measurement results: TapeEval.tla computes the exact expected values of the INPUT tape, the driver evaluates the
OUTPUT tape (bridge evaluator / default.qubit + the transform's post-processing) and compares."""
import json
import random

import numpy as np

import pennylane as qp

from .. import bridge, lib, rel, tapeeval
from ..codec import OffLattice, decode_gate, encode_op, rec
from ..lib import CheckResult, Violation

M = 4                       # theta = a*pi/4 (inputs are multiples of pi/2; unrolled adjoints emit pi/4)
G1 = [("Hadamard", 0), ("T", 0), ("S", 0), ("SX", 0), ("PauliX", 0), ("PauliY", 0), ("RX", 1), ("RY", 1), ("RZ", 1), ("PhaseShift", 1)]
G2 = [("CNOT", 0), ("CNOT", 0), ("CZ", 0), ("CY", 0), ("SWAP", 0), ("ISWAP", 0), ("CH", 0), ("CRX", 1), ("CRY", 1), ("CRZ", 1),
      ("ControlledPhaseShift", 1), ("IsingXX", 1), ("IsingZZ", 1), ("IsingXY", 1)]
G3 = [("Toffoli", 3), ("CSWAP", 3), ("CCZ", 3), ("MultiRZ", 3)]
LABELS = [None, None, ["a", "b", "c", "d", "e"], [7, 3, "x", 0, 11]]


def graphs(tier):
    wd = lib.workdir("C19", "graphgen")
    r = lib.run_tlc("GraphGen", lib.cfg(constants={"NMIN": 3, "NMAX": 5}, invariants=["DistOK", "ConnOK"]), wd)
    lib.require_ok(r, "GraphGen")
    gs = sorted(r.json_lines, key=lambda g: (g["n"], g["edges"]))
    cnt = {n: sum(1 for g in gs if g["n"] == n) for n in (3, 4, 5)}
    if cnt != {3: 4, 4: 38, 5: 728}:         # number of connected labelled graphs (OEIS A001187)
        raise lib.MachineryError(f"GraphGen emitted {cnt}")
    return gs, r


def gen_circuit(rng, g, wide):
    """-> gate records on positions 1..n (n = nodes of g); at least one two-qubit gate, biased to non-adjacent pairs."""
    n, dist = g["n"], g["dist"]
    far = [(u, v) for u in range(1, n + 1) for v in range(1, n + 1) if u != v and dist[u - 1][v - 1] >= 2]
    used = rng.sample(range(1, n + 1), rng.choice([n, n, n, max(2, n - 1), max(2, n - 2)]))
    far_u = [p for p in far if p[0] in used and p[1] in used]
    L = rng.randint(1, 5)
    circ = []
    for k in range(L):
        r = rng.random()
        if r < 0.3 and k:
            name, npar = rng.choice(G1)
            circ.append(rec(name, [rng.choice(used)], [rng.choice([2, 4, 6, 10, 14])] * npar))
        else:
            name, npar = rng.choice(G2)
            w = list(rng.choice(far_u)) if far_u and rng.random() < 0.6 else rng.sample(used, 2)
            circ.append(rec(name, w, [rng.choice([2, 4, 6, 10, 14])] * npar))
    r = rng.random()
    if r < 0.12:
        circ.insert(rng.randrange(len(circ) + 1), rec("QFT", rng.sample(used, 2)))      # a template: unrolled by transpile
    elif r < 0.24:
        circ.insert(rng.randrange(len(circ) + 1), dict(rec(rng.choice(["S", "T", "SX"]), [rng.choice(used)]), mods=[{"t": "adj"}]))
    elif r < 0.3:
        circ.insert(rng.randrange(len(circ) + 1), rec("GlobalPhase", [], [rng.choice([1, 2, 6])]))
    if wide and len(used) >= 3:
        name, ar = rng.choice(G3)
        circ.insert(rng.randrange(len(circ) + 1), rec(name, rng.sample(used, ar), [6] if name == "MultiRZ" else []))
    return circ, sorted({w for c in circ for w in c["w"]})


def measurements(rng, style, n, used, lab):
    """-> (measurement processes, device or None)"""
    allw = list(range(1, n + 1))
    L = lambda ws: [lab[w - 1] for w in ws]
    if style == "probs_all":
        ws = rng.sample(allw, n)
        return [qp.probs(wires=L(ws))], None
    if style == "expval_each":
        obs = [rng.choice([qp.Z, qp.X, qp.Y])(lab[w - 1]) for w in rng.sample(allw, n)]
        return [rng.choice([qp.expval, qp.var])(o) for o in obs], None
    if style == "mixed":
        ws = rng.sample(allw, n)
        k = rng.randint(1, n - 1)
        return [qp.probs(wires=L(ws[:k])), qp.sample(wires=L(ws[k:])), qp.expval(qp.Z(lab[ws[0] - 1]))], None
    if style == "device_nowires":
        return [qp.probs()], qp.device("default.qubit", wires=L(allw))
    if style == "device_state":
        return [qp.state()] + ([qp.expval(qp.Z(lab[rng.choice(used) - 1]))] if rng.random() < 0.5 else []), \
            qp.device("default.qubit", wires=L(allw))
    if style == "probs_some":
        ws = rng.sample(used, rng.randint(1, len(used)))
        return [qp.probs(wires=L(ws))] + ([qp.expval(qp.Z(lab[rng.choice(used) - 1]))] if rng.random() < 0.5 else []), None
    raise ValueError(style)


STYLES = ["probs_all", "expval_each", "mixed", "device_nowires", "device_state", "probs_some"]


def run(tier, seed):
    import time
    t0 = time.time()
    rng = random.Random(1900 + seed)
    gs, gres = graphs(tier)
    phase = {"graphgen": round(time.time() - t0, 1)}
    if tier == "quick":
        small = [g for g in gs if g["n"] <= 4]
        big = [g for g in gs if g["n"] == 5]
        chosen = small + rng.sample(big, 70)
        per_graph = 3
    else:
        chosen, per_graph = gs, 8
    traces, tmeta, ecases, emeta, vcases, vmeta, viol = [], [], [], [], [], [], []
    stats = {"calls": 0, "routed_calls": 0, "swaps_inserted": 0, "wide_gate_calls": 0, "templates_unrolled": 0, "by_style": {},
             "max_distance_routed": {}, "graphs_used": len(chosen), "graphs_enumerated": len(gs)}
    nontrivial = set()
    for gi, g in enumerate(chosen):
        n = g["n"]
        for k in range(per_graph):
            lab = rng.choice(LABELS)
            lab = list(range(n)) if lab is None else lab[:n]
            pos = {l: i + 1 for i, l in enumerate(lab)}
            wide = rng.random() < 0.08
            circ, used = gen_circuit(rng, g, wide)
            style = STYLES[(gi + k) % len(STYLES)] if not wide else "probs_all"
            mps, dev = measurements(rng, style, n, used, lab)
            ops = [decode_gate(c, M, lab) for c in circ]
            tape = qp.tape.QuantumScript(ops, mps)
            cmap = [(lab[u - 1], lab[v - 1]) for u, v in g["edges"]]
            if rng.random() < 0.5:
                cmap = [(b, a) for a, b in cmap]
            if (gi + k) % 3 == 0:
                import networkx as nx
                cmap = nx.Graph(cmap)
            stats["calls"] += 1
            stats["by_style"][style] = stats["by_style"].get(style, 0) + 1
            err, out, post = "", None, None
            try:
                (out,), post = qp.transforms.transpile(tape, coupling_map=cmap, device=dev)
            except Exception as e:  # decided by the trace spec
                err = type(e).__name__
                errmsg = str(e)
            inar = [len(o.wires) for o in ops]
            replay = {"n": n, "edges": g["edges"], "labels": lab, "circuit": circ, "style": style, "measurements": [repr(m) for m in mps]}
            if wide:
                stats["wide_gate_calls"] += 1
            if err:
                traces.append({"n": n, "edges": g["edges"], "inar": inar, "err": err, "outw": [], "min": [], "mout": [], "perm": []})
                tmeta.append((replay, f"{err}: {errmsg[:200]}"))
                continue
            try:
                outrecs = [r for r in (encode_op(o, pos, M) for o in out.operations) if r is not None]
            except (OffLattice, KeyError) as e:
                raise lib.MachineryError(f"cannot encode transpile output {out.operations}: {e}")
            nsw = sum(1 for r in outrecs if r["g"] == "SWAP") - sum(1 for c in circ if c["g"] == "SWAP" and not c["mods"]) \
                - sum(1 for c in circ if c["g"] == "QFT")
            far = max([g["dist"][c["w"][0] - 1][c["w"][1] - 1] for c in circ if len(c["w"]) == 2] or [0])
            if nsw > 0:
                stats["routed_calls"] += 1
                stats["swaps_inserted"] += nsw
                stats["max_distance_routed"][far] = stats["max_distance_routed"].get(far, 0) + 1
                nontrivial.add((n, tuple(map(tuple, g["edges"])), json.dumps(circ, sort_keys=True)))
            if any(c["g"] == "QFT" or c["mods"] for c in circ):
                stats["templates_unrolled"] += 1
            # the measurement remapping: input measurement wires (wire-less measurements are documented to become
            # measurements on the device wires) -> output measurement wires
            in_m = [list(m.wires) if len(m.wires) or dev is None or isinstance(m, qp.measurements.StateMP) else list(lab) for m in mps]
            out_m = [list(m.wires) for m in out.measurements]
            try:
                min_ = [pos[w] for ws in in_m for w in ws]
                mout = [pos[w] for ws in out_m for w in ws]
            except KeyError as e:
                viol.append(Violation(key="measurement-on-unknown-wire", detail=f"output measurement on wire {e} outside the coupling map",
                                      replay=replay))
                continue
            perm = [0] * n
            for a, b in zip(min_, mout):
                if perm[a - 1] == 0:
                    perm[a - 1] = b
            missing = [i for i in range(n) if perm[i] == 0]
            rest = [w for w in range(1, n + 1) if w not in perm]
            full = len(missing) <= 1 and len(min_) == len(mout)
            if full and len(missing) == len(rest):
                for i, w in zip(missing, rest):
                    perm[i] = w
            replay = dict(replay, output=outrecs, out_measurements=[repr(m) for m in out.measurements], perm=perm)
            if full:
                traces.append({"n": n, "edges": g["edges"], "inar": inar, "err": "", "outw": [r["w"] for r in outrecs],
                               "min": min_, "mout": mout, "perm": perm})
                tmeta.append((replay, ""))
                if sorted(perm) != list(range(1, n + 1)):
                    continue            # not a permutation: Trace_Transpile reports it
                ecases.append({"n": n, "a": circ, "bs": [{"b": outrecs, "rel": "perm", "perm": perm}]})
                emeta.append(replay)
            else:
                # perm not determined by the measurements: structural clauses with an identity-completed perm are not
                # meaningful; decide edges here and the semantics on measurement values
                pp = list(range(1, n + 1))
                traces.append({"n": n, "edges": g["edges"], "inar": inar, "err": "", "outw": [r["w"] for r in outrecs],
                               "min": [], "mout": [], "perm": pp})
                tmeta.append((replay, ""))
                req = []
                for m in mps:
                    if isinstance(m, qp.measurements.StateMP):
                        req.append({"t": "state"})
                    elif isinstance(m, qp.measurements.ProbabilityMP):
                        req.append({"t": "probs", "w": [pos[w] for w in m.wires]})
                    else:
                        w = pos[m.wires[0]]
                        req.append({"t": "expval", "pw": [3 if i + 1 == w else 0 for i in range(n)]})
                vcases.append({"n": n, "ops": circ, "meas": req})
                vmeta.append((replay, out, post, dev, outrecs, lab))
    phase["apply"] = round(time.time() - t0 - phase["graphgen"], 1)
    # ---- negative controls
    n_real_traces = len(traces)
    neg_t, neg_e = [], []
    for i in range(0, len(traces), max(1, len(traces) // 12)):
        t = traces[i]
        if t["err"] or not t["outw"]:
            continue
        n = t["n"]
        nonedge = [[u, v] for u in range(1, n + 1) for v in range(u + 1, n + 1) if [u, v] not in t["edges"]]
        if nonedge:
            neg_t.append((len(traces), i))
            traces.append(dict(t, outw=t["outw"] + [nonedge[0]]))
            tmeta.append(None)
        if t["min"]:
            bad = list(t["mout"])
            bad[0] = bad[0] % n + 1
            neg_t.append((len(traces), i))
            traces.append(dict(t, mout=bad))
            tmeta.append(None)
    for i in range(0, len(ecases), max(1, len(ecases) // 12)):
        c = ecases[i]
        p = list(c["bs"][0]["perm"])
        p[0], p[1] = p[1], p[0]
        neg_e.append((len(ecases), i))
        ecases.append({"n": c["n"], "a": c["a"], "bs": [dict(c["bs"][0], perm=p)]})
        emeta.append(None)
        neg_e.append((len(ecases), i))
        ecases.append({"n": c["n"], "a": c["a"], "bs": [dict(c["bs"][0], b=c["bs"][0]["b"] + [rec("T", [1])])]})
        emeta.append(None)
    # ---- TLC: structural clauses
    wd = lib.workdir("C19", "trace")
    (wd / "traces.json").write_text(json.dumps(traces))
    r = lib.run_tlc("Trace_Transpile", lib.cfg(constants={"NTRACES": len(traces)}), wd, env={"TRACE_FILE": str(wd / "traces.json")})
    lib.require_ok(r, "Trace_Transpile")
    phase["tlc_trace"] = round(r.wall_s, 1)
    tv = {t[1] - 1: t[2] for t in r.tuples if t[0] == "V"}
    if len(tv) != len(traces):
        raise lib.MachineryError(f"Trace_Transpile verdicts not total: {len(tv)} of {len(traces)}")
    n_err_ok = 0
    for i, m in enumerate(tmeta):
        if m is None:
            continue
        if tv[i].startswith("bad-case"):
            raise lib.MachineryError(f"generated coupling map rejected by the spec: {traces[i]}")
        if tv[i] != "ok":
            viol.append(Violation(key=f"transpile:{tv[i]}", detail=f"{tv[i]} {m[1]} on graph {m[0]['edges']} circuit {m[0]['circuit']} -> "
                                  f"{m[0].get('output')}", replay=m[0]))
        elif traces[i]["err"]:
            n_err_ok += 1
    # a corrupted copy is a valid negative control only if its source was accepted
    neg_t = [(i, src) for i, src in neg_t if tv[src] == "ok"]
    nneg_t = sum(1 for i, _ in neg_t if tv[i] != "ok")
    # ---- TLC: exact unitaries up to the measurement permutation
    ev, _, est = rel.validate("C19", ecases, M)
    phase["tlc_circuiteq"] = round(est["wall_s"], 1)
    samples = []
    for (ti, _), clause in ev.items():
        m = emeta[ti]
        if m is None:
            continue
        if clause == "overflow":
            raise lib.MachineryError("ring overflow in CircuitEq")
        if clause != "ok":
            viol.append(Violation(key=f"transpile:{clause}", detail=f"U(out) != P_perm U(in): graph {m['edges']} circuit {m['circuit']} -> "
                                  f"{m['output']} perm {m['perm']}", replay=m))
        elif len(samples) < 3 and len(m["circuit"]) >= 3 and m["n"] not in {s_["n"] for s_ in samples} and \
                sum(g_["g"] == "SWAP" for g_ in m["output"]) > sum(g_["g"] == "SWAP" for g_ in m["circuit"]):
            samples.append({"n": m["n"], "edges": m["edges"], "input": [(c["g"], c["w"]) for c in m["circuit"]],
                            "output": [(c["g"], c["w"]) for c in m["output"]], "perm": m["perm"], "verdict": "ok"})
    n_neg_e_all = len(neg_e)
    neg_e = [(i, src) for i, src in neg_e if ev[(src, 0)] == "ok"]
    nneg_e = sum(1 for i, _ in neg_e if ev[(i, 0)] != "ok")
    if nneg_t != len(neg_t) or nneg_e != len(neg_e) or (not viol and (not neg_t or not neg_e)):
        raise lib.MachineryError(f"negative controls rejected: trace {nneg_t}/{len(neg_t)}, unitary {nneg_e}/{len(neg_e)}")
    # ---- measurement values (perm not determined by the measurements)
    n_val = 0
    vst = {"distinct": 0, "generated": 0}

    def same(e, gv):
        return e.shape == gv.shape and np.allclose(e, gv, atol=1e-8)
    neg_v = 0
    if vcases:
        vres, vst = tapeeval.evaluate("C19", vcases, M)
        phase["tlc_tapeeval"] = round(vst["wall_s"], 1)
        for (replay, out, post, dev, outrecs, lab), c, res in zip(vmeta, vcases, vres):
            n = c["n"]
            pos = {l: i + 1 for i, l in enumerate(lab)}
            got = []
            if dev is not None:
                raw = qp.execute([out], dev, diff_method=None)
                val = post(raw)
                got = list(val) if isinstance(val, tuple) else [val]
            else:
                psi = bridge.circuit_unitary(outrecs, n, M)[:, 0]
                pr = (np.abs(psi) ** 2).reshape([2] * n)
                for m in out.measurements:
                    ws = [pos[w] - 1 for w in m.wires]
                    if isinstance(m, qp.measurements.ProbabilityMP):
                        oth = tuple(i for i in range(n) if i not in ws)
                        marg = pr.sum(axis=oth) if oth else pr
                        order = sorted(ws)
                        marg = np.transpose(marg, [order.index(w) for w in ws])
                        got.append(marg.reshape(-1))
                    else:
                        oth = tuple(i for i in range(n) if i != ws[0])
                        p1 = pr.sum(axis=oth)
                        got.append(float(p1[0] - p1[1]))
            for mi, (e, gv) in enumerate(zip(res["meas"], got)):
                n_val += 1
                e = np.asarray(e).reshape(-1)
                gv = np.asarray(qp.math.toarray(gv) if not isinstance(gv, (float, np.ndarray)) else gv).reshape(-1)
                if n_val % 10 == 1:       # negative control: the comparator must notice a wrong value
                    if same(e, gv + 1e-4) or same(e, np.roll(gv, 1) + 0.125):
                        raise lib.MachineryError("value comparator accepts a corrupted measurement value")
                    neg_v += 1
                if not same(e, gv):
                    viol.append(Violation(key=f"transpile:measurement-value-changed:{c['meas'][mi]['t']}",
                                          detail=f"measurement {replay['measurements'][mi]} of {replay['circuit']} on graph {replay['edges']}: "
                                                 f"expected {np.round(e, 6).tolist()} got {np.round(gv, 6).tolist()}", replay=replay))
    if stats["routed_calls"] < 20 or not stats["wide_gate_calls"]:
        raise lib.MachineryError(f"vacuous run: routed {stats['routed_calls']}, wide-gate calls {stats['wide_gate_calls']}")
    cov = {"states": gres.distinct + r.distinct + est["distinct"] + vst["distinct"],
           "transitions": gres.generated + r.generated + est["generated"] + vst["generated"],
           "traces_validated_against_impl": n_real_traces, "evaluations": stats["calls"],
           "distinct_nontrivial": len(nontrivial),
           "rule": "every connected labelled graph on 3-5 nodes is enumerated by TLC (770); per graph seeded circuits of <= 5 (+1) gates; "
                   "non-trivial = distinct (graph, circuit) for which transpile inserted at least one SWAP",
           "samples": samples, "exhaustive": False, "graphs_exhaustive": tier != "quick", "unitary_relations_decided": len(ecases) - n_neg_e_all,
           "measurement_values_compared": n_val, "documented_errors_confirmed": n_err_ok,
           "negative_controls_rejected": nneg_t + nneg_e + neg_v, "phase_wall_s": phase, **stats}
    return CheckResult(coverage=cov, violations=viol, assumptions=[
        "angles are multiples of pi/2 (ring level M=4); graphs are exhaustive up to 5 nodes (thorough) / all of <= 4 nodes plus 70 sampled "
        "5-node graphs (quick); circuits are seeded samples",
        "calls whose measurements leave more than one wire of the permutation undetermined are decided on measurement values "
        "(exact expectation from TapeEval.tla, output evaluated numerically at 1e-8) instead of the unitary relation"])
