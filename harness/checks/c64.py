"""C64 Dataset attributes survive HDF5 round trips.

(M) spec/sys/DatasetStore.tla (files, open handles with mode, in-memory datasets, nested datasets; one action per
    public call, written from the docstrings) is model-checked exhaustively: type/handle/provenance invariants and the
    documented postconditions of write/read/open as action properties (source never changed or closed, failed call
    changes nothing, frame, mode "w" = fresh file, keep-without-overwrite, source-wins-with-overwrite, copy = snapshot).
(C) spec -> code: spec/gen/DatasetStoreGen.tla emits every history (exhaustive families; deeper ones by TLC
    simulation), spec/gen/DatasetValueGen.tla emits the value grammar; every history is executed on real
    pennylane.data objects and temporary HDF5 files under .work/C64 with concrete values for the tokens, and after
    every call everything readable is read back (through the live handles, and from disk by Dataset.open(p, "copy")).
    code -> spec: the recorded traces are validated step by step by spec/trace/Trace_DatasetStore.tla, which applies
    the same call to the model and compares; it names the first unexplained step and the failing clauses.
(L) list attributes of a live dataset read and edited in place: spec/sys/DatasetListEdit.tla (the python list the attribute
    stands for; Get / GetAll / Insert / Append / Del / SetItem / Save / Reopen, reads are calls of the history) is model-checked
    (pointwise statements of the documented list operations as action properties); spec/gen/DatasetListEditGen.tla emits every
    history of reads and edits with what every call must return; harness/dslist.py executes them on a real list attribute
    (in memory and file-bound) and compares every call, the final live list, its storage and a written copy."""
from __future__ import annotations

import json
import multiprocessing as mp
import os
import random
import time

from .. import dslist, dsreplay, lib
from .. import dsvalues as V
from ..lib import CheckResult, Violation

PID = "C64"
ND, NP = 3, 2            # slots and paths observed in every replay (the trace spec runs with D = 1..3, P = 1..2)
ATTRSEQ = '<<"a", "b">>'
ALL_OPEN = '{"w", "w-", "a", "r", "copy"}'
ALL_WRITE = '{"w", "w-", "a"}'
CLASSES9 = "{" + ", ".join(f'"{c}"' for c in V.CLASSES) + "}"


def tla_event(**kw):
    """event parameters -> TLA+ record expression (the argument of Do)"""
    parts = []
    for k, v in kw.items():
        if isinstance(v, bool):
            parts.append(f"!.{k} = {'TRUE' if v else 'FALSE'}")
        elif isinstance(v, int):
            parts.append(f"!.{k} = {v}")
        elif isinstance(v, (set, frozenset, list)):
            parts.append(f"!.{k} = {{" + ", ".join(f'"{x}"' for x in sorted(v)) + "}")
        else:
            parts.append(f'!.{k} = "{v}"')
    return "[Ev0 EXCEPT " + ", ".join(parts) + "]"


def E(**kw):
    return kw


EV0 = {"act": "", "d": 0, "s": 0, "p": 0, "a": "", "x": "", "mode": "", "all": True, "attrs": [], "ow": False, "v": 0, "err": ""}


def script(*evs):
    """scripted prefix as TLA+ text"""
    return "<<" + ", ".join(tla_event(**e) for e in evs) + ">>"


def py_history(evs):
    """the same prefix as the event records the generator would emit (tokens numbered in order of assignment)"""
    out, tok = [], 0
    for e in evs:
        r = dict(EV0, **{k: (sorted(v) if isinstance(v, (set, frozenset)) else v) for k, v in e.items()})
        if r["act"] in ("Set", "SetIn"):
            tok += 1
            r["v"] = tok
        out.append(r)
    return out


# scripted prefixes: states from which short exhaustive continuations are interesting
P_MEM_A = [E(act="New", d=1), E(act="Set", d=1, a="a")]                                         # d1 = {a:1} in memory
P_FILE_AB = [E(act="New", d=1), E(act="Set", d=1, a="a"), E(act="Set", d=1, a="b"),              # p1 = {a:1, b:2}, d1 in memory {a:1, b:2}
             E(act="WritePath", s=1, p=1, mode="w", all=True, ow=False)]
P_TWO_MEM = [E(act="New", d=1), E(act="Set", d=1, a="a"), E(act="New", d=2), E(act="Set", d=2, a="a"),
             E(act="Set", d=2, a="b")]                                                           # d1 = {a:1}, d2 = {a:2, b:3}
P_FILE_AND_MEM = [E(act="New", d=1), E(act="Set", d=1, a="a"), E(act="WritePath", s=1, p=1, mode="w", all=True, ow=False),
                  E(act="Del", d=1, a="a"), E(act="Set", d=1, a="a"), E(act="Set", d=1, a="b")]  # p1 = {a:1}; d1 = {a:2, b:3}
P_HANDLE_AND_MEM = [E(act="New", d=1), E(act="Set", d=1, a="a"), E(act="WritePath", s=1, p=1, mode="w", all=True, ow=False),
                    E(act="Close", d=1), E(act="Open", d=1, p=1, mode="a"), E(act="New", d=2), E(act="Set", d=2, a="a"),
                    E(act="Set", d=2, a="b")]                                                    # d1 = handle on p1 {a:1}; d2 = {a:2, b:3}
P_NESTED = [E(act="New", d=1), E(act="Set", d=1, a="a"), E(act="New", d=2), E(act="SetDS", d=2, a="a", s=1),
            E(act="Set", d=2, a="b")]                                                            # d2 = {a: Dataset{a:1}, b:2}
# the history every value term of the grammar is sent through (token 1 = the term): memory, write, append, copy
P_VALUE = [E(act="New", d=1), E(act="Set", d=1, a="a"), E(act="WritePath", s=1, p=1, mode="w", all=True, ow=False),
           E(act="Open", d=2, p=1, mode="a"), E(act="Set", d=2, a="b"), E(act="Close", d=2), E(act="Open", d=2, p=1, mode="copy"),
           E(act="WritePath", s=2, p=2, mode="w-", all=False, attrs={"a"}, ow=False)]
S_MEM_A = script(*P_MEM_A)
RICH = [P_FILE_AB, P_TWO_MEM, P_FILE_AND_MEM, P_HANDLE_AND_MEM, P_NESTED]


def scripts(*pairs):
    """TLA+ text of the constant Scripts: pairs (prefix as list of events, number of free calls)"""
    return "{" + ", ".join(f"[s |-> {script(*p)}, m |-> {m}]" for p, m in pairs) + "}"


def families(tier):
    """(name, constants/defs, simulation) for the generator runs.  One TLC run per family; a family is a set of
    (scripted prefix, number of free calls) over one alphabet."""
    full = {"D": "1..2", "P": "1..2", "OpenModes": ALL_OPEN, "WriteModes": ALL_WRITE, "Nested": "TRUE"}
    core = {"D": "1..2", "P": "1..1", "OpenModes": '{"a", "copy", "r"}', "WriteModes": '{"a", "w"}', "Nested": "FALSE"}
    if tier == "quick":
        return [
            # everything that can be done in 3 calls from nothing; every single call from five rich states; every two calls from
            # two of them (sampled above the cap)
            ("main", dict(full, Scripts=scripts(([], 3), *[(p, 1) for p in RICH], (P_TWO_MEM, 2), (P_HANDLE_AND_MEM, 2))), None),
            # write / append / copy / read core on one path, 3 calls after d1 = {a}
            ("core", dict(core, Scripts=scripts((P_MEM_A, 3))), None),
            ("deep", dict(full, D="1..3", Scripts=scripts(([], 10))), ("num=60", 11)),
        ]
    return [
        ("main", dict(full, Scripts=scripts(([], 4), *[(p, 2) for p in RICH])), None),
        ("core", dict(core, Scripts=scripts((P_MEM_A, 3), (P_FILE_AB, 3))), None),
        ("deep", dict(full, D="1..3", Scripts=scripts(([], 14))), ("num=300", 15)),
    ]


def gen_run(name, c, sim, seed, workers=None):
    wd = lib.workdir(PID, "gen_" + name)
    defs = {k: c[k] for k in ("D", "P", "OpenModes", "WriteModes", "Scripts")}
    defs["AttrSeq"] = ATTRSEQ
    kw = {}
    if sim:
        kw = {"simulate": sim[0], "depth": sim[1], "seed": seed + 1}
        workers = 1                                  # one simulation worker: the run is deterministic for a seed
    r = lib.run_tlc_mc("DatasetStoreGen", defs, wd, constants={"MaxSteps": 99, "Nested": c["Nested"], "Canon": "TRUE"},
                       init="GInit", next_="GNext", constraints=["Emit"], invariants=["TypeOK"], timeout=1500, workers=workers, **kw)
    lib.require_ok(r, f"DatasetStoreGen/{name}")
    seen, out = set(), []
    for j in r.json_lines:
        key = json.dumps(j["hist"], sort_keys=True)
        if key not in seen:
            seen.add(key)
            j["exp"] = dsreplay.exp_to_obs(j["exp"])
            out.append(j)
    r.out, r.json_lines = "", []
    out.sort(key=lambda j: json.dumps(j["hist"], sort_keys=True))
    nd = int(c["D"].split("..")[1])
    np_ = int(c["P"].split("..")[1])
    return r, out, nd, np_


# --------------------------------------------------------------------------------------------- model checking
def mc_run(tier, workers):
    wd = lib.workdir(PID, "mc")
    steps = 5 if tier == "quick" else 7
    defs = {"D": "1..2", "P": "1..2", "AttrSeq": ATTRSEQ, "OpenModes": ALL_OPEN, "WriteModes": ALL_WRITE}
    inv = ["TypeOK", "OneHandle", "HandleHasFile", "NoFileNoData", "Provenance", "TokensNamed"]
    r = lib.run_tlc_mc("DatasetStore", defs, wd, constants={"MaxSteps": steps, "Nested": "TRUE", "Canon": "TRUE"},
                       invariants=inv, properties=["PropsHold"], workers=workers, timeout=1500)
    if r.invariant_violated or not r.ok():
        lib.require_ok(r, "DatasetStore (model checking)")
    return r, {"module": "DatasetStore", "MaxSteps": steps, "slots": 2, "paths": 2, "attrs": 2, "states": r.distinct,
               "invariants": inv, "action_properties": ["SourceKept", "ErrorKeeps", "Frame", "WriteFresh", "KeepWithoutOverwrite",
                                                        "SourceWins", "CopyIsSnapshot"]}


def value_run(tier, workers):
    wd = lib.workdir(PID, "valgen")
    l2 = '{"scalar", "str", "none", "array", "op"}' if tier == "quick" else CLASSES9
    r = lib.run_tlc("DatasetValueGen", lib.cfg(constants={"LeafKinds": CLASSES9, "LeafKinds2": l2, "Containers": '{"list", "tuple", "dict"}',
                                                          "W1": 1, "W2": 2, "Depth": 2}, constraints=["Emit"]), wd, workers=workers, timeout=1500)
    lib.require_ok(r, "DatasetValueGen")
    seen, terms = set(), []
    for j in r.json_lines:
        if j["term"] != j["expect"]:
            raise lib.MachineryError("value generator: expectation differs from the term")
        k = json.dumps(j["term"], sort_keys=True)
        if k not in seen:
            seen.add(k)
            terms.append(j["term"])
    terms.sort(key=lambda t: json.dumps(t, sort_keys=True))
    if len(terms) < 200:
        raise lib.MachineryError("value generator produced too few terms")
    return r, terms


# --------------------------------------------------------------------------------------------- jobs
def term_depth(t):
    return 0 if not t["ch"] and t["k"] not in ("list", "tuple", "dict") else 1 + max([term_depth(c) for c in t["ch"]] + [0])


def plan_for(hist, rng, terms, containers):
    """a term for every token of the history: mostly cheap leaves, some rich leaves, some container terms"""
    plan = []
    for e in hist:
        if e["act"] in ("Set", "SetIn"):
            u = rng.random()
            if u < 0.70:
                plan.append({"k": rng.choice(V.CHEAP), "ch": []})
            elif u < 0.88:
                plan.append({"k": rng.choice(("sparse", "op", "ham", "pytree") * 5 + ("mol",)), "ch": []})
            else:
                plan.append(containers[rng.randrange(len(containers))])
    return plan


def n_tokens(hist):
    return sum(1 for e in hist if e["act"] in ("Set", "SetIn"))


def execute(groups, nproc):
    """groups: list of (jobs, nD, nP).  Runs everything in a fork pool; returns {job id: result}."""
    root = str(lib.workdir(PID, "files"))
    tasks = []
    for jobs, nd, np_ in groups:
        for i in range(0, len(jobs), 20):
            tasks.append((jobs[i:i + 20], root, nd, np_))
    tasks.sort(key=lambda t: -sum(len(j["hist"]) for j in t[0]))
    out = {}
    if nproc <= 1:
        for t in tasks:
            for r in dsreplay.run_chunk(t):
                out[r["id"]] = r
        return out
    import gc
    V.pools()                       # built once, inherited by the workers
    gc.collect()
    gc.freeze()                     # keep the garbage collector from touching (and copying) the inherited heap in the workers
    ctx = mp.get_context("fork")
    with ctx.Pool(nproc) as pool:
        for res in pool.imap_unordered(dsreplay.run_chunk, tasks):
            for r in res:
                out[r["id"]] = r
    gc.unfreeze()
    return out


# --------------------------------------------------------------------------------------------- trace validation
def validate(traces, nd, np_, name, workers):
    """traces: list of traces (lists of records) -> list of verdicts (step, clauses, drift) and the TLC result"""
    wd = lib.workdir(PID, "trace_" + name)
    path = wd / "traces.json"
    path.write_text(json.dumps(traces, separators=(",", ":")))
    r = lib.run_tlc_mc("Trace_DatasetStore", {"D": f"1..{nd}", "P": f"1..{np_}", "AttrSeq": ATTRSEQ, "OpenModes": ALL_OPEN,
                                              "WriteModes": ALL_WRITE},
                       wd, constants={"NTRACES": len(traces), "MaxSteps": 0, "Nested": "TRUE", "Canon": "FALSE"},
                       init="TInit", next_="TNext", env={"TRACE_FILE": str(path)}, workers=workers, timeout=2400)
    lib.require_ok(r, f"Trace_DatasetStore/{name}")
    verd = {}
    for t in r.tuples:
        if t and t[0] == "V":
            verd[t[1] - 1] = (t[2], t[3], t[4])
    if len(verd) != len(traces):
        missing = [i for i in range(len(traces)) if i not in verd][:3]
        raise lib.MachineryError(f"verdicts not total for {name}: {len(verd)} of {len(traces)} (first missing: {missing}; "
                                 f"a recorded call is not enabled in the model)")
    return [verd[i] for i in range(len(traces))], r


def corrupt(trace, kind, rng):
    """negative control: returns (corrupted trace, step (1-based), clause that must be reported) or None"""
    t = json.loads(json.dumps(trace))
    idx = list(range(len(t)))
    rng.shuffle(idx)
    for i in idx:
        o = t[i]["obs"]
        if not t[i]["chk"]:
            continue
        if kind == "token":
            for d in o["ds"]:
                if d[0] == "open":
                    for row in d[1]:
                        if row[0] == "v":
                            row[1] += 1
                            return t, i + 1, "content"
        elif kind == "stale":
            for d in o["ds"]:
                if d[0] == "open" and not d[2]:
                    for row in d[1]:
                        if row[0] == "v":
                            d[2], d[3] = True, json.loads(json.dumps(d[1]))
                            row[1] += 1
                            return t, i + 1, "stale-view"
        elif kind == "file":
            for f in o["files"]:
                if f[0] and not f[1]:
                    for row in f[2]:
                        if row[0] == "v":
                            row[0], row[1] = "-", 0
                            return t, i + 1, "file-content"
        elif kind == "closed":
            for d in o["ds"]:
                if d[0] == "open":
                    d[0] = "closed"
                    return t, i + 1, "status"
        elif kind == "exc":
            if t[i]["exc"] == "":
                t[i]["exc"] = "OSError"
                return t, i + 1, "exc"
        elif kind == "extra":
            for d in o["ds"]:
                if d[0] == "open":
                    d[4] = 1
                    return t, i + 1, "content"
    return None


def comparator_controls():
    """every pool value must differ from a perturbed copy and from every other pool value of its class"""
    import numpy as np
    import scipy.sparse as sp
    import pennylane as qp
    n = 0
    P = V.pools()
    for cls, pool in P.items():
        for i, (nm, v) in enumerate(pool):
            if not V.equal(v, v):
                raise lib.MachineryError(f"comparator: {cls}/{nm} is not equal to itself")
            for nm2, v2 in pool[i + 1:]:
                if V.equal(v, v2) and not (cls == "scalar" and {nm, nm2} == {"zero", "false"}):
                    raise lib.MachineryError(f"comparator: {cls}/{nm} equals {cls}/{nm2}")
                n += 1
    pert = [(3, 4), (0.25, 0.25 + 1e-12), ("hello", "hello "), (None, 0), ([1, 2], (1, 2)), ((1, 2), [1, 2]), ({"k0": 1}, {"k1": 1}),
            ([1, [2]], [1, [3]]), (np.arange(6).reshape(2, 3), np.arange(6).reshape(3, 2)), (np.array([1.0, 2.0]), np.array([1.0, 2.0 + 1e-9])),
            (sp.csr_array(np.eye(2)), sp.csr_array(np.eye(2) * 2)), (sp.csr_array(np.eye(2)), sp.csr_array(np.eye(3))),
            (qp.RX(0.5, 0), qp.RX(0.5 + 1e-9, 0)), (qp.RX(0.5, 0), qp.RX(0.5, 1)), (qp.RX(0.5, 0), qp.RY(0.5, 0)),
            (qp.CNOT([0, 1]), qp.CNOT([1, 0])), (qp.X(0) @ qp.Z(1), qp.Z(1) @ qp.X(0)),
            (qp.Hamiltonian([0.5, 1.0], [qp.X(0), qp.Z(1)]), qp.Hamiltonian([0.5, -1.0], [qp.X(0), qp.Z(1)])),
            (qp.Hamiltonian([0.5, 1.0], [qp.X(0), qp.Z(1)]), qp.Hamiltonian([0.5, 1.0], [qp.X(0), qp.Y(1)])),
            (qp.expval(qp.Z(0)), qp.var(qp.Z(0))), (qp.expval(qp.Z(0)), qp.expval(qp.Z(1))),
            (qp.tape.QuantumScript([qp.X(0)], [qp.probs(wires=[0])], shots=10), qp.tape.QuantumScript([qp.X(0)], [qp.probs(wires=[0])], shots=11)),
            (V.leaf("mol", "H2"), V.leaf("mol", "H3p")),
            (qp.qchem.Molecule(["H", "H"], np.array([[0.0, 0, 0], [0, 0, 1.4]])), qp.qchem.Molecule(["H", "H"], np.array([[0.0, 0, 0], [0, 0, 1.5]])))]
    for w, g in pert:
        if V.equal(w, g):
            raise lib.MachineryError(f"comparator accepted a perturbed value: {V.describe(w)} vs {V.describe(g)}")
        n += 1
    return n



# --------------------------------------------------------------------------------------------- list attributes edited in place
def list_cfgs(tier):
    """(Cfgs of the generator, MaxLen, cap on the replayed histories with the largest number of free calls)"""
    def cf(starts, m):
        return [f'[start |-> {k}, loc |-> "{loc}", m |-> {m}]' for k in starts for loc in ("mem", "file")]
    if tier == "quick":
        return "{" + ", ".join(cf((3,), 2) + cf((2,), 3)) + "}", 5, 3, 150
    return "{" + ", ".join(cf((0, 1, 2, 3, 4), 3) + cf((0, 2, 3), 4)) + "}", 6, 4, 20000


def list_mc_run(tier, workers):
    wd = lib.workdir(PID, "listmc")
    steps = 4 if tier == "quick" else 5
    cfgs = "{" + ", ".join(f'[start |-> {k}, loc |-> "{loc}", m |-> {steps}]' for k in (0, 1, 2, 3) for loc in ("mem", "file")) + "}"
    r = lib.run_tlc_mc("DatasetListEdit", {"Cfgs": cfgs}, wd, constants={"MaxLen": 5, "MaxSteps": steps},
                       invariants=["TypeOK", "Distinct"], properties=["ListProps"], workers=workers, timeout=1500)
    if r.invariant_violated or not r.ok():
        lib.require_ok(r, "DatasetListEdit (model checking)")
    return r, {"module": "DatasetListEdit", "MaxSteps": steps, "MaxLen": 5, "states": r.distinct, "invariants": ["TypeOK", "Distinct"],
               "action_properties": ["InsertProp", "DelProp", "SetProp", "ReadOnly", "GetProp", "ErrProp"]}


def list_gen_run(tier, workers):
    wd = lib.workdir(PID, "listgen")
    cfgs, maxlen, mmax, cap = list_cfgs(tier)
    r = lib.run_tlc_mc("DatasetListEditGen", {"Cfgs": cfgs}, wd, constants={"MaxLen": maxlen, "MaxSteps": 99},
                       init="GInit", next_="GNext", constraints=["Emit"], invariants=["TypeOK", "Distinct"], workers=workers, timeout=1500)
    lib.require_ok(r, "DatasetListEditGen")
    seen, out = set(), []
    for j in r.json_lines:
        k = json.dumps(j, sort_keys=True)
        if k not in seen:
            seen.add(k)
            out.append(j)
    r.out, r.json_lines = "", []
    out.sort(key=lambda j: json.dumps(j, sort_keys=True))
    return r, out, mmax, cap


def list_plan(ntok, rng, containers):
    plan = []
    for _ in range(ntok):
        u = rng.random()
        if u < 0.75:
            plan.append({"k": rng.choice(V.CHEAP), "ch": []})
        elif u < 0.90:
            plan.append({"k": rng.choice(("sparse", "op", "ham", "pytree")), "ch": []})
        else:
            plan.append(containers[rng.randrange(len(containers))])
    return plan


def read_edit_read(hist):
    """the history reads elements, then shifts elements (insert / delete not at the end), and reads again afterwards (the final read counts)"""
    read = False
    for e in hist:
        if e["act"] in ("Get", "GetAll") and not e["err"]:
            read = True
        elif read and e["act"] in ("Insert", "Del") and not e["err"]:
            before = e["len"] - 1 if e["act"] == "Insert" else e["len"] + 1
            pos = e["i"] if e["i"] >= 0 else max(0, before + e["i"])
            if pos < before - (0 if e["act"] == "Insert" else 1):
                return True
    return False


def list_phase(lgen, tier, seed, rng, containers, nproc):
    """replay of the generated list histories -> (violations, coverage dict, states, transitions)"""
    r, hists, mmax, cap = lgen
    total = len(hists)
    keep = [j for j in hists if j["free"] < mmax]
    rest = [j for j in hists if j["free"] >= mmax]
    exhaustive = len(rest) <= cap
    if not exhaustive:
        rest = rng.sample(rest, cap)
    jobs = []
    for k, j in enumerate(keep + rest):
        ntok = j["start"] + sum(1 for e in j["hist"] if e["v"] > 0)
        jobs.append({"id": k, "start": j["start"], "loc": j["loc"], "hist": j["hist"], "final": j["final"],
                     "plan": list_plan(ntok, rng, containers), "seed": seed * 1000003 + 500000 + k})
    results = dslist.execute(jobs, str(lib.workdir(PID, "listfiles")), nproc)
    if len(results) != len(jobs):
        raise lib.MachineryError("list replay lost jobs")
    bad, acts, n_rer, calls, elems = {}, {}, 0, 0, 0
    oks = []
    for job in jobs:
        res = results[job["id"]]
        v = dslist.compare(job, res["steps"], res["final"])
        for e in job["hist"]:
            acts[e["act"]] = acts.get(e["act"], 0) + 1
        calls += len(job["hist"]) + 3
        elems += sum(len(o["ret"]) for o in res["steps"]) + sum(len(x) for x in res["final"].values())
        if read_edit_read(job["hist"]):
            n_rer += 1
        if v is None:
            oks.append(job)
        else:
            bad.setdefault(f"list:{v[1]}:{v[2]}", []).append((job, v))
    # negative controls: a corrupted expectation must be rejected by the comparator
    neg = 0
    cand = [j for j in oks if len(j["final"]) >= 2]
    for job in rng.sample(cand, min(40, len(cand))):
        c = json.loads(json.dumps(job))
        res = results[job["id"]]
        if neg % 2 == 0:
            c["final"][0], c["final"][1] = c["final"][1], c["final"][0]
        else:
            tgt = [e for e in c["hist"] if e["ret"]]
            if tgt:
                tgt[0]["ret"][0] += 1
            else:
                c["final"] = c["final"][:-1]
        if dslist.compare(c, res["steps"], res["final"]) is None:
            raise lib.MachineryError("list negative control accepted: corrupted expectation not rejected")
        neg += 1
    if oks and neg < 10:
        raise lib.MachineryError(f"too few list negative controls: {neg}")
    need = ["Get", "GetAll", "Insert", "Append", "Del", "SetItem", "Save", "Reopen"]
    if [a for a in need if not acts.get(a)] or not n_rer:
        raise lib.MachineryError(f"vacuous list replay: calls {acts}, read-shift-read histories {n_rer}")
    viol = []
    for key, lst in sorted(bad.items()):
        lst.sort(key=lambda t: (len(t[0]["hist"]), t[0]["id"]))
        for job, v in lst[:3]:
            res = results[job["id"]]
            viol.append(Violation(key=key, detail=f"step {v[0]} [{v[2]}] of list history {dslist.short(job, v[0])}; expected "
                                                  f"{job['hist'][v[0] - 1] if v[0] <= len(job['hist']) else {'final': job['final']}}; observed "
                                                  f"{res['steps'][v[0] - 1] if v[0] <= len(job['hist']) else res['final']}; values "
                                                  f"{[x['leaves'] or x['term'] for x in res['values']]}; notes {res['notes']} "
                                                  f"({len(lst)} histories fail with this key)",
                                  replay={"kind": "list", "job": job}))
    sample = None
    for job in oks:
        if read_edit_read(job["hist"]) and len(job["hist"]) >= 3:
            sample = {"family": "list", "history": dslist.short(job), "final": job["final"], "verdict": "ok"}
            break
    cov = {"histories_enumerated": total, "replayed": len(jobs), "exhaustive": exhaustive, "calls_compared": calls, "elements_read_back": elems,
           "calls": acts, "read_then_shift_then_read_histories": n_rer, "negative_controls_rejected": neg,
           "histories_not_explained": sum(len(x) for x in bad.values()), "sample": sample, "tlc_states": r.distinct}
    return viol, cov, len(oks), n_rer


# --------------------------------------------------------------------------------------------- the check
KEY_OF = {"src-closed": "read:closes-source-dataset"}


def keys_for(act, clauses, exc):
    out = []
    for c in clauses.split("+"):
        if c in KEY_OF:
            out.append(KEY_OF[c])
        elif c == "stale-view":
            out.append(f"{act}:destination-handle-shows-stale-value")
        elif c == "exc":
            out.append(f"{act}:raised-{exc}")
        else:
            out.append(f"{act}:{c}")
    return out


def short_event(e):
    act = e["act"]
    sel = "all" if e["all"] else ",".join(e["attrs"])
    if act == "New":
        return f"d{e['d']}=Dataset()"
    if act == "Set":
        return f"d{e['d']}.{e['a']}=v{e['v']}"
    if act == "SetDS":
        return f"d{e['d']}.{e['a']}=d{e['s']}"
    if act == "SetIn":
        return f"d{e['d']}.{e['a']}.{e['x']}=v{e['v']}"
    if act == "Del":
        return f"del d{e['d']}.{e['a']}"
    if act == "WritePath":
        return f"d{e['s']}.write(p{e['p']},'{e['mode']}',attrs={sel},overwrite={e['ow']})"
    if act == "WriteDS":
        return f"d{e['s']}.write(d{e['d']},attrs={sel},overwrite={e['ow']})"
    if act == "Open":
        return f"d{e['d']}=open(p{e['p']},'{e['mode']}')"
    if act == "ReadPath":
        return f"d{e['d']}.read(p{e['p']},attrs={sel},overwrite={e['ow']})"
    if act == "ReadDS":
        return f"d{e['d']}.read(d{e['s']},attrs={sel},overwrite={e['ow']})"
    return f"d{e['d']}.close()"


def measure(trace, stats):
    """vacuity counters and the non-triviality rule, from the recorded observations"""
    origin, moved = {}, False
    prev = None
    for rec in trace:
        e, o = rec["e"], rec["obs"]
        stats["acts"][e["act"]] = stats["acts"].get(e["act"], 0) + 1
        if e["mode"]:
            k = f"{e['act']}:{e['mode']}"
            stats["modes"][k] = stats["modes"].get(k, 0) + 1
        if e["act"] in ("Set", "SetIn"):
            origin[e["v"]] = e["d"]
        if rec["exc"]:
            stats["exceptions"][rec["exc"]] = stats["exceptions"].get(rec["exc"], 0) + 1
        if not rec["chk"]:
            prev = None
            continue
        stats["steps"] += 1
        # conflicts: an attribute present both in the source and in the destination before the call
        if prev is not None and e["act"] in ("WriteDS", "ReadDS", "ReadPath", "WritePath") and not rec["exc"]:
            def rows_of(kind, i):
                x = prev["ds"][i - 1] if kind == "d" else prev["files"][i - 1]
                if kind == "d":
                    return x[1] if x[0] == "open" else None
                return x[2] if x[0] and not x[1] else None
            src = rows_of("p", e["p"]) if e["act"] == "ReadPath" else rows_of("d", e["s"])
            dst = rows_of("p", e["p"]) if e["act"] == "WritePath" else rows_of("d", e["d"])
            if e["act"] == "WritePath" and e["mode"] != "a":
                dst = None
            if src and dst:
                for i, a in enumerate(dsreplay.ATTRS):
                    if src[i][0] != "-" and dst[i][0] != "-" and (e["all"] or a in e["attrs"]):
                        stats["conflict_overwrite" if e["ow"] else "conflict_keep"] += 1
        for di, d in enumerate(o["ds"]):
            if d[0] == "open":
                for row in d[1]:
                    if row[0] == "d":
                        stats["nested_observed"] += 1
                    for t in [row[1]] + row[2:]:
                        if t > 0:
                            stats["values_read_back"] += 1
                            if origin.get(t) != di + 1:
                                moved = True
        for f in o["files"]:
            if f[0] and not f[1] and f[2]:
                for row in f[2]:
                    for t in [row[1]] + row[2:]:
                        if t > 0:
                            stats["values_read_back"] += 1
                            stats["values_read_from_disk"] += 1
                            moved = True
        prev = o
    return moved


def run(tier, seed):
    t00 = time.time()
    rng = random.Random(seed)
    W = int(os.environ.get("VERIF_TLC_WORKERS", "16"))
    nproc = int(os.environ.get("VERIF_PY_WORKERS", str(min(16, os.cpu_count() or 4, max(2, W)))))
    fams = families(tier)
    # ---- phase 1: all TLC generator / model-checking runs, concurrently
    from concurrent.futures import ThreadPoolExecutor
    per = max(2, W // 4)
    with ThreadPoolExecutor(max_workers=len(fams) + 4) as tp:
        f_mc = tp.submit(mc_run, tier, per)
        f_val = tp.submit(value_run, tier, 2)
        f_gen = {name: tp.submit(gen_run, name, c, sim, seed, per) for name, c, sim in fams}
        f_lmc = tp.submit(list_mc_run, tier, 2)
        f_lgen = tp.submit(list_gen_run, tier, 2)
        mc_res, mc_info = f_mc.result()
        val_res, terms = f_val.result()
        gens = {name: f.result() for name, f in f_gen.items()}
        lmc_res, lmc_info = f_lmc.result()
        lgen = f_lgen.result()
    t_gen = time.time() - t00
    containers = [t for t in terms if t["ch"] or t["k"] in ("list", "tuple", "dict")]
    tlc_states = mc_res.distinct + val_res.distinct + lmc_res.distinct + lgen[0].distinct
    tlc_trans = mc_res.generated + val_res.generated + lmc_res.generated + lgen[0].generated

    # ---- phase 2: jobs
    scale = float(os.environ.get("VERIF_C64_SCALE", "1"))            # development only: shrink the sampled families
    # cap on the number of replayed histories with >= 2 free calls after a scripted prefix / of core / of deep histories
    caps = {"quick": {"main": 800, "core": 500, "deep": 100},
            "thorough": {"main": None, "core": 40000, "deep": 4000}}[tier]
    if scale != 1:
        caps = {k: int((v or 3000) * scale) for k, v in caps.items()}
    jobs, meta, groups = [], {}, []
    fam_info = {}
    jid = 0
    exhaustive = True
    for name, c, sim in fams:
        r, hists, nd, np_ = gens[name]
        tlc_states += r.distinct
        tlc_trans += r.generated
        total = len(hists)
        cap = caps.get(name)
        if sim:
            hists = sorted(hists, key=lambda j: (-len(j["hist"]), json.dumps(j["hist"], sort_keys=True)))
            long_ = [j for j in hists if len(j["hist"]) >= 6]
            hists = rng.sample(long_, min(cap, len(long_)))
        elif cap is not None:
            # always replayed: every history from nothing, every one-call continuation of a scripted prefix
            keep = [j for j in hists if (j["pre"] == 0 or j["free"] <= 1) and name == "main"]
            rest = [j for j in hists if not ((j["pre"] == 0 or j["free"] <= 1) and name == "main")]
            if len(rest) > cap:
                rest = rng.sample(rest, cap)
                exhaustive = False
            if scale != 1:
                keep = rng.sample(keep, int(len(keep) * scale))
                exhaustive = False
            hists = keep + rest
        fam_info[name] = {"histories_enumerated": total, "replayed": len(hists), "tlc_states": r.distinct,
                          "simulation": bool(sim), "bounds": {k: c[k] for k in ("D", "P", "Nested", "OpenModes", "WriteModes")},
                          "prefix_length_and_free_calls": sorted({(j["pre"], j["free"]) for j in hists})}
        gjobs, seen_pre = [], set()
        for j in hists:
            pre = j["pre"]
            pkey = json.dumps(j["hist"][:pre], sort_keys=True)
            obs_from = 0 if (pre == 0 or pkey not in seen_pre) else pre - 1
            seen_pre.add(pkey)
            job = {"id": jid, "hist": j["hist"], "plan": plan_for(j["hist"], rng, terms, containers), "seed": seed * 1000003 + jid,
                   "obs_from": obs_from}
            meta[jid] = {"family": name, "exp": j["exp"], "nd": ND, "np": NP}
            gjobs.append(job)
            jid += 1
        groups.append((gjobs, ND, NP))
        jobs += gjobs
    # the value grammar: every term goes through the write / append / copy history
    vhist = py_history(P_VALUE)
    vjobs = []
    vterms = terms
    if tier == "quick":          # every term of depth <= 1, a seeded sample of the depth-2 terms (all of them in the thorough tier)
        shallow = [t for t in terms if term_depth(t) <= 1]
        deep2 = [t for t in terms if term_depth(t) > 1]
        vterms = shallow + rng.sample(deep2, min(int(200 * scale), len(deep2)))
        exhaustive = False
    elif scale != 1:
        vterms = rng.sample(terms, int(len(terms) * scale))
    for t in vterms:
        job = {"id": jid, "hist": vhist, "plan": [t, {"k": rng.choice(V.CHEAP), "ch": []}], "seed": seed * 1000003 + jid, "obs_from": 0}
        meta[jid] = {"family": "values", "exp": None, "nd": ND, "np": NP, "term": t}
        vjobs.append(job)
        jid += 1
    groups.append((vjobs, ND, NP))
    jobs += vjobs
    fam_info["values"] = {"terms_enumerated": len(terms), "replayed": len(vjobs), "history": [short_event(e) for e in vhist],
                          "leaf_classes": list(V.CLASSES), "pool_sizes": {k: len(v) for k, v in V.pools().items()}}
    n_cmp = comparator_controls()

    t1 = time.time()
    results = execute(groups, nproc)
    if len(results) != len(jobs):
        raise lib.MachineryError("replay lost jobs")
    list_viol, list_cov, list_ok, list_rer = list_phase(lgen, tier, seed, rng, containers, nproc)
    list_cov["model"] = dict(lmc_info, violated=lmc_res.invariant_violated)
    t_exec = time.time() - t1

    # ---- phase 3: trace validation (one TLC run per (slots, paths) shape), with corrupted copies as negative controls
    by_shape = {}
    for job in jobs:
        m = meta[job["id"]]
        by_shape.setdefault((m["nd"], m["np"]), []).append(job["id"])
    verdict, controls = {}, []
    kinds = ["token", "stale", "file", "closed", "exc", "extra"]
    runs = []
    shaped = []
    for (nd, np_), ids in sorted(by_shape.items()):
        for k in range(0, len(ids), 20000):
            shaped.append(((nd, np_), ids[k:k + 20000]))
    first22 = True
    for (nd, np_), ids in shaped:
        traces = [results[i]["trace"] for i in ids]
        ctl = []
        if first22:
            first22 = False
            cand = [i for i in ids if not any(r["e"]["act"] in ("ReadDS", "WriteDS", "ReadPath") for r in results[i]["trace"])]
            rng.shuffle(cand)
            want = 30 if tier == "quick" else 120
            for n_, i in enumerate(cand[:want * 5]):             # over-provisioned: a control whose original is itself rejected is uninformative
                cr = corrupt(results[i]["trace"], kinds[n_ % len(kinds)], rng)
                if cr and len(ctl) < want * 4:
                    ctl.append((i, len(traces), cr[1], cr[2], kinds[n_ % len(kinds)]))
                    traces.append(cr[0])
        runs.append((nd, np_, ids, traces, ctl))
    t2 = time.time()
    with ThreadPoolExecutor(max_workers=min(4, len(runs))) as tp:
        futs = [tp.submit(validate, traces, nd, np_, f"{nd}x{np_}_{k}", max(2, W // len(runs))) for k, (nd, np_, ids, traces, ctl) in enumerate(runs)]
        outs = [f.result() for f in futs]
    t_val = time.time() - t2
    neg_ok, neg_total = 0, 0
    for (nd, np_, ids, traces, ctl), (verds, r) in zip(runs, outs):
        tlc_states += r.distinct
        tlc_trans += r.generated
        for k, i in enumerate(ids):
            verdict[i] = verds[k]
        for (orig, pos, step, clause, kind) in ctl:
            if verdict[orig][1] != "ok":
                continue                      # the original is not explained itself: uninformative control
            neg_total += 1
            st, cl, _ = verds[pos]
            if st == step and clause in cl.split("+"):
                neg_ok += 1
            else:
                raise lib.MachineryError(f"negative control accepted: corrupted ({kind}) step {step}, expected clause {clause}, verdict {(st, cl)}")
    n_bad = sum(1 for v in verdict.values() if v[1] != "ok")
    if neg_total < 10 and not (neg_total >= 3 and n_bad > len(verdict) // 4):
        raise lib.MachineryError(f"too few informative negative controls: {neg_total}")

    # ---- verdicts -> violations; evidence
    stats = {"acts": {}, "modes": {}, "exceptions": {}, "steps": 0, "conflict_overwrite": 0, "conflict_keep": 0, "nested_observed": 0,
             "values_read_back": 0, "values_read_from_disk": 0}
    viol, drift, fidelity, nontriv, samples = list(list_viol), 0, {}, set(), []
    bad_by_key = {}
    leaf_seen = set()
    for job in jobs:
        i = job["id"]
        res, m = results[i], meta[i]
        step, clauses, dr = verdict[i]
        drift += dr
        for k, v in res["fidelity"].items():
            fidelity[k] = fidelity.get(k, 0) + v
        tr = res["trace"] if clauses == "ok" else res["trace"][:step]
        moved = measure(tr, stats)
        for vn in res["values"]:
            leaf_seen.update(vn["leaves"])
        hkey = json.dumps([r["e"] for r in res["trace"]], sort_keys=True)
        if moved:
            nontriv.add((hkey, json.dumps(job["plan"], sort_keys=True)))
        if clauses == "ok":
            # cross-check with the generator's own expectation for the end of the history
            if m["exp"] is not None and res["trace"] and res["trace"][-1]["chk"]:
                want = json.loads(json.dumps(m["exp"]))
                want["ds"] += [["none", 0]] * (ND - len(want["ds"]))            # every history is observed with ND slots and NP paths
                want["files"] += [[False, 0]] * (NP - len(want["files"]))
                o = res["trace"][-1]["obs"]
                got = {"ds": [[d[0], d[1] if d[0] == "open" else 0] for d in o["ds"]],
                       "files": [[f[0], f[2] if f[0] and not f[1] else 0] for f in o["files"]]}
                for fi, f in enumerate(o["files"]):
                    if f[1]:
                        want["files"][fi][1] = 0
                if got != want:
                    raise lib.MachineryError(f"trace accepted but the final observation differs from the generator's expectation: {got} vs {want}")
            if len(samples) < 4 and moved and (m["family"] == "values" or len(job["hist"]) >= 5) and (len(samples) % 2 == 0) == (m["family"] != "values"):
                samples.append({"family": m["family"], "history": [short_event(e) for e in job["hist"]],
                                "values": [v["leaves"] or v["term"] for v in res["values"]], "verdict": "ok"})
            continue
        ev = res["trace"][step - 1]["e"]
        exc = res["trace"][step - 1]["exc"]
        for key in keys_for(ev["act"], clauses, exc):
            bad_by_key.setdefault(key, []).append(i)
    for key, ids in sorted(bad_by_key.items()):
        ids.sort(key=lambda i: (len(results[i]["trace"]), i))
        for i in ids[:3]:
            res, job = results[i], jobs[i]
            step, clauses, _ = verdict[i]
            hist = [short_event(e) for e in job["hist"][:step]]
            viol.append(Violation(key=key, detail=f"step {step} [{clauses}] of history {hist}; values {[v['leaves'] or v['term'] for v in res['values']]}; "
                                                  f"notes {res['notes']}; observed after the step: {res['trace'][step - 1]['obs']} "
                                                  f"({len(ids)} histories fail with this key)",
                                  replay={"hist": job["hist"][:step], "plan": job["plan"], "seed": job["seed"], "nd": meta[i]["nd"], "np": meta[i]["np"],
                                          "verdict": [step, clauses], "trace": res["trace"][:step]}))
    # vacuity
    need = ["New", "Set", "SetDS", "SetIn", "Del", "WritePath", "WriteDS", "Open", "ReadPath", "ReadDS", "Close"]
    miss = [a for a in need if not stats["acts"].get(a)]
    mmiss = [m_ for m_ in ("Open:w", "Open:w-", "Open:a", "Open:r", "Open:copy", "WritePath:w", "WritePath:w-", "WritePath:a") if not stats["modes"].get(m_)]
    if miss or mmiss or not stats["conflict_overwrite"] or not stats["conflict_keep"] or not stats["nested_observed"] or not stats["values_read_from_disk"]:
        raise lib.MachineryError(f"vacuous: actions never explained {miss}, modes {mmiss}, stats {stats}")
    want_leaves = {f"{k}/{nm}" for k, pool in V.pools().items() for nm, _ in pool}
    cov = {"states": tlc_states, "transitions": tlc_trans,
           "traces_validated_against_impl": len(jobs) + list_cov["replayed"], "evaluations": stats["steps"] + list_cov["calls_compared"],
           "distinct_nontrivial": len(nontriv) + list_rer, "list_attributes_edited_in_place": list_cov,
           "rule": "distinct (history, value terms) in which a value was read back, equal to what was assigned, from a place other than the "
                   "dataset object it was assigned to (a file on disk, a handle on that file, a copy, the destination of write/read); plus list histories "
                   "in which elements were read, then shifted by an insert / delete not at the end, then read again",
           "samples": samples + ([list_cov["sample"]] if list_cov["sample"] else []), "exhaustive": exhaustive and list_cov["exhaustive"],
           "model": dict(mc_info, violated=mc_res.invariant_violated),
           "families": fam_info, "calls_explained": stats["acts"], "modes": stats["modes"], "expected_failures_seen": stats["exceptions"],
           "values_read_back": stats["values_read_back"], "values_read_from_disk": stats["values_read_from_disk"],
           "conflicts_overwritten": stats["conflict_overwrite"], "conflicts_kept": stats["conflict_keep"],
           "nested_datasets_observed": stats["nested_observed"],
           "value_terms": len(terms), "pool_instances_used": len(leaf_seen & want_leaves), "pool_instances": len(want_leaves),
           "negative_controls_rejected": neg_ok, "comparator_controls": n_cmp,
           "observations_read": sum(r_["read"] for r_ in results.values()), "observations_reused_unchanged_storage": sum(r_["reused"] for r_ in results.values()),
           "model_drift": drift, "fidelity_notes": fidelity, "histories_not_explained": sum(1 for v in verdict.values() if v[1] != "ok"),
           "reassigning_existing_attribute_raises": probe_reassign(),
           "wall": {"tlc_generate_s": round(t_gen, 1), "replay_s": round(t_exec, 1), "tlc_validate_s": round(t_val, 1), "py_workers": nproc,
                    "cpu_s_including_children": round(sum(os.times()[:4]), 1)}}
    return CheckResult(coverage=cov, violations=viol, assumptions=[
        "at most one open handle per path at any time; attribute lists name attributes present in the source",
        "an attribute is assigned only where it is absent (re-assignment = del + assign; `d.a = v` on an existing attribute raises in this tree, "
        "see reassigning_existing_attribute_raises)",
        "two attribute names, <= 3 python variables, <= 2 paths, nested datasets one level deep; identifiers and AttributeInfo metadata are not modelled",
        "equality per type: numbers/strings by ==, None by identity, containers by kind and elementwise, arrays by shape and values, sparse "
        "by shape and values, operators/Hamiltonians by class, wires, parameters, sub-operators and (<= 3 wires) matrix, molecules by their "
        "constructor fields, measurement processes and tapes structurally; dtype / sparse class / requires_grad differences are counted, not judged",
        "values are instances from a finite pool per class (harness/dsvalues.py); containers to depth 2, width 2",
        "list attributes edited in place: one list attribute, length <= 5-6, indices 0..len and -1, <= 3-4 reads/edits after the assignment; "
        "dict attributes edited in place are not exercised"])


def probe_reassign():
    """observation only (not part of the property): does `d.a = v` on an existing attribute replace it?"""
    from pennylane.data import Dataset
    d = Dataset(a=1)
    try:
        d.a = 2
        return False if d.a == 2 else "silently-kept-old-value"
    except Exception as ex:
        return type(ex).__name__


def replay(path, tier, seed):
    rep = json.loads(open(path).read())["replay"]
    if rep.get("kind") == "list":
        job = rep["job"]
        res = dslist.execute([job], str(lib.workdir(PID, "listfiles")), 1)[job["id"]]
        v = dslist.compare(job, res["steps"], res["final"])
        viol = [] if v is None else [Violation(key=f"list:{v[1]}:{v[2]}", detail=f"step {v[0]} [{v[2]}] of {dslist.short(job)}; observed "
                                                                               f"{res['steps']} final {res['final']}; notes {res['notes']}", replay=rep)]
        return CheckResult(coverage={"states": 0, "transitions": 0, "traces_validated_against_impl": 1, "evaluations": len(job["hist"]),
                                     "distinct_nontrivial": 1, "rule": "replay of one stored list history", "samples": [dslist.short(job)],
                                     "exhaustive": False}, violations=viol)
    job = {"id": 0, "hist": rep["hist"], "plan": rep["plan"], "seed": rep["seed"], "obs_from": 0}
    for e in job["hist"]:
        e.setdefault("err", "")
    res = execute([([job], rep["nd"], rep["np"])], 1)[0]
    verds, r = validate([res["trace"]], rep["nd"], rep["np"], "replay", 2)
    step, clauses, _ = verds[0]
    viol = []
    if clauses != "ok":
        ev, exc = res["trace"][step - 1]["e"], res["trace"][step - 1]["exc"]
        for key in keys_for(ev["act"], clauses, exc):
            viol.append(Violation(key=key, detail=f"step {step} [{clauses}] of {[short_event(e) for e in job['hist'][:step]]}; notes {res['notes']}",
                                  replay=rep))
    return CheckResult(coverage={"states": r.distinct, "transitions": r.generated, "traces_validated_against_impl": 1, "evaluations": len(res["trace"]),
                                 "distinct_nontrivial": 1, "rule": "replay of one stored history", "samples": [[short_event(e) for e in job["hist"]]],
                                 "exhaustive": False}, violations=viol)
