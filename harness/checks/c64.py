"""C64 Dataset attributes survive HDF5 round trips.

(M) spec/sys/DatasetStore.tla (files, open handles with mode, in-memory datasets, nested datasets; one action per
    public call, written from the docstrings) is model-checked exhaustively: type/handle/provenance invariants and the
    documented postconditions of write/read/open as action properties (source never changed or closed, failed call
    changes nothing, frame, mode "w" = fresh file, keep-without-overwrite, source-wins-with-overwrite, copy = snapshot).
(C) spec -> code: spec/gen/DatasetStoreGen.tla emits every history (exhaustive families; deeper ones by TLC
    simulation), spec/gen/DatasetValueGen.tla emits the value grammar; every history is executed on real
    pennylane.data objects and temporary HDF5 files under .work/C64 with concrete values for the tokens, and after
    every call everything readable is read back (through the live handles, and from disk by Dataset.open(p, "copy")).
    code -> spec: the recorded traces are validated step by step by spec/trace/Trace_DatasetStore.tla, which applies
    the same call to the model and compares; it names the first unexplained step and the failing clauses."""
from __future__ import annotations

import json
import multiprocessing as mp
import os
import random
import time

from .. import dsreplay, lib
from .. import dsvalues as V
from ..lib import CheckResult, Violation

PID = "C64"
ATTRSEQ = '<<"a", "b">>'
ALL_OPEN = '{"w", "w-", "a", "r", "copy"}'
ALL_WRITE = '{"w", "w-", "a"}'
CLASSES9 = "{" + ", ".join(f'"{c}"' for c in V.CLASSES) + "}"


def tla_event(**kw):
    """event parameters -> TLA+ record expression (the argument of Do)"""
    parts = []
    for k, v in kw.items():
        if isinstance(v, bool):
            parts.append(f"!.{k} = {'TRUE' if v else 'FALSE'}")
        elif isinstance(v, int):
            parts.append(f"!.{k} = {v}")
        elif isinstance(v, (set, frozenset, list)):
            parts.append(f"!.{k} = {{" + ", ".join(f'"{x}"' for x in sorted(v)) + "}")
        else:
            parts.append(f'!.{k} = "{v}"')
    return "[Ev0 EXCEPT " + ", ".join(parts) + "]"


def script(*evs):
    return "<<" + ", ".join(evs) + ">>"


E = tla_event
# scripted prefixes: states from which short exhaustive continuations are interesting
S_EMPTY = "<<>>"
S_MEM_A = script(E(act="New", d=1), E(act="Set", d=1, a="a"))                                   # d1 = {a:1} in memory
S_FILE_AB = script(E(act="New", d=1), E(act="Set", d=1, a="a"), E(act="Set", d=1, a="b"),        # p1 = {a:1, b:2}, d1 in memory {a:1,b:2}
                   E(act="WritePath", s=1, p=1, mode="w", all=True, ow=False))
S_TWO_MEM = script(E(act="New", d=1), E(act="Set", d=1, a="a"), E(act="New", d=2), E(act="Set", d=2, a="a"),
                   E(act="Set", d=2, a="b"))                                                     # d1 = {a:1}, d2 = {a:2, b:3}
S_FILE_AND_MEM = script(E(act="New", d=1), E(act="Set", d=1, a="a"), E(act="WritePath", s=1, p=1, mode="w", all=True, ow=False),
                        E(act="Del", d=1, a="a"), E(act="Set", d=1, a="a"), E(act="Set", d=1, a="b"))   # p1 = {a:1}; d1 = {a:2, b:3}
S_HANDLE_AND_MEM = script(E(act="New", d=1), E(act="Set", d=1, a="a"), E(act="WritePath", s=1, p=1, mode="w", all=True, ow=False),
                          E(act="Close", d=1), E(act="Open", d=1, p=1, mode="a"), E(act="New", d=2), E(act="Set", d=2, a="a"),
                          E(act="Set", d=2, a="b"))                                              # d1 = handle on p1 {a:1}; d2 = {a:2, b:3}
S_NESTED = script(E(act="New", d=1), E(act="Set", d=1, a="a"), E(act="New", d=2), E(act="SetDS", d=2, a="a", s=1),
                  E(act="Set", d=2, a="b"))                                                      # d2 = {a: Dataset{a:1}, b:2}
# the history every value term of the grammar is sent through (token 1 = the term): memory, write, append, copy
S_VALUE = script(E(act="New", d=1), E(act="Set", d=1, a="a"), E(act="WritePath", s=1, p=1, mode="w", all=True, ow=False),
                 E(act="Open", d=2, p=1, mode="a"), E(act="Set", d=2, a="b"), E(act="Close", d=2), E(act="Open", d=2, p=1, mode="copy"),
                 E(act="WritePath", s=2, p=2, mode="w-", all=False, attrs={"a"}, ow=False))


def families(tier):
    """(name, constants/defs, mode) for the generator runs"""
    full = {"D": "1..2", "P": "1..2", "OpenModes": ALL_OPEN, "WriteModes": ALL_WRITE, "Nested": "TRUE"}
    core = {"D": "1..2", "P": "1..1", "OpenModes": '{"a", "copy", "r"}', "WriteModes": '{"a", "w"}', "Nested": "FALSE"}
    rich = "{" + ", ".join([S_FILE_AB, S_TWO_MEM, S_FILE_AND_MEM, S_HANDLE_AND_MEM, S_NESTED]) + "}"
    if tier == "quick":
        return [
            ("full3", dict(full, Scripts="{<<>>}", MaxSteps=3), None),
            ("rich2", dict(full, Scripts=rich, MaxSteps=2), None),
            ("core4", dict(core, Scripts="{" + S_MEM_A + "}", MaxSteps=3), None),
            ("deep", dict(full, D="1..3", Scripts="{<<>>}", MaxSteps=10), ("num=150", 11)),
        ]
    return [
        ("full4", dict(full, Scripts="{<<>>}", MaxSteps=4), None),
        ("rich3", dict(full, Scripts=rich, MaxSteps=3), None),
        ("core5", dict(core, Scripts="{" + S_MEM_A + "}", MaxSteps=5), None),
        ("deep", dict(full, D="1..3", Scripts="{<<>>}", MaxSteps=14), ("num=3000", 15)),
    ]


def gen_run(name, c, sim, seed):
    wd = lib.workdir(PID, "gen_" + name)
    defs = {k: c[k] for k in ("D", "P", "OpenModes", "WriteModes", "Scripts")}
    defs["AttrSeq"] = ATTRSEQ
    kw = {}
    if sim:
        kw = {"simulate": sim[0], "depth": sim[1], "seed": seed + 1}
    r = lib.run_tlc_mc("DatasetStoreGen", defs, wd, constants={"MaxSteps": c["MaxSteps"], "Nested": c["Nested"], "Canon": "TRUE"},
                       init="GInit", next_="GNext", constraints=["Emit"], invariants=["TypeOK"], timeout=1500, **kw)
    if sim and r.rc != 0 and r.error and "rc=" not in (r.error or ""):
        lib.require_ok(r, f"DatasetStoreGen/{name}")
    elif not sim:
        lib.require_ok(r, f"DatasetStoreGen/{name}")
    seen, out = set(), []
    for j in r.json_lines:
        key = json.dumps(j["hist"], sort_keys=True)
        if key not in seen:
            seen.add(key)
            out.append(j)
    nd = int(c["D"].split("..")[1])
    np_ = int(c["P"].split("..")[1])
    return r, out, nd, np_
