"""C41 Queuing records exactly the program's operations in order.

(M) spec/sys/Queuing.tla is the recording mechanism as a state machine (context stack, stop_recording, queues, operand
    consumption by wrapper constructors, apply); spec/ir/QProg.tla is a program AST whose control flow is flattened by
    Python's semantics (with / try / raise).  spec/gen/QProgGen.tla runs EVERY program of the grammar up to the size
    bound (plus handcrafted and seeded random deeper programs) through the state machine, one primitive action per TLC
    step, and TLC checks in every reachable state: recorded = constructed-minus-consumed in program order, nothing
    recorded under stop_recording, no duplicates, only the innermost context changes, stack restored at every except.
(C) spec -> code: every emitted behaviour is replayed: the driver builds the real quantum function from the AST and
    compares QueuingManager._active_contexts and every queue after EVERY primitive action, the term structure of every
    object and the final tape.  code -> spec: the calls to QueuingManager.append/remove, AnnotatedQueue.__enter__/
    __exit__ and stop_recording are logged in-process and validated by spec/trace/Trace_Queuing.tla."""
import random

from .. import lib, qprog
from ..lib import CheckResult
from ..qprog import N

KINDS = ["G", "R", "U", "P", "do", "meas", "apply", "raise", "ctx", "stop", "try"]
RANDOM_KINDS = KINDS + ["adjfn", "ctrlfn"]


def handcrafted():
    """Interactions worth pinning whatever the enumeration bound is."""
    G, R1, R2 = N("G"), N("R", [1]), N("R", [2])
    U = lambda e: N("U", [], [[e]])
    P = lambda a, b: N("P", [], [[a], [b]])
    do = lambda e: N("do", [], [[e]])
    ctx = lambda *b: N("ctx", [], [list(b)])
    stop = lambda *b: N("stop", [], [list(b)])
    tr = lambda *b: N("try", [], [list(b)])
    ap = lambda r: N("apply", [r])
    rz, meas = N("raise"), lambda e: N("meas", [], [[e]])
    return [
        # wrapper built where its operand is not in the active queue, then applied (under-determined outcome)
        [do(G), stop(do(U(R1))), ap(1)],
        [do(G), ctx(do(U(R1))), ap(1)],
        [do(G), stop(do(P(R1, R2))), ap(1)],
        [do(G), stop(do(U(U(R1)))), ap(1)],
        [do(G), stop(do(U(R1))), ap(1), ap(2)],
        # flattening constructors (ctrl of Controlled, a + b on a Sum, a @ b on a Prod) reach operands of the nested wrapper
        [do(G), do(G), stop(do(P(R1, R2))), do(P(R1, G))],
        [do(G), do(G), ctx(do(P(R1, R2))), do(P(G, R1))],
        [do(U(R2)), stop(do(U(R1))), do(U(U(R1)))],
        [ap(1), N("ctrlfn", [], [[do(U(R1))]]), do(G)],
        # exceptions through nested contexts and stop_recording, recording resumes afterwards
        [do(G), tr(ctx(do(G), stop(ctx(do(G), rz)))), do(U(R1)), ap(1)],
        [tr(stop(tr(ctx(stop(rz))), ap(1))), do(G)],
        [ctx(tr(stop(do(G), rz)), do(U(R1))), do(G)],
        [tr(ctx(ctx(do(G), ap(1), rz))), meas(R1)],
        # operand consumed in an inner context stays in the outer queue; consumed in its own context it disappears
        [do(G), ctx(do(U(R1)), do(U(R1))), do(U(R2))],
        [do(G), do(G), do(P(R1, R2)), ap(1), do(P(R1, R2))],
        [do(G), meas(U(R1)), do(G)],
        [stop(do(G), do(U(R1))), ap(1), ap(1), do(P(R1, R2))],
        # transforms that record a whole function in their own context
        [do(G), N("adjfn", [], [[do(G), do(U(G)), ap(1)]]), do(U(R1))],
        [N("ctrlfn", [], [[do(G), stop(do(G)), ctx(do(G)), do(P(G, R1))]]), ap(1)],
        [tr(N("adjfn", [], [[do(G), rz]])), do(G)],
    ]


def run(tier, seed):
    rng = random.Random(seed)
    quick = tier == "quick"
    nrand, depth, budget = (2000, 3, 10) if quick else (50000, 4, 16)
    extras = handcrafted()
    for _ in range(nrand):
        extras.append(qprog.rand_prog(rng, RANDOM_KINDS, depth, rng.randint(4, budget)))
    kinds = "{" + ",".join(f'"{k}"' for k in KINDS) + "}"
    cov, viol, feats = qprog.drive(
        "C41", tier, seed,
        defs={"Kinds": kinds, "ForSpecs": "{}", "WhileSpecs": "{}", "CondPreds": "{}"},
        constants={"MaxSize": 3 if quick else 4, "MaxDepth": 2, "NFlav": 2 if quick else 4, "RangeB": 2},
        extras=extras, trace_limit=1000 if quick else 5000,
        what="nested contexts, stop_recording, operand consumed by a wrapper, apply, apply outside recording, raised exception")
    need = ["nested-contexts", "stop_recording", "operand-consumed", "apply", "apply-outside-recording", "exception",
            "exception-through-context", "adjfn", "ctrlfn"]
    if not viol:
        missing = [f for f in need if feats[f] < 5]
        if missing or cov["programs_with_underdetermined_consumption"] < 3:
            raise lib.MachineryError(f"vacuous: features not exercised {missing}")
    cov["exhaustive"] = True
    cov["bounds"] = {"exhaustive_max_nodes": 3 if quick else 4, "nesting": 2, "flavours": 2 if quick else 4, "random_programs": nrand,
                     "random_depth": depth, "random_budget": budget}
    return CheckResult(coverage=cov, violations=viol, assumptions=[
        "qp.apply of a wrapper whose direct operand is in the active queue: both 'operand stays' and 'operand is taken' are accepted "
        "(the documentation does not determine it; the Operator2-based wrappers take it, SProd/Prod/Sum keep it)",
        "a flattening constructor (ctrl of a Controlled, + on a Sum, @ on a Prod) may also take the nested wrapper's operands out of "
        "the active queue: both outcomes accepted",
        "objects are identified by construction order; operators are labelled through their wire labels",
        "single thread; AnnotatedQueue contexts only (QuantumTape contexts behave identically by inheritance)"])


def replay(path, tier, seed):
    return qprog.replay_file("C41", path)
