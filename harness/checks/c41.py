"""C41 Queuing records exactly the program's operations in order.

(M) spec/sys/Queuing.tla is the recording mechanism as a state machine (context stack, stop_recording, queues, operand
    consumption by wrapper constructors, apply); spec/ir/QProg.tla is a program AST whose control flow is flattened by
    Python's semantics (with / try / raise).  spec/gen/QProgGen.tla runs EVERY program of the grammar up to the size
    bound (plus handcrafted and seeded random deeper programs) through the state machine, one primitive action per TLC
    step, and TLC checks in every reachable state: recorded = constructed-minus-consumed in program order, nothing
    recorded under stop_recording, no duplicates, only the innermost context changes, stack restored at every except.
    QuantumTape contexts rejected at exit raise inside the state machine (dynamic unwinding), eager wrappers consume too.
(C) spec -> code: every emitted behaviour is replayed: the driver builds the real quantum function from the AST and
    compares QueuingManager._active_contexts and every queue after EVERY primitive action, the term structure of every
    object and the final tape.  code -> spec: the calls to QueuingManager.append/remove, AnnotatedQueue.__enter__/
    __exit__ and stop_recording are logged in-process and validated by spec/trace/Trace_Queuing.tla."""
import random

from .. import lib, qprog
from ..lib import CheckResult
from ..qprog import N

KINDS = ["G", "R", "U", "E", "P", "do", "meas", "apply", "raise", "ctx", "stop", "try", "tape"]
RANDOM_KINDS = KINDS + ["adjfn", "ctrlfn"]
# every place-dependent choice (wrapper kind, eager kind, exponent, gate class, call form) cycles with the flavour


def handcrafted():
    """Interactions worth pinning whatever the enumeration bound is."""
    G, R1, R2 = N("G"), N("R", [1]), N("R", [2])
    U = lambda e: N("U", [], [[e]])
    P = lambda a, b: N("P", [], [[a], [b]])
    do = lambda e: N("do", [], [[e]])
    ctx = lambda *b: N("ctx", [], [list(b)])
    stop = lambda *b: N("stop", [], [list(b)])
    tr = lambda *b: N("try", [], [list(b)])
    ap = lambda r: N("apply", [r])
    rz, meas = N("raise"), lambda e: N("meas", [], [[e]])
    E = lambda e: N("E", [], [[e]])
    tape = lambda *b: N("tape", [], [list(b)])
    m0 = N("meas")
    return [
        # a QuantumTape rejected when it is built at exit (operator after a measurement), caught, recording goes on outside
        [do(G), tr(tape(m0, do(G))), do(G), ap(1)],
        [ctx(do(G), tr(tape(do(G), m0, do(U(R1)))), do(G)), do(G)],
        [tape(tr(tape(m0, do(G))), do(G), m0)],
        [tr(ctx(tape(m0, do(G)), do(G))), do(G)],
        [tr(stop(tape(meas(G), do(G)), do(G))), do(G), ap(1)],
        [tr(tape(tape(m0, do(G)), do(G))), do(G)],
        [tr(tape(m0, rz)), tr(tape(m0, do(G), rz)), do(G)],
        [tape(do(G), m0), tape(m0, meas(R1)), do(U(R1))],
        # eager wrappers: the base leaves the queue, one result is recorded
        [do(G), do(E(R1)), do(E(E(G))), do(U(E(R1)))],
        [do(G), do(G), do(E(P(R1, R2))), ap(1)],
        [stop(do(E(G))), do(E(R1)), ctx(do(E(R1)))],
        [do(E(U(G))), do(E(U(U(G)))), meas(E(G))],
        # wrapper built where its operand is not in the active queue, then applied (under-determined outcome)
        [do(G), stop(do(U(R1))), ap(1)],
        [do(G), ctx(do(U(R1))), ap(1)],
        [do(G), stop(do(P(R1, R2))), ap(1)],
        [do(G), stop(do(U(U(R1)))), ap(1)],
        [do(G), stop(do(U(R1))), ap(1), ap(2)],
        # flattening constructors (ctrl of Controlled, a + b on a Sum, a @ b on a Prod) reach operands of the nested wrapper
        [do(G), do(G), stop(do(P(R1, R2))), do(P(R1, G))],
        [do(G), do(G), ctx(do(P(R1, R2))), do(P(G, R1))],
        [do(U(R2)), stop(do(U(R1))), do(U(U(R1)))],
        [ap(1), N("ctrlfn", [], [[do(U(R1))]]), do(G)],
        # exceptions through nested contexts and stop_recording, recording resumes afterwards
        [do(G), tr(ctx(do(G), stop(ctx(do(G), rz)))), do(U(R1)), ap(1)],
        [tr(stop(tr(ctx(stop(rz))), ap(1))), do(G)],
        [ctx(tr(stop(do(G), rz)), do(U(R1))), do(G)],
        [tr(ctx(ctx(do(G), ap(1), rz))), meas(R1)],
        # operand consumed in an inner context stays in the outer queue; consumed in its own context it disappears
        [do(G), ctx(do(U(R1)), do(U(R1))), do(U(R2))],
        [do(G), do(G), do(P(R1, R2)), ap(1), do(P(R1, R2))],
        [do(G), meas(U(R1)), do(G)],
        [stop(do(G), do(U(R1))), ap(1), ap(1), do(P(R1, R2))],
        # transforms that record a whole function in their own context
        [do(G), N("adjfn", [], [[do(G), do(U(G)), ap(1)]]), do(U(R1))],
        [N("ctrlfn", [], [[do(G), stop(do(G)), ctx(do(G)), do(P(G, R1))]]), ap(1)],
        [tr(N("adjfn", [], [[do(G), rz]])), do(G)],
    ]


def eager_family():
    """every eager form x exponent x gate class, on a fresh base, on a base recorded earlier, on a wrapped base"""
    out = []
    do = lambda e: N("do", [], [[e]])
    for gi in range(5):
        g = N("G", [gi])
        forms = [(0, zi) for zi in range(len(qprog.ZS))] + [(1, 0), (2, 0), (3, 0)]
        for k, zi in forms:
            E = lambda e: N("E", [k, zi], [[e]])
            out.append([do(E(g))])
            out.append([do(g), N("ctx", [], [[do(g)]]), do(E(N("R", [1]))), do(g)])
            out.append([do(g), N("ctx", [], [[do(E(N("R", [1]))), do(g)]])])
            if gi < 2:
                out.append([do(E(N("U", [], [[g]])))])
                out.append([do(N("U", [], [[E(g)]])), N("apply", [1])])
    return out


def run(tier, seed):
    rng = random.Random(seed)
    quick = tier == "quick"
    nrand, depth, budget = (1200, 3, 10) if quick else (25000, 4, 14)
    extras = handcrafted() + eager_family()
    for _ in range(nrand):
        extras.append(qprog.rand_prog(rng, RANDOM_KINDS, depth, rng.randint(4, budget)))
    kinds = "{" + ",".join(f'"{k}"' for k in KINDS) + "}"
    cov, viol, feats = qprog.drive(
        "C41", tier, seed,
        defs={"Kinds": kinds, "ForSpecs": "{}", "WhileSpecs": "{}", "CondPreds": "{}"},
        constants={"MaxSize": 3 if quick else 4, "MaxDepth": 2, "NFlav": 2, "RangeB": 2},
        extras=extras, trace_limit=700 if quick else 5000,
        what="nested contexts, stop_recording, operand consumed by a wrapper, apply, apply outside recording, raised exception")
    need = ["nested-contexts", "stop_recording", "operand-consumed", "apply", "apply-outside-recording", "exception",
            "exception-through-context", "adjfn", "ctrlfn", "tape-context", "tape-rejected-at-exit", "eager-wrapper"]
    if not viol:
        missing = [f for f in need if feats[f] < 5]
        if missing or cov["programs_with_underdetermined_consumption"] < 3:
            raise lib.MachineryError(f"vacuous: features not exercised {missing}")
    cov["exhaustive"] = True
    cov["bounds"] = {"exhaustive_max_nodes": 3 if quick else 4, "nesting": 2, "flavours": 2, "random_programs": nrand,
                     "random_depth": depth, "random_budget": budget}
    return CheckResult(coverage=cov, violations=viol, assumptions=[
        "qp.apply of a wrapper whose direct operand is in the active queue: both 'operand stays' and 'operand is taken' are accepted "
        "(the documentation does not determine it; the Operator2-based wrappers take it, SProd/Prod/Sum keep it)",
        "a flattening constructor (ctrl of a Controlled, + on a Sum, @ on a Prod) may also take the nested wrapper's operands out of "
        "the active queue: both outcomes accepted",
        "objects are identified by construction order; operators are labelled through their wire labels",
        "single thread; AnnotatedQueue contexts only (QuantumTape contexts behave identically by inheritance)"])


def replay(path, tier, seed):
    return qprog.replay_file("C41", path)
