"""C38 Metric tensors.  Oracle: Fubini-Study tensor g_jk = Re<d_j psi|d_k psi> - <d_j psi|psi><psi|d_k psi> from TLC's exact psi and
d_k psi (harness/deriv.py), pulled back through the affine argument map.  REPLAY of qp.metric_tensor (approx None / block-diag /
diag), qp.adjoint_metric_tensor and quantum_fisher (= 4 g) on layered circuits with shared parameters."""
import random

import numpy as np

import pennylane as qp

from .. import deriv, devsim, lib
from ..codec import rec
from ..lib import CheckResult, Violation
from .c34 import M, build_ops_fn, tlc_ops

ROT = ["RX", "RY", "RZ"]
ROT2 = ["IsingXX", "IsingYY", "IsingZZ"]


FIXED1 = [("Hadamard", ()), ("SX", ()), ("T", ()), ("S", ()), ("S", ({"t": "adj"},)), ("T", ({"t": "adj"},))]
EXTRA1 = ["PhaseShift"]
EXTRA2 = ["CRX", "CRY", "CRZ", "ControlledPhaseShift"]


def _fixed(rng, w):
    name, mods = rng.choice(FIXED1)
    return rec(name, [w], mods=list(mods))


def gen_case(rng, share=True, style="layer", extra=False):
    """style 'layer': gates queued layer by layer; 'wirewise': queued wire by wire (RX(i); RY(i) per wire), so the cone of a
    later layer is not queued after the cone of an earlier one; fixed non-self-inverse gates (S, T, SX, adjoints) sit between
    trainable gates.  extra: trainable gates whose generator is not a Pauli word (PhaseShift, controlled rotations)."""
    n = rng.choice([2, 2, 3])
    m = rng.randint(2, 4) if share else 5
    x = [rng.randrange(1, 16) for _ in range(m)]
    ops, tr, used = [], [], set()
    r1 = ROT + (EXTRA1 if extra else [])
    r2 = ROT2 + (EXTRA2 if extra else [])

    def train(name, wires):
        i = rng.randrange(m) if share else len(tr)
        g = rec(name, wires, [x[i] % 32])
        g["aff"] = (i, 1, 0)
        tr.append(len(ops)); ops.append(g); used.add(i)

    if style == "wirewise":
        for w in range(n, 0, -1):                  # fixed gates queued on the last wire first
            if rng.random() < 0.8:
                ops.append(_fixed(rng, w))
        for rep in range(rng.randint(1, 2)):
            for w in range(1, n + 1):
                for _ in range(rng.randint(1, 2)):
                    if len(tr) < 5:
                        train(rng.choice(r1), [w])
                if rng.random() < 0.5:
                    ops.append(_fixed(rng, w))
            if rng.random() < 0.6 and len(tr) < 5:
                train(rng.choice(r2), rng.sample(range(1, n + 1), 2))
            ops.append(rec(rng.choice(["CNOT", "CZ"]), rng.sample(range(1, n + 1), 2)))
    else:
        for w in range(1, n + 1):
            if rng.random() < 0.7:
                ops.append(rec(rng.choice(["Hadamard", "SX", "T"]), [w]))
        for layer in range(rng.randint(1, 3)):
            for w in range(1, n + 1):
                if rng.random() < 0.75 and len(tr) < 5:
                    train(rng.choice(r1), [w])
            if rng.random() < 0.5 and len(tr) < 5:
                train(rng.choice(r2), rng.sample(range(1, n + 1), 2))
            ops.append(rec(rng.choice(["CNOT", "CZ"]), rng.sample(range(1, n + 1), 2)))
            if rng.random() < 0.6:
                ops.append(_fixed(rng, rng.randint(1, n)))
    if not share:
        x = x[:len(tr)]
        m = len(x)
    for i in range(m):
        if i not in used:
            g = rec("RY", [rng.randint(1, n)], [x[i] % 32]); g["aff"] = (i, 1, 0)
            tr.append(len(ops)); ops.append(g)
    fam = sorted({ops[k]["g"] for k in tr if ops[k]["g"] in EXTRA1 + EXTRA2})
    return {"n": n, "x": x, "ops": ops, "tr": tr, "meas": ("expval", [3] + [0] * (n - 1)), "fam": "+".join(fam) or "pauli-rotations", "style": style}


def exact_metric(c, st):
    m = len(c["x"])
    G = np.zeros((m, m))
    for j in c["tr"]:
        for k in c["tr"]:
            G[c["ops"][j]["aff"][0], c["ops"][k]["aff"][0]] += c["ops"][j]["aff"][1] * c["ops"][k]["aff"][1] * deriv.fubini_study(st, j, k)
    return G


def run(tier, seed):
    rng = random.Random(3800 + seed)
    deriv.selfcheck("C38", M)
    nc = 24 if tier == "quick" else 300
    cases = [gen_case(rng, share=(i % 2 == 0), style=("layer", "wirewise", "wirewise")[i % 3], extra=(i % 4 == 3)) for i in range(nc)]
    cases = [c for c in cases if c["x"]]
    sts, stats = deriv.states("C38", [{"n": c["n"], "ops": tlc_ops(c), "tr": c["tr"]} for c in cases], M, order=1)
    from pennylane import numpy as pnp
    viol, n_cmp, rej, samples, nontriv = [], 0, {}, [], set()
    for ci, (c, st) in enumerate(zip(cases, sts)):
        G = exact_metric(c, st)
        dev = qp.device("default.qubit", wires=c["n"] + 1)
        xs = pnp.array([lib.angle_of(a, M) for a in c["x"]], requires_grad=True)
        qn = qp.QNode(build_ops_fn(c), dev, interface="autograd")
        fns = {"metric_tensor": lambda: qp.metric_tensor(qn, approx=None)(xs),
               "metric_tensor[block-diag]": lambda: qp.metric_tensor(qn, approx="block-diag")(xs),
               "metric_tensor[diag]": lambda: qp.metric_tensor(qn, approx="diag")(xs),
               "adjoint_metric_tensor": lambda: qp.adjoint_metric_tensor(qn)(xs),
               "quantum_fisher": lambda: qp.gradients.quantum_fisher(qn)(xs)}
        if ci % 3 == 0 or tier != "quick":
            # the same functions on devices without the adjoint shortcut (quantum_fisher then goes through metric_tensor)
            for dn in ("default.mixed", "reference.qubit"):
                qd = qp.QNode(build_ops_fn(c), qp.device(dn, wires=c["n"] + 1), interface="autograd")
                fns[f"quantum_fisher@{dn}"] = (lambda q=qd: qp.gradients.quantum_fisher(q)(xs))
                fns[f"metric_tensor@{dn}"] = (lambda q=qd: qp.metric_tensor(q, approx=None)(xs))
        for tag, fn in fns.items():
            try:
                got = np.asarray(fn(), dtype=float)
            except Exception as e:
                rej[f"{tag}:{type(e).__name__}"] = rej.get(f"{tag}:{type(e).__name__}", 0) + 1
                continue
            n_cmp += 1
            exp = 4 * G if tag.startswith("quantum_fisher") else G
            if got.shape != exp.shape:
                viol.append(Violation(key=f"{tag}:shape", detail=f"{got.shape} vs {exp.shape}", replay={"case": c}))
                continue
            shared = len(c["tr"]) != len(c["x"])
            if "[" in tag and shared:
                n_cmp -= 1        # with shared arguments the pulled-back approximation is not a restriction of G: not checked
                continue
            if "[" in tag:
                # approximations restrict the exact tensor to a block structure: the diagonal is exact, every entry the
                # approximation keeps (non-zero) is exact
                keep = (np.abs(got) > 1e-12) | np.eye(len(G), dtype=bool)
                ok = np.allclose(got[keep], exp[keep], atol=1e-7) and (tag != "metric_tensor[diag]" or np.allclose(got, np.diag(np.diag(got))))
            else:
                ok = np.allclose(got, exp, atol=1e-7)
            if not ok:
                viol.append(Violation(key=f"{tag}:wrong-metric:{c['fam']}", detail=f"{tag}: got {np.round(got, 6).tolist()} expected {np.round(exp, 6).tolist()} for {tlc_ops(c)} x={c['x']}",
                                      replay={"case": c, "fn": tag}))
            elif np.max(np.abs(G - np.diag(np.diag(G)))) > 1e-6:
                nontriv.add(ci)
        if len(samples) < 2 and np.max(np.abs(G - np.diag(np.diag(G)))) > 1e-3:
            samples.append({"x_lattice": c["x"], "ops": [(g["g"], g["w"], g["p"], g.get("aff")) for g in c["ops"]], "exact_metric": np.round(G, 8).tolist()})
    if np.allclose(np.array([0.25]), np.array([0.25 + 1e-5]), atol=1e-7):
        raise lib.MachineryError("negative control accepted")
    cov = {"states": stats["distinct"], "transitions": stats["generated"], "traces_validated_against_impl": n_cmp, "evaluations": n_cmp,
           "distinct_nontrivial": len(nontriv), "rule": "circuits queued layer by layer or wire by wire (2-3 wires, up to 5 trainable gates incl. PhaseShift / controlled rotations in a quarter of them, fixed S / T / SX / adjoints between them, 2-4 shared arguments), default.qubit plus default.mixed / reference.qubit; non-trivial = "
           "distinct circuits whose exact metric tensor has off-diagonal entries and on which every accepting function agreed",
           "samples": samples, "rejections": rej, "negative_controls_rejected": 1}
    return CheckResult(coverage=cov, violations=viol, assumptions=[
        "block-diag / diag approximations are checked as restrictions of the exact tensor (kept entries and the diagonal are exact); the "
        "layer partition itself is not modelled", "exact states from TLC; bilinear forms in float64; 1e-7"])
