"""C18 Transforms never modify their input circuit.

(M) spec/sys/Heap.tla: objects refer to containers and are immutable once created; TLC proves Immutable / BornEqual /
    ExecStable on all histories of the container model when transforms only write to containers they allocated, and must
    find a counterexample when aliased writes are allowed (model-level negative control: the defect pattern).
(M2) spec/sys/HeapData.tla: the parameter level (operators refer to data that are immutable scalars or mutable arrays); TLC
    proves BornEqual / Immutable without in-place accumulation and shows that the accumulate-into-the-first-parameter pattern
    breaks them exactly when the parameters are mutable objects -> the parameter representation is an input dimension.
(G) spec/gen/HeapGen.tla enumerates the histories  Create(family, instance, parameter representation); Execute; Transform_k;
    [Transform_j on k's output | on the original]; Execute(original)  over the live registry of public transforms (discovered
    by introspection; a transform called through its optional arguments is a registry entry of its own) and the acceptance
    relation observed on the code.
(C) code -> spec: the driver runs every history on real tapes, fingerprints EVERY live tape after every event (so before
    and after each call), re-executes the original on a freshly seeded default.qubit, and Trace_Heap.tla decides at every
    step that every object still has its birth value, component by component."""
import hashlib
import json
import random
import time
import warnings

import numpy as np

import pennylane as qp
from pennylane.tape import QuantumScript

from .. import c18_recipes as R
from .. import lib
from ..lib import CheckResult, Violation

CHAIN_QUICK = ["cancel_inverses", "merge_rotations", "commute_controlled", "commute_controlled[left]", "remove_barrier", "undo_swaps",
               "single_qubit_fusion", "combine_global_phases", "decompose", "compile", "map_wires", "unitary_to_rot"]
CHAIN_MORE = ["merge_amplitude_embedding", "defer_measurements", "split_non_commuting", "diagonalize_measurements", "broadcast_expand",
              "convert_to_numpy_parameters", "fold_global", "insert", "pattern_matching_optimization", "param_shift", "snapshots",
              "pipeline[cancel_inverses,merge_rotations]", "pipeline[merge_rotations,cancel_inverses]"]
MAX_OUTS = 3


def _d(x, n=10):
    return hashlib.sha1(x.encode()).hexdigest()[:n]


def compact(fp):
    """what goes to TLC: digests of the by-value strings (positions and lengths kept), small ints for identities"""
    return {"ops": [_d(s) for s in fp["ops"]], "meas": [_d(s) for s in fp["meas"]], "par": _d("|".join(fp["par"]), 16), "tr": fp["tr"],
            "shots": fp["shots"], "hash": fp["hash"][-12:], "bs": fp["bs"], "cont": fp["cont"], "mcont": fp["mcont"], "opids": fp["opids"]}


def registry():
    """number -> (name, callable(tape) -> result) for every public transform with a tape implementation and a recipe"""
    T = R.discover()
    reg, skipped = [], {}
    names = list(T) + list(R.VARIANTS)
    for name in names:
        q, o = T[R.VARIANTS.get(name, name)]
        if o.tape_transform is None:
            skipped[name] = "no tape implementation (program-capture only)"
            continue
        if R.recipe(name) is None:
            skipped[name] = "no recipe (needs a legacy device object)"
            continue

        def call(tape, name=name, o=o):
            args, kw = R.recipe(name)
            if name in R.NEEDS_GRAPH:
                qp.decomposition.enable_graph()
            try:
                return o(tape, *args, **kw)
            finally:
                if name in R.NEEDS_GRAPH:
                    qp.decomposition.disable_graph()
        reg.append((name, q, call))
    from pennylane.core.transforms.compile_pipeline import CompilePipeline
    tr = qp.transforms
    for pname, parts in [("pipeline[cancel_inverses,merge_rotations]", (tr.cancel_inverses, tr.merge_rotations)),
                         ("pipeline[merge_rotations,cancel_inverses]", (tr.merge_rotations, tr.cancel_inverses)),
                         ("pipeline[commute_controlled,cancel_inverses,merge_rotations]", (tr.commute_controlled, tr.cancel_inverses, tr.merge_rotations)),
                         ("pipeline[decompose,single_qubit_fusion]", (tr.decompose, tr.single_qubit_fusion))]:
        reg.append((pname, "pennylane.CompilePipeline", lambda tape, parts=parts: CompilePipeline(*parts)(tape)))
    return reg, skipped, len(T)


def make_tape(fam, inst, seed, rep=1):
    rng = random.Random(seed * 1000003 + sum(map(ord, fam)) * 1009 + inst)
    rng.rep = R.REPS[rep - 1]           # how gate parameters are handed to the circuit (float / ndarray / tensor / batch)
    return R.FAMILIES[fam](rng)


def run_history(h, reg, fams, seed, stats):
    """Run one generated history on real tapes.  Returns the recorded trace {"events": [...]} and meta information."""
    intern = R.Interner()
    objs, full, events = {}, {}, []
    meta = {"fam": None, "steps": [], "skipped": False}

    def observe():
        out = []
        for oid, t in objs.items():
            fp = R.fingerprint(t, intern)
            full.setdefault(oid, []).append(fp)
            out.append({"id": oid, "fp": compact(fp)})
        return out
    for ev in h:
        if ev["e"] == "create":
            fam = fams[ev["c"] - 1]
            meta["fam"], meta["inst"], meta["rep"] = fam, ev["i"], R.REPS[ev.get("r", 1) - 1]
            objs[1] = make_tape(fam, ev["i"], seed, ev.get("r", 1))
            events.append({"e": "create", "k": "", "on": 0, "res": "", "exc": "", "obs": observe()})
        elif ev["e"] == "execute":
            dg, _ = R.result_digest(objs[ev["on"]])
            stats["executions"] += 1
            events.append({"e": "execute", "k": "", "on": ev["on"], "res": dg, "exc": "", "obs": observe()})
        else:
            name, q, call = reg[ev["k"] - 1]
            if ev["on"] not in objs:          # the first transform produced no tape to continue with
                meta["skipped"] = True
                continue
            tape = objs[ev["on"]]
            exc, outs, kind = "", [], "tapes"
            t0 = time.time()
            try:
                with warnings.catch_warnings():
                    warnings.simplefilter("ignore")
                    out = call(tape)
                if isinstance(out, tuple) and len(out) == 2 and callable(out[1]) and all(isinstance(t, QuantumScript) for t in out[0]):
                    outs = list(out[0])
                else:
                    kind = "value:" + type(out).__name__
            except Exception as e:      # rejected input: recorded, the input is still observed afterwards
                exc = type(e).__name__
            dt = time.time() - t0
            stats["slow"][name] = max(stats["slow"].get(name, 0.0), dt)
            known = {id(t): oid for oid, t in objs.items()}
            n_same = 0
            for t in outs[:MAX_OUTS]:
                if id(t) in known:
                    n_same += 1
                    continue
                objs[len(objs) + 1] = t
                known[id(t)] = len(objs)
            obs = observe()
            effective = bool(outs) and (len(outs) != 1 or R.fingerprint(outs[0], R.Interner())["ops"] != full[ev["on"]][0]["ops"]
                                        or R.fingerprint(outs[0], R.Interner())["meas"] != full[ev["on"]][0]["meas"])
            meta["steps"].append({"k": name, "on": ev["on"], "exc": exc, "kind": kind, "n_out": len(outs), "returned_input": n_same, "effective": effective})
            events.append({"e": "transform", "k": name, "on": ev["on"], "res": "", "exc": exc, "obs": obs})
    meta["full"] = full
    return {"events": events}, meta


def corrupt(tr, meta, rng):
    """negative controls: (trace, expected clause)"""
    out = []
    ev = tr["events"]
    ti = next((i for i, e in enumerate(ev) if e["e"] == "transform" and not e["exc"]), None)
    if ti is None:
        return out

    def clone():
        return json.loads(json.dumps(tr))
    on = ev[ti]["on"]
    k = next(i for i, o in enumerate(ev[ti]["obs"]) if o["id"] == on)
    if ev[ti]["obs"][k]["fp"]["ops"]:
        c = clone()
        c["events"][ti]["obs"][k]["fp"]["ops"].pop()                       # the input lost an operation
        out.append((c, "operations"))
        c = clone()
        c["events"][ti]["obs"][k]["fp"]["ops"].reverse()                    # the input was reordered
        if c["events"][ti]["obs"][k]["fp"]["ops"] != ev[ti]["obs"][k]["fp"]["ops"]:
            out.append((c, "operations"))
    c = clone()
    c["events"][ti]["obs"][k]["fp"]["hash"] = "0" + c["events"][ti]["obs"][k]["fp"]["hash"][1:] if c["events"][ti]["obs"][k]["fp"]["hash"][0] != "0" else "1" + c["events"][ti]["obs"][k]["fp"]["hash"][1:]
    out.append((c, "hash"))
    c = clone()
    c["events"][ti]["obs"][k]["fp"]["tr"] = c["events"][ti]["obs"][k]["fp"]["tr"] + [99]
    out.append((c, "trainable_params"))
    c = clone()
    c["events"][ti]["obs"][k]["fp"]["shots"] = c["events"][ti]["obs"][k]["fp"]["shots"] + [1]
    out.append((c, "shots"))
    c = clone()
    c["events"][ti]["obs"][k]["fp"]["par"] = "x" + c["events"][ti]["obs"][k]["fp"]["par"][1:]
    out.append((c, "parameters"))
    if ev[-1]["e"] == "execute":
        c = clone()
        c["events"][-1]["res"] = c["events"][-1]["res"] + "x"               # re-execution gives another result
        out.append((c, "result"))
        other = [i for i, o in enumerate(ev[-1]["obs"]) if o["id"] != ev[-1]["on"]]
        if other:                                                           # an execution may only ever touch the tape it executes
            c = clone()
            c["events"][-1]["obs"][other[0]]["fp"]["shots"] = c["events"][-1]["obs"][other[0]]["fp"]["shots"] + [1]
            out.append((c, "shots"))
    return out


def gen(wd, fams, ninst, accepts, first, chain, two, execpairs, reps=None):
    st = lambda ps: "{" + ",".join(f"<<{k},{c}>>" for k, c in sorted(ps)) + "}"
    reps = {(c + 1, 1) for c in range(len(fams))} if reps is None else reps
    g = lib.run_tlc_mc("HeapGen", {"Accepts": st(accepts), "ExecPairs": st(execpairs), "Reps": st(reps), "First": "{" + ",".join(map(str, sorted(first))) + "}",
                                   "Chain": "{" + ",".join(map(str, sorted(chain))) + "}"},
                       wd, constants={"NFam": len(fams), "NInst": ninst, "TwoStage": "TRUE" if two else "FALSE"}, constraints=["Emit"], timeout=3000)
    lib.require_ok(g, "HeapGen")
    seen, uniq = set(), []
    for j in g.json_lines:                      # TLC may evaluate the emitting constraint more than once for a terminal state
        key = json.dumps(j, sort_keys=True)
        if key not in seen:
            seen.add(key)
            uniq.append(j)
    g.json_lines = uniq
    return g


def base_name(n):
    return R.VARIANTS.get(n, n)


def run(tier, seed):
    T0, phases = time.time(), {}
    rng = random.Random(seed)
    quick = tier == "quick"
    # ---------------- (M) the container model
    m = lib.run_tlc("Heap", lib.cfg(constants={"MaxObjs": 3 if quick else 4, "MaxCells": 3 if quick else 4, "Vals": "{1,2}", "AliasWrites": "FALSE"},
                                    invariants=["BornEqual", "ExecStable"], properties=["Immutable"]), lib.workdir("C18", "model"), timeout=3000)
    if m.invariant_violated:
        raise lib.MachineryError(f"Heap model violates {m.invariant_violated} without aliased writes")
    lib.require_ok(m, "Heap")
    mneg = lib.run_tlc("Heap", lib.cfg(constants={"MaxObjs": 3, "MaxCells": 3, "Vals": "{1,2}", "AliasWrites": "TRUE"}, invariants=["BornEqual"]),
                       lib.workdir("C18", "modelneg"), timeout=3000)
    if mneg.invariant_violated != "BornEqual":
        raise lib.MachineryError("model-level negative control: aliased writes did not violate BornEqual")
    runs = [m, mneg]
    neg_ok = 1
    # ---------------- (M2) the parameter level: in-place accumulation is observable iff parameters are mutable objects
    dm = {}
    for tag, mut, inpl in (("documented", "TRUE", "FALSE"), ("inplace_mutable", "TRUE", "TRUE"), ("inplace_scalars", "FALSE", "TRUE")):
        r = lib.run_tlc("HeapData", lib.cfg(constants={"MaxObjs": 3 if quick else 4, "MaxData": 5 if quick else 7, "Vals": "{1,2}", "Mutables": mut,
                                                       "InPlaceAcc": inpl}, invariants=["BornEqual"],
                                             properties=[] if tag == "inplace_mutable" else ["Immutable"]),
                        lib.workdir("C18", "data_" + tag), timeout=3000)
        if tag == "inplace_mutable":
            if r.invariant_violated != "BornEqual":
                raise lib.MachineryError("model-level negative control: in-place accumulation into mutable parameters was not rejected")
            neg_ok += 1
        else:
            if r.invariant_violated:
                raise lib.MachineryError(f"HeapData ({tag}) violates {r.invariant_violated}")
            lib.require_ok(r, "HeapData " + tag)
        dm[tag] = r
        runs.append(r)
    phases["model"] = round(time.time() - T0, 1)

    reg, skipped, n_found = registry()
    names = [r[0] for r in reg]
    fams = list(R.FAMILIES)
    stats = {"executions": 0, "slow": {}}
    traces, metas, hists = [], [], []

    # ---------------- phase 1: every transform on every circuit family (single application)
    ninst1 = 1 if quick else 4
    all_pairs = {(k + 1, c + 1) for k in range(len(reg)) for c in range(len(fams))}
    exec_pairs = {(k, c) for k, c in all_pairs if (k + c) % 3 == 0} if quick else all_pairs
    g1 = gen(lib.workdir("C18", "gen1"), fams, ninst1, all_pairs, range(1, len(reg) + 1), [], False, exec_pairs)
    runs.append(g1)
    budget = 6.0 if quick else 20.0
    too_slow = set()
    for j in g1.json_lines:
        h = j["hist"]
        k = next(e["k"] for e in h if e["e"] == "transform")
        if names[k - 1] in too_slow:
            continue
        tr, meta = run_history(h, reg, fams, seed, stats)
        traces.append(tr); metas.append(meta); hists.append(h)
        if stats["slow"].get(names[k - 1], 0) > budget:
            too_slow.add(names[k - 1])          # keep the applications done so far, skip the remaining families
    phases["phase1"] = round(time.time() - T0, 1)
    accepted = {}
    for meta in metas:
        for s in meta["steps"]:
            if not s["exc"]:
                accepted.setdefault(s["k"], set()).add(meta["fam"])
    # ---------------- phase 2: two transforms in a row (on the first output, and again on the original)
    chain_names = CHAIN_QUICK if quick else CHAIN_QUICK + CHAIN_MORE
    chain = [names.index(n) + 1 for n in chain_names if n in names]
    fam2 = ["rot", "ctrl", "embed"] if quick else ["rot", "ctrl", "embed", "noncomm", "mcm", "clifft"]
    acc2 = {(k, fams.index(f) + 1) for k in chain for f in fam2 if f in accepted.get(names[k - 1], ())}
    g2 = gen(lib.workdir("C18", "gen2"), fams, 1, acc2, chain, chain, True, acc2)
    runs.append(g2)
    h2 = [j["hist"] for j in g2.json_lines]
    for h in h2:
        h[0]["i"] += 100                  # other circuit instances than in phase 1
        tr, meta = run_history(h, reg, fams, seed, stats)
        traces.append(tr); metas.append(meta); hists.append(h)
    phases["phase2"] = round(time.time() - T0, 1)
    # ---------------- phase 3: the parameter representation (mutable arrays owned by the input circuit, HeapData.tla)
    rep_fams = ({"nd0": ["rot", "embed", "accum"], "pnp": ["embed", "accum"], "nd1": ["accum"]} if quick else
                {"nd0": ["rot", "embed", "accum", "ctrl", "bcast", "unitary", "rzonly", "cnotrz", "mw_probs"], "pnp": ["rot", "embed", "accum", "noncomm"],
                 "nd1": ["accum", "rot", "rzonly"]})
    reps3 = {(fams.index(f) + 1, R.REPS.index(r) + 1) for r, fs in rep_fams.items() for f in fs}
    fam3 = {c for c, _ in reps3}
    acc3 = {(k + 1, c) for k in range(len(reg)) for c in fam3
            if names[k] not in too_slow and (fams[c - 1] in accepted.get(names[k], ()) or fams[c - 1] == "accum")}
    n12 = len(traces)
    g3 = gen(lib.workdir("C18", "gen3"), fams, 1 if quick else 2, acc3, range(1, len(reg) + 1), [], False, acc3, reps3)
    runs.append(g3)
    for j in g3.json_lines:
        h = j["hist"]
        h[0]["i"] += 200
        tr, meta = run_history(h, reg, fams, seed, stats)
        traces.append(tr); metas.append(meta); hists.append(h)
    phases["phase3"] = round(time.time() - T0, 1)
    mut_eff = sum(1 for mt in metas[n12:] if any(not s["exc"] and s["effective"] for s in mt["steps"]))
    if len(traces) < 500 or mut_eff < 100:
        raise lib.MachineryError(f"too few histories ({len(traces)}; {mut_eff} effective ones on mutable parameters)")

    # ---------------- trace validation
    batch = list(traces)
    negs = []
    cand = [i for i, mt in enumerate(metas) if any(not s["exc"] and s["kind"] == "tapes" for s in mt["steps"])]
    for i in rng.sample(cand, min(len(cand), 25)):
        for c, clause in corrupt(traces[i], metas[i], rng):
            negs.append((len(batch), clause, i))
            batch.append(c)
    verd = {}
    CH = 6000
    for b0 in range(0, len(batch), CH):
        part = batch[b0:b0 + CH]
        wd = lib.workdir("C18", f"trace{b0}")
        (wd / "traces.json").write_text(json.dumps(part))
        r = lib.run_tlc("Trace_Heap", lib.cfg(init="TInit", next_="TNext", constants={"NTRACES": len(part)}), wd,
                        env={"TRACE_FILE": str(wd / "traces.json")}, timeout=3000)
        lib.require_ok(r, "Trace_Heap")
        runs.append(r)
        for t in r.tuples:
            if t[0] == "V":
                verd[b0 + t[1] - 1] = t[2:]
    if len(verd) != len(batch):
        raise lib.MachineryError(f"verdicts not total: {len(verd)} of {len(batch)}")
    phases["trace_validation"] = round(time.time() - T0, 1)
    kinds = {}
    negs = [(bi, clause) for bi, clause, i in negs if verd[i][0] == "ok"]      # controls derived from traces that are themselves accepted
    for bi, clause in negs:
        if verd[bi][0] == clause:
            kinds[clause] = kinds.get(clause, 0) + 1
    nrej = sum(kinds.values())
    if not negs or nrej != len(negs) or len(kinds) < 6:
        raise lib.MachineryError(f"trace negative controls rejected with the right clause: {nrej}/{len(negs)} kinds={kinds}")
    neg_ok += nrej

    # ---------------- verdicts -> violations
    by_key, moved, err_path = {}, 0, {}
    exec_changed = {"traces": 0, "note": "the executed tape itself differs right after qp.execute (the instrument, not a transform: outside the "
                                          "statement; TLC re-baselines the object and counts it)", "examples": []}
    for i, (tr, meta) in enumerate(zip(traces, metas)):
        clause, step, obj, mv, nexec = verd[i]
        moved += mv == "moved"
        if nexec:
            exec_changed["traces"] += 1
            f = meta["full"].get(1, [])
            ch = next(((c, f[0][c], x[c]) for x in f[1:] for c in ("ops", "meas", "par", "tr", "shots", "hash", "bs") if x[c] != f[0][c]), None)
            if ch and len(exec_changed["examples"]) < 3 and all(e["family"] != meta["fam"] or e["rep"] != meta.get("rep") for e in exec_changed["examples"]):
                exec_changed["examples"].append({"family": meta["fam"], "instance": meta.get("inst"), "rep": meta.get("rep"), "component": ch[0],
                                                 "before": str(ch[1])[:200], "after": str(ch[2])[:200]})
        if clause == "ok":
            continue
        ev = tr["events"][step - 1]
        prev = [e for e in tr["events"][:step] if e["e"] == "transform"]
        if ev["e"] == "transform":
            culprit = base_name(ev["k"])
            what = "input-mutated" if obj == ev["on"] else "other-object-mutated"
            if ev["exc"]:
                err_path[culprit] = err_path.get(culprit, 0) + 1
                what = "input-mutated-on-error-path"
        elif clause == "result":
            culprit, what = (base_name(prev[-1]["k"]) if prev else "execute"), "result-of-original-changed"
        else:
            culprit, what = "execute", "tape-mutated-by-execution"
        key = f"{culprit}:{what}"
        full = meta["full"].get(obj, [])
        before = full[0] if full else {}
        after = full[min(step - 1, len(full) - 1)] if full else {}
        for fp in full:
            if any(fp[c] != before[c] for c in ("ops", "meas", "par", "tr", "shots", "hash", "bs")):
                after = fp
                break
        comp = {"operations": "ops", "measurements": "meas", "parameters": "par", "trainable_params": "tr", "shots": "shots", "hash": "hash", "batch_size": "bs"}.get(clause)
        detail = (f"Trace_Heap rejects event {step} ({ev['e']} {ev['k']} on object {ev['on']}) of the history "
                  f"{[(e['e'], e['k'], e['on']) for e in tr['events']]} on circuit family '{meta['fam']}' instance {meta.get('inst')} "
                  f"(parameters as {meta.get('rep')}): component "
                  f"'{clause}' of object {obj} differs from its birth value")
        if comp:
            detail += f"; before: {before.get(comp)} ; after: {after.get(comp)}"
        d = by_key.setdefault(key, [0, detail, hists[i], meta["fam"], meta.get("inst"), set()])
        d[0] += 1
        d[5].add(clause)
    viol = [Violation(key=k, detail=f"[{n} histories; components {sorted(cl)}] {d}",
                      replay={"history": [dict(e, name=names[e["k"] - 1] if e["e"] == "transform" else "", family=fams[e["c"] - 1] if e["e"] == "create" else "")
                                          for e in h], "family": fam, "instance": inst, "seed": seed})
            for k, (n, d, h, fam, inst, cl) in sorted(by_key.items())]

    # ---------------- evidence
    applied, effective, rejected, values = {}, {}, {}, {}
    for meta in metas:
        for s in meta["steps"]:
            if s["exc"]:
                rejected[s["k"]] = rejected.get(s["k"], 0) + 1
            else:
                applied[s["k"]] = applied.get(s["k"], 0) + 1
                effective[s["k"]] = effective.get(s["k"], 0) + bool(s["effective"])
                if s["kind"] != "tapes":
                    values[s["k"]] = s["kind"]
    uncovered = sorted(n for n in names if not applied.get(n))
    nowire = sum(1 for mt in metas if mt["fam"].startswith("mw_") for s in mt["steps"] if not s["exc"])
    variants_applied = sorted(n for n in applied if n in R.VARIANTS)
    by_rep = {}
    for mt in metas:
        by_rep[mt.get("rep")] = by_rep.get(mt.get("rep"), 0) + 1
    if nowire < 100 or len(variants_applied) < 25:
        raise lib.MachineryError(f"vacuous: {nowire} accepted applications on wire-less measurements, {len(variants_applied)} optional-argument variants applied")
    if len(applied) < 60:
        raise lib.MachineryError(f"vacuous: only {len(applied)} transforms were applied successfully; uncovered: {uncovered}")
    samples = []
    for i, meta in enumerate(metas):
        if len(meta["steps"]) == 2 and all(not s["exc"] and s["effective"] for s in meta["steps"]) and verd[i][0] == "ok" and len(samples) < 3:
            f0 = meta["full"][1][0]
            samples.append({"family": meta["fam"], "input_ops": f0["ops"][:6], "history": [(s["k"], s["on"], s["n_out"]) for s in meta["steps"]], "verdict": "ok",
                            "input_hash": f0["hash"]})
    for k, (n, d, h, fam, inst, cl) in sorted(by_key.items())[:2]:
        samples.append({"violation": k, "detail": d[:600]})
    nontriv = set()
    for i, meta in enumerate(metas):
        if any(s["effective"] for s in meta["steps"]):
            nontriv.add((meta["fam"], meta.get("inst"), meta.get("rep"), tuple((s["k"], s["on"]) for s in meta["steps"])))
    cov = {"states": sum(x.distinct for x in runs), "transitions": sum(x.generated for x in runs),
           "traces_validated_against_impl": len(traces), "evaluations": sum(applied.values()) + sum(rejected.values()),
           "distinct_nontrivial": len(nontriv),
           "rule": "TLC enumerates every history Create(family, instance, parameter representation); Execute; Transform_k; [Transform_j on the first output | on the original]; Execute over "
                   "(transform, circuit family, instance); non-trivial = distinct (family, instance, transform sequence) in which at least one "
                   "transform was accepted and returned something different from its input",
           "samples": samples, "exhaustive": True,
           "transform_objects_discovered": n_found, "registry_entries_with_recipe": len(reg), "transforms_applied_successfully": len(applied),
           "transforms_with_an_effective_application": sum(1 for v in effective.values() if v), "transforms_never_accepted": uncovered,
           "transforms_skipped": skipped, "transforms_cut_short_for_time": sorted(too_slow), "informative_transforms": values,
           "applications_accepted": sum(applied.values()), "applications_rejected_by_transform": sum(rejected.values()),
           "mutations_on_error_path": err_path, "tape_changed_by_its_own_execution": exec_changed, "executions_of_original": stats["executions"],
           "two_stage_histories": len(h2), "histories_by_parameter_representation": by_rep,
           "effective_applications_on_mutable_parameters": mut_eff, "accepted_applications_on_wireless_measurements": nowire,
           "optional_argument_variants_applied": variants_applied, "traces_with_reallocated_containers_or_ops(mechanism)": moved,
           "negative_controls_rejected": neg_ok, "trace_negative_control_kinds": kinds, "cumulative_wall_s": phases,
           "model": {"module": "Heap", "invariants": ["BornEqual", "ExecStable", "Immutable (action property)"], "states": m.distinct,
                     "aliased_writes_counterexample": mneg.invariant_violated},
           "model_parameters": {"module": "HeapData", "invariants": ["BornEqual", "Immutable (action property)"], "states": dm["documented"].distinct,
                                "in_place_accumulation_on_mutable_arrays": "rejected", "in_place_accumulation_on_immutable_scalars": "unobservable (holds)"}}
    return CheckResult(coverage=cov, violations=viol, assumptions=[
        "a tape's observable value = operations and measurements by value (class, repr, wires, data, operator hash), parameters, trainable "
        "indices, shots, recomputed hash, batch size; container / operator identity is recorded as mechanism only",
        "re-execution on default.qubit with a fixed device seed is deterministic for an unchanged tape",
        "each transform is called with one minimal valid-argument recipe plus, for %d of them, a recipe through its optional arguments; circuits "
        "come from %d seeded families x parameter representations %s" % (len(R.VARIANTS), len(R.FAMILIES), R.REPS)])


def replay(path, tier="quick", seed=0):
    """./check C18 --replay FILE: run the stored history again on fresh real tapes and let Trace_Heap.tla judge it."""
    d = json.loads(open(path).read())
    rp = d["replay"]
    reg, _, _ = registry()
    names = [r[0] for r in reg]
    fams = list(R.FAMILIES)
    h = []
    for e in rp["history"]:
        e = dict(e)
        if e["e"] == "transform" and e.get("name"):
            e["k"] = names.index(e["name"]) + 1
        if e["e"] == "create" and e.get("family"):
            e["c"] = fams.index(e["family"]) + 1
        h.append(e)
    stats = {"executions": 0, "slow": {}}
    tr, meta = run_history(h, reg, fams, rp.get("seed", seed), stats)
    wd = lib.workdir("C18", "replay")
    (wd / "traces.json").write_text(json.dumps([tr]))
    r = lib.run_tlc("Trace_Heap", lib.cfg(init="TInit", next_="TNext", constants={"NTRACES": 1}), wd, env={"TRACE_FILE": str(wd / "traces.json")}, timeout=600)
    lib.require_ok(r, "Trace_Heap (replay)")
    v = next(t for t in r.tuples if t[0] == "V")
    viol = []
    if v[2] != "ok":
        ev = tr["events"][v[3] - 1]
        full = meta["full"].get(v[4], [])
        viol.append(Violation(key=d["key"], detail=f"replayed: Trace_Heap rejects event {v[3]} ({ev['e']} {ev['k']} on object {ev['on']}): component "
                                                   f"'{v[2]}' of object {v[4]} differs from its birth value; operations at birth "
                                                   f"{full[0]['ops'] if full else None} ; now {full[-1]['ops'] if full else None}", replay=rp))
    return CheckResult(coverage={"states": r.distinct, "transitions": r.generated, "traces_validated_against_impl": 1, "evaluations": len(tr["events"]),
                                 "distinct_nontrivial": 1, "rule": "replay of one stored history", "samples": [rp["history"]], "exhaustive": False},
                       violations=viol)
