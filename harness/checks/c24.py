"""C24 Circuit cutting reconstructs the uncut result (partial: cut_circuit_mc is decided statistically only).

(G) spec/gen/CutGen.tla: TLC enumerates a layered circuit family (3-5 wires, L two-qubit gates with one-qubit dressing), every
    placement of <= MaxCuts WireCut operations and several observables (Pauli words on all / some wires, sums), checks the
    bookkeeping invariant ModelOK of its structural model of cutting (fragments = connected components of wire segments,
    removed / dropped cuts, 4^p 3^m configurations, wires needed) and emits every case with the expected structure.
(R) REPLAY, values: the exact expectation value of the UNCUT circuit comes from TapeEval.tla; qp.cut_circuit(tape, device_wires)
    is executed on default.qubit restricted to the device wires and its post-processed result compared at 1e-7 (manual cuts;
    auto_cutter=True with kahypar on the uncut circuits; multi-wire WireCut and string-label variants).
(T) TRACE, structure: the documented step-by-step workflow is recorded per case (fragment tapes with their Prepare/Measure
    nodes, every expanded configuration, the communication graph) and spec/trace/Trace_Cut.tla decides fits / cut-once / count /
    prep / meas.  Agreement of the implementation's fragments with the generator's model is reported as drift only.
(S) cut_circuit_mc: the parity estimator over S shots must lie within 6 sigma (sigma <= 4^K / sqrt(S)) of the exact value, for the
    cases whose exact parity is largest.  Two estimates are taken from the same fragment tapes: as executed by default.qubit, and
    with all measurements of a one-shot tape read from ONE joint sample (joint_outcomes); the second isolates the post-processing
    from the device's per-measurement sampling (violation keys mc:estimate-outside-6-sigma[:device-draws-...])."""
import json
import math
import random

import numpy as np

import pennylane as qp
from pennylane import qcut

from .. import lib, tapeeval
from ..codec import decode_gate
from ..devsim import word_op
from ..lib import CheckResult, Violation

M = 4
TOL = 1e-7
STR_LABELS = ["a", "b", "c", "d", "e", "f"]


# ------------------------------------------------------------------------------------------------ generator
def generate(tier, seed):
    if tier == "quick":
        cfgs = [dict(NW=3, L=3, MaxCuts=2, Chain="FALSE", NOBS=5), dict(NW=4, L=3, MaxCuts=2, Chain="TRUE", NOBS=2)]
    else:
        cfgs = [dict(NW=3, L=3, MaxCuts=3, Chain="FALSE", NOBS=5), dict(NW=4, L=3, MaxCuts=2, Chain="FALSE", NOBS=5),
                dict(NW=5, L=4, MaxCuts=2, Chain="TRUE", NOBS=1)]
    cases, st, tr, models = [], 0, 0, []
    for i, c in enumerate(cfgs):
        wd = lib.workdir("C24", f"gen{i}")
        r = lib.run_tlc("CutGen", lib.cfg(constants=dict(c, SEED=seed % 97, NANG=1 << M), invariants=["ModelOK"], constraints=["Emit"]),
                        wd, timeout=6000)
        if r.invariant_violated:
            raise lib.MachineryError(f"CutGen model violates its own invariant {r.invariant_violated}")
        lib.require_ok(r, "CutGen")
        if len(r.json_lines) < 100:
            raise lib.MachineryError("CutGen emitted too few cases")
        for j in r.json_lines:
            j["cfg"] = i
        cases += r.json_lines
        st += r.distinct
        tr += r.generated
        models.append(dict(c, cases=len(r.json_lines), states=r.distinct))
    cases.sort(key=lambda c: json.dumps([c["cfg"], c["sk"], c["ob"], sorted((x["w"], x["gap"]) for x in c["cuts"])]))
    return cases, st, tr, models


def stratum(case):
    md = case["terms"][0]["model"]
    return (case["cfg"], min(md["nlive"], 2), md["nfrag"] >= 3, len(case["terms"]) > 1, md["neff"] < len(case["cuts"]))


def pick(cases, rng, n):
    """stratified sample: equal share per (config, live cuts, >=3 fragments, sum observable, removed cut) stratum"""
    if n >= len(cases):
        return list(range(len(cases)))
    by = {}
    for i, c in enumerate(cases):
        by.setdefault(stratum(c), []).append(i)
    keys = sorted(by)
    for k in keys:
        rng.shuffle(by[k])
    out, r = [], 0
    while len(out) < n:
        progressed = False
        for k in keys:
            if r < len(by[k]) and len(out) < n:
                # strata without any live cut carry little information: take every third round only
                if k[1] == 0 and r % 3:
                    continue
                out.append(by[k][r])
                progressed = True
        r += 1
        if not progressed and all(r >= len(by[k]) for k in keys):
            break
    return sorted(out)


# ------------------------------------------------------------------------------------------------ tapes
def labels_of(case, variant):
    n = case["n"]
    return STR_LABELS[:n] if variant % 4 == 1 else list(range(n))


def dev_labels(k, variant):
    return [f"d{i}" for i in range(k)] if variant % 4 == 2 else list(range(k))


def cut_ops(case, labels, variant, with_cuts=True):
    gates = [decode_gate(g, M, labels) for g in case["ops"]]
    if not with_cuts:
        return gates
    by_anchor = {}
    for c in sorted(case["cuts"], key=lambda c: (c["anchor"], c["w"])):
        by_anchor.setdefault(c["anchor"], []).append(labels[c["w"] - 1])
    out = []
    for i in range(len(gates) + 1):
        if i > 0:
            out.append(gates[i - 1])
        ws = by_anchor.get(i, [])
        if len(ws) > 1 and variant % 3 == 0:
            out.append(qp.WireCut(wires=ws))              # one multi-wire cut
        else:
            out += [qp.WireCut(wires=w) for w in ws]
    return out


def observable(case, labels, variant):
    ts = case["terms"]
    if len(ts) == 1:
        return word_op(ts[0]["pw"], labels)
    cs = [t["c"][0] / t["c"][1] for t in ts]
    ws = [word_op(t["pw"], labels) for t in ts]
    return qp.Hamiltonian(cs, ws) if variant % 2 else qp.dot(cs, ws)


def need(case):
    return max(t["model"]["need"] for t in case["terms"])


# ------------------------------------------------------------------------------------------------ structure recorder
def word_of(obs, wid):
    if obs is None:
        return []
    ps = obs.pauli_rep
    if ps is None or len(ps) != 1:
        return [[9999, 1]]
    (pw, c), = ps.items()
    if abs(c - 1) > 1e-12:
        return [[9998, 1]]
    return sorted([wid(w), "IXYZ".index(l)] for w, l in pw.items() if l != "I")


def record_structure(tape, dev):
    """the documented elementary steps of cut_circuit, recorded"""
    devid = {w: i + 1 for i, w in enumerate(dev)}
    other = {}

    def wid(w):
        if w in devid:
            return devid[w]
        return other.setdefault(w, 100 + len(other))
    g = qcut.tape_to_graph(tape)
    qcut.replace_wire_cut_nodes(g)
    frags, comm = qcut.fragment_graph(g)
    ftapes = [qcut.graph_to_tape(f) for f in frags]
    ftapes = [qp.map_wires(t, dict(zip(t.wires, dev)))[0][0] for t in ftapes]
    ids = {}

    def nid(op):
        return ids.setdefault(op.node_uid, len(ids) + 1)

    def gname(op):
        if isinstance(op, qcut.PrepareNode):
            return "PREP"
        if isinstance(op, qcut.MeasureNode):
            return "MEAS"
        return op.name if not op.data else op.name + str([round(float(x), 9) for x in op.data])
    rec_frags, impl = [], []
    for ft in ftapes:
        tapes, preps, meass = qcut.expand_fragment_tape(ft)
        fobs = [word_of(m.obs, wid) for m in ft.measurements]
        rec_frags.append({
            "ops": [{"g": gname(o), "w": [wid(w) for w in o.wires], "id": nid(o) if gname(o) in ("PREP", "MEAS") else 0} for o in ft.operations],
            "prep": [nid(o) for o in preps], "meas": [nid(o) for o in meass], "mw": [wid(o.wires[0]) for o in meass],
            "obs": fobs[0] if fobs else [],
            "tapes": [{"ops": [{"g": gname(o), "w": [wid(w) for w in o.wires]} for o in t.operations],
                       "ms": [word_of(m.obs, wid) for m in t.measurements]} for t in tapes]})
        impl.append((len(preps), len(meass), len(ft.wires)))
    edges = [{"m": nid(pair[0].obj), "p": nid(pair[1].obj)} for _, _, pair in comm.edges(data="pair")]
    ntapes = sum(len(f["tapes"]) for f in rec_frags)
    return {"dev": [devid[w] for w in dev], "frags": rec_frags, "edges": edges}, sorted(impl), ntapes


def joint_outcomes(tapes, dev):
    """Outcomes of the one-shot fragment tapes of cut_circuit_mc with all measurements of a tape taken from the SAME shot: the
    measured wires are rotated to the computational basis and sampled once (Projector -> bit, Pauli -> eigenvalue, Identity -> 1)."""
    new = []
    for t in tapes:
        ops, ws = list(t.operations), []
        for m in t.measurements:
            w = m.obs.wires[0]
            ws.append(w)
            if m.obs.name == "PauliX":
                ops.append(qp.Hadamard(w))
            elif m.obs.name == "PauliY":
                ops += [qp.adjoint(qp.S(w)), qp.Hadamard(w)]
            elif m.obs.name not in ("PauliZ", "Identity", "Projector"):
                raise lib.MachineryError(f"unexpected fragment measurement {m}")
        new.append(qp.tape.QuantumScript(ops, [qp.sample(wires=ws)], shots=1))
    out = []
    for t, r in zip(tapes, qp.execute(new, dev, diff_method=None)):
        bits = np.asarray(r).reshape(-1)
        vals = [np.array([float(b)]) if m.obs.name == "Projector" else np.array([1.0]) if m.obs.name == "Identity" else np.array([1.0 - 2.0 * b])
                for m, b in zip(t.measurements, bits)]
        out.append(tuple(vals) if len(vals) > 1 else vals[0])
    return out


def hand_records():
    """negative controls: the documentation example written out by hand, then one clause broken at a time"""
    def ops0():
        return [{"g": "RX[0.531]", "w": [1]}, {"g": "RY[0.9]", "w": [2]}, {"g": "CZ", "w": [1, 2]}, {"g": "RY[-0.4]", "w": [1]}]

    def base():
        f0 = {"ops": [dict(o, id=0) for o in ops0()] + [{"g": "MEAS", "w": [2], "id": 1}], "prep": [], "meas": [1], "mw": [2], "obs": [[1, 3]],
              "tapes": [{"ops": ops0(), "ms": [[[1, 3]], [[1, 3], [2, 3]]]}, {"ops": ops0(), "ms": [[[1, 3], [2, 1]]]},
                        {"ops": ops0(), "ms": [[[1, 3], [2, 2]]]}]}
        rx, cz = {"g": "RX[0.3]", "w": [1]}, {"g": "CZ", "w": [2, 1]}
        preps = [[{"g": "Identity", "w": [2]}], [{"g": "PauliX", "w": [2]}], [{"g": "Hadamard", "w": [2]}],
                 [{"g": "Hadamard", "w": [2]}, {"g": "S", "w": [2]}]]
        f1 = {"ops": [dict(rx, id=0), {"g": "PREP", "w": [2], "id": 2}, dict(cz, id=0)], "prep": [2], "meas": [], "mw": [],
              "obs": [[1, 3], [2, 3]], "tapes": [{"ops": [rx] + p + [cz], "ms": [[[1, 3], [2, 3]]]} for p in preps]}
        return {"dev": [1, 2], "frags": [f0, f1], "edges": [{"m": 1, "p": 2}]}
    out = [("ok", base())]
    b = base(); b["frags"][1]["tapes"].pop(); out.append(("count", b))
    b = base(); b["frags"][1]["tapes"][3]["ops"] = b["frags"][1]["tapes"][1]["ops"]; out.append(("prep", b))
    b = base(); b["frags"][0]["tapes"][2]["ms"] = [[[1, 3], [2, 1]]]; out.append(("meas", b))
    b = base(); b["frags"][0]["tapes"][1]["ms"] = [[[2, 1]]]; out.append(("meas", b))
    b = base(); b["frags"][1]["tapes"][0]["ops"][0] = {"g": "RX[0.3]", "w": [100]}; out.append(("fits", b))
    b = base(); b["edges"] = [{"m": 1, "p": 3}]; out.append(("cut-once", b))
    b = base(); b["frags"][0]["ops"].append({"g": "S", "w": [2], "id": 0}); out.append(("cut-once", b))
    b = base(); b["frags"][1]["meas"] = [1]; out.append(("cut-once", b))
    return out


# ------------------------------------------------------------------------------------------------ run
def run(tier, seed):
    rng = random.Random(2400 + seed)
    import time
    T = {"t0": time.time()}

    def lap(name):
        T[name] = round(time.time() - T["t0"], 1)
        T["t0"] = time.time()
    cases, st, tr, models = generate(tier, seed)
    lap("generate")
    # qp.cut_circuit without any WireCut (and without auto_cutter) raises by design: those cases feed the auto cutter only
    cut_cases = [i for i, c in enumerate(cases) if c["cuts"]]
    n_num, n_str, n_auto, n_mc, shots = (300, 1000, 14, 2, 2500) if tier == "quick" else (3000, 9000, 100, 4, 10000)
    sel_str = [cut_cases[j] for j in pick([cases[i] for i in cut_cases], rng, n_str)]
    sel_num = [sel_str[j] for j in pick([cases[i] for i in sel_str], rng, n_num)]
    uncut = {}
    for i, c in enumerate(cases):
        if not c["cuts"] and len(c["terms"]) == 1 and c["ob"] == 1:
            uncut[json.dumps(c["sk"]) + str(c["cfg"])] = i
    auto_ids = sorted(uncut.values())
    rng.shuffle(auto_ids)
    auto_ids = auto_ids[:n_auto]
    mc_cand = [i for i in sel_num if cases[i]["terms"][0]["model"]["nlive"] == 1 and len(cases[i]["terms"]) == 1 and cases[i]["ob"] == 1
               and len(cases[i]["cuts"]) == 1][:40]

    # ---- exact oracle: expectation values of the uncut circuits
    tcases, owner = [], []
    for i in sorted(set(sel_num) | set(auto_ids)):
        c = cases[i]
        req = [{"t": "expval", "pw": t["pw"]} for t in c["terms"]]
        if i in mc_cand:
            used = {w for g in c["ops"] for w in g["w"]}
            req.append({"t": "expval", "pw": [3 if w + 1 in used else 0 for w in range(c["n"])]})
        tcases.append({"n": c["n"], "ops": c["ops"], "meas": req})
        owner.append(i)
    res, stats = tapeeval.evaluate("C24", tcases, M)
    exact = {i: r["meas"] for i, r in zip(owner, res)}
    # Monte-Carlo cases: the candidates whose parity observable has the largest exact magnitude (a wrong reconstruction is then visible)
    mc_ids = sorted(mc_cand, key=lambda i: (-round(abs(exact[i][-1]), 6), i))[:n_mc]
    lap("tapeeval")

    viol, samples, nontriv = [], [], set()
    n_exec = n_cmp = 0

    # ---- (R) values
    def replay_value(i, variant, auto=False):
        nonlocal n_exec, n_cmp
        c = cases[i]
        labels = labels_of(c, variant)
        used = sorted({w for g in c["ops"] for w in g["w"]})
        if auto:
            k = max(2, len(used) - 1)
        else:
            k = need(c) + (variant // 4) % 2
        dev = dev_labels(k, variant)
        ops = cut_ops(c, labels, variant, with_cuts=not auto)
        obs = observable(c, labels, variant)
        tape = qp.tape.QuantumScript(ops, [qp.expval(obs)])
        want = sum(t["c"][0] / t["c"][1] * v for t, v in zip(c["terms"], exact[i][:len(c["terms"])]))
        desc = {"ops": [str(o) for o in ops], "obs": str(obs), "device_wires": dev, "auto_cutter": auto}
        kind = "auto" if auto else "manual"
        try:
            if auto:
                tapes, fn = qp.cut_circuit(tape, auto_cutter=True, device_wires=qp.wires.Wires(dev), seed=seed + i)
            else:
                tapes, fn = qp.cut_circuit(tape, device_wires=qp.wires.Wires(dev))
        except ValueError as e:
            if auto and "Unable to find a circuit cutting" in str(e):
                return "nocut"
            viol.append(Violation(key=f"{kind}:transform-exception:{type(e).__name__}", detail=f"{type(e).__name__}: {e} on {desc}", replay=desc))
            return "exc"
        except Exception as e:
            viol.append(Violation(key=f"{kind}:transform-exception:{type(e).__name__}", detail=f"{type(e).__name__}: {e} on {desc}", replay=desc))
            return "exc"
        big = [t for t in tapes if len(t.wires) > k or not set(t.wires) <= set(dev)]
        if big:
            viol.append(Violation(key=f"{kind}:fragment-exceeds-device-wires",
                                  detail=f"fragment configuration on wires {list(big[0].wires)} but device_wires={dev}: {desc}", replay=desc))
            return "big"
        try:
            out = qp.execute(list(tapes), qp.device("default.qubit", wires=dev), diff_method=None)
            got = float(np.real(np.asarray(fn(out))).reshape(-1)[0])
        except Exception as e:
            viol.append(Violation(key=f"{kind}:execution-exception:{type(e).__name__}", detail=f"{type(e).__name__}: {e} on {desc}", replay=desc))
            return "exc"
        n_exec += len(tapes)
        n_cmp += 1
        if not abs(got - want) <= TOL:
            viol.append(Violation(key=f"{kind}:value-mismatch:frags={c['terms'][0]['model']['nfrag']}:live={c['terms'][0]['model']['nlive']}",
                                  detail=f"cut_circuit gives {got!r}, uncut circuit has {want!r} ({len(tapes)} fragment configurations): {desc}",
                                  replay=dict(desc, got=got, want=want, case=c)))
            return "bad"
        if len(tapes) > 1:
            nontriv.add((i, auto))
        if len(samples) < 3 and len(tapes) >= 10:
            samples.append(dict(desc, fragment_configurations=len(tapes), exact=want, cut_circuit=got))
        return "ok"

    for n, i in enumerate(sel_num):
        replay_value(i, n)
    lap("value_replays")
    auto_stat = {"ok": 0, "nocut": 0, "exc": 0, "bad": 0, "big": 0}
    for n, i in enumerate(auto_ids):
        auto_stat[replay_value(i, 4 * n, auto=True)] += 1

    lap("auto_cutter")
    # ---- (T) structure
    traces, meta, drift, drift_samples = [], [], 0, []
    for n, i in enumerate(sel_str):
        c = cases[i]
        labels = labels_of(c, n)
        k = need(c) + (n // 4) % 2
        dev = dev_labels(k, n)
        ops = cut_ops(c, labels, n)
        for ti, t in enumerate(c["terms"]):
            tape = qp.tape.QuantumScript(ops, [qp.expval(word_op(t["pw"], labels))])
            try:
                rec, impl, ntapes = record_structure(tape, dev)
            except Exception as e:
                viol.append(Violation(key=f"structure:workflow-exception:{type(e).__name__}",
                                      detail=f"{type(e).__name__}: {e} on {[str(o) for o in ops]} obs={t['pw']}", replay={"case": c}))
                continue
            model = sorted((f["p"], f["m"], f["nw"]) for f in t["model"]["frags"])
            if impl != model or ntapes != t["model"]["ntapes"]:
                drift += 1
                if len(drift_samples) < 3:
                    drift_samples.append({"ops": [str(o) for o in ops], "pw": t["pw"], "model": model, "implementation": impl})
            traces.append(rec)
            meta.append((i, ti, [str(o) for o in ops], dev))
    lap("record_structure")
    hand = hand_records()
    for want, rec in hand:
        traces.append(rec)
        meta.append(("NEG", want, None, None))
    verd, r_distinct, r_generated = {}, 0, 0
    CH = 5000
    for off in range(0, len(traces), CH):
        wd = lib.workdir("C24", f"trace{off}")
        part = traces[off:off + CH]
        (wd / "traces.json").write_text(json.dumps(part))
        r = lib.run_tlc("Trace_Cut", lib.cfg(constants={"NCASES": len(part)}), wd, env={"TRACE_FILE": str(wd / "traces.json")}, timeout=6000)
        lib.require_ok(r, "Trace_Cut")
        verd.update({off + t[1] - 1: t[2] for t in r.tuples if t[0] == "V"})
        r_distinct += r.distinct
        r_generated += r.generated
    lap("trace_tlc")
    if len(verd) != len(traces):
        raise lib.MachineryError(f"verdicts not total: {len(verd)} of {len(traces)}")
    neg_rej = 0
    n_tr = 0
    frag_hist = {}
    for j, (i, ti, ops, dev) in enumerate(meta):
        if i == "NEG":
            if verd[j] != ti:
                raise lib.MachineryError(f"negative control: hand-written record expected verdict {ti!r}, TLC said {verd[j]!r}")
            neg_rej += ti != "ok"
            continue
        n_tr += 1
        shape = tuple(sorted((len(f["prep"]), len(f["meas"])) for f in traces[j]["frags"]))
        frag_hist[str(shape)] = frag_hist.get(str(shape), 0) + 1
        if verd[j] != "ok":
            viol.append(Violation(key=f"structure:{verd[j]}", detail=f"clause {verd[j]} fails for {ops} term {cases[i]['terms'][ti]['pw']} device_wires={dev}",
                                  replay={"case": cases[i], "term": ti, "record": traces[j]}))
        elif any(f["prep"] or f["meas"] for f in traces[j]["frags"]):
            nontriv.add((i, "s", ti))

    # ---- (S) cut_circuit_mc
    mc = []
    for n, i in enumerate(mc_ids):
        c = cases[i]
        labels = labels_of(c, 0)
        used = sorted({w for g in c["ops"] for w in g["w"]})
        dev = dev_labels(need(c), 0)
        ops = cut_ops(c, labels, 1)
        tape = qp.tape.QuantumScript(ops, [qp.sample(wires=[labels[w - 1] for w in used])], shots=shots)
        want = exact[i][-1]
        K = c["terms"][0]["model"]["nlive"]
        try:
            tapes, fn = qp.cut_circuit_mc(tape, classical_processing_fn=lambda b: float((-1) ** int(np.sum(b))),
                                          device_wires=qp.wires.Wires(dev), seed=1000 * seed + n)
            d = qp.device("default.qubit", wires=dev, seed=77 + 1000 * seed + n)
            got = float(np.asarray(fn(qp.execute(list(tapes), d, diff_method=None))))
            got_joint = float(np.asarray(fn(joint_outcomes(tapes, d))))
        except Exception as e:
            viol.append(Violation(key=f"mc:exception:{type(e).__name__}", detail=f"{type(e).__name__}: {e} on {[str(o) for o in ops]}", replay={"case": c}))
            continue
        sigma = 4 ** K / math.sqrt(shots)
        mc.append({"ops": [str(o) for o in ops], "shots": shots, "estimate": got, "estimate_with_joint_outcomes": got_joint, "exact": want,
                   "sigma_bound": sigma, "z": abs(got - want) / sigma, "z_joint": abs(got_joint - want) / sigma})
        n_exec += 2 * len(tapes)
        if abs(got_joint - want) > 6 * sigma:
            viol.append(Violation(key="mc:estimate-outside-6-sigma", detail=f"cut_circuit_mc estimate {got_joint} (fragment outcomes drawn jointly per shot) vs exact {want}, "
                                  f"sigma <= {sigma} ({shots} shots): {[str(o) for o in ops]}", replay={"case": c, "estimate": got_joint, "exact": want}))
        elif abs(got - want) > 6 * sigma:
            viol.append(Violation(key="mc:estimate-outside-6-sigma:device-draws-each-sample-measurement-independently",
                                  detail=f"cut_circuit_mc on default.qubit estimates {got}, exact {want}, sigma <= {sigma} ({shots} shots); with the outcomes of one "
                                         f"shot drawn jointly the same post-processing gives {got_joint}: {[str(o) for o in ops]}",
                                  replay={"case": c, "estimate": got, "estimate_joint": got_joint, "exact": want}))
    lap("mc")
    T.pop("t0")
    # comparator negative control
    if abs((0.25 + 1e-6) - 0.25) <= TOL:
        raise lib.MachineryError("comparator negative control accepted")
    if len(nontriv) < 50:
        raise lib.MachineryError(f"vacuous: only {len(nontriv)} non-trivial cases")
    cov = {"states": st + r_distinct + stats["distinct"], "transitions": tr + r_generated + stats["generated"],
           "traces_validated_against_impl": n_tr, "evaluations": n_cmp + n_tr, "distinct_nontrivial": len(nontriv),
           "rule": "TLC enumerates every placement of <= MaxCuts WireCuts on the layered family with 3-5 observables; a seeded stratified sample is "
                   "replayed; non-trivial = distinct (case, mode) whose cutting produced at least one live cut edge (>1 fragment configuration) "
                   "and whose value / structure was decided",
           "samples": samples, "exhaustive": False, "generator_models": models, "cases_enumerated": len(cases),
           "value_replays": n_cmp, "fragment_configurations_executed": n_exec, "auto_cutter": auto_stat,
           "structure_traces": n_tr, "fragment_shapes_(p,m)": dict(sorted(frag_hist.items(), key=lambda kv: -kv[1])[:12]),
           "model_drift": drift, "model_drift_samples": drift_samples, "negative_controls_rejected": neg_rej + 1,
           "cut_circuit_mc": mc, "ring_level_M": M, "phase_wall_s": T}
    return CheckResult(coverage=cov, violations=viol, assumptions=[
        "partial: cut_circuit_mc is checked statistically only (parity estimator, 6 sigma with sigma <= 4^K/sqrt(shots))",
        "device_wires has at least as many wires as the largest fragment needs (taken from the generator's model)",
        "angles on the lattice 4*pi/16; float comparison at 1e-7; the structure trace records the documented step-by-step workflow "
        "(the same functions cut_circuit composes)"])
