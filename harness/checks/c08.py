"""C08 Commutation checks are sound.

TRACE: the driver builds pairs of operators from the reference gate table (every name of codec.KNOWN, adjoint / pow /
ctrl modifiers, Pauli words, SProd / Sum / Prod / LinearCombination operators) on EVERY wire-overlap pattern (which wire
position of b coincides with which wire position of a, joint register <= 4 wires) at lattice angles (multiples of pi/4,
incl. 0, pi, 2pi, 4pi), records qp.is_commuting(a, b) and qp.is_commuting(b, a) (answer | exception class), and TLC
(Trace_Commute.tla) recomputes both operators exactly in Z[zeta_16][1/2] from the reference table, decides
A.B = B.A exactly and validates the recorded answers: "True" => commute; two Pauli words: answer <=> commute (and the
textbook criterion PCommutes must agree with the matrices).

Histories (the commutation DAG call path): is_commuting is also observed the way its main client uses it -- many calls
inside ONE qp.transforms.commutation_dag construction.  The driver builds multi-step circuits in which the same gate
types recur on the same wires with different parameters (first degenerate / repeated angles, where rotations simplify
and commute, later generic angles, where they do not), builds the DAG, and reads back is_commuting's answers from it:
nodes i < j with j NOT a successor of i  <=>  is_commuting(op_i, op_j) answered True while node j was inserted; a direct
edge i -> j  <=>  it answered False.  Each such answer is a record of the same trace format (operands re-encoded on the
pair's joint register) and is validated by the same Trace_Commute verdict: True => the exact matrices commute."""
import itertools
import random

import pennylane as qp

from .. import lib
from ..codec import ARITY, MULTI_PARAM, NO_PARAM, ONE_PARAM, PWI, decode_gate, rec
from ..lib import CheckResult, Violation

M = 4
SPECIAL = [0, 4, 8, 16]           # 0, pi, 2pi, 4pi
GENERIC = [1, 2, 3, 6, 12, 15]    # pi/4, pi/2, 3pi/4, 3pi/2, 3pi, 4pi - pi/4
ONE = [1, 0, 0]


# ------------------------------------------------------------------------------------------------ operand shapes
class Shape:
    """name, arity, npar, make(wires (1-based positions), params (lattice ints), labels) -> (PennyLane op, operand json)"""

    def __init__(self, name, arity, npar, make, family):
        self.name, self.arity, self.npar, self.make, self.family = name, arity, npar, make, family


def _gate_shape(name, arity, npar, x=(), mods=(), g=None, nctrl=0):
    g = g or name

    def make(w, p, labels):
        r = rec(g, list(w), list(p), list(x), mods=[dict(m) for m in mods])
        return decode_gate(r, M, labels), {"terms": [{"c": ONE, "gs": [r]}]}
    return Shape(name, arity, npar, make, "gate")


def _word_op(letters, w, labels):
    fac = [{0: qp.Identity, 1: qp.PauliX, 2: qp.PauliY, 3: qp.PauliZ}[c](labels[i - 1]) for c, i in zip(letters, w)]
    return fac[0] if len(fac) == 1 else qp.prod(*fac)


def _word_shape(letters):
    name = "word:" + "".join(PWI[c] for c in letters)

    def make(w, p, labels):
        return _word_op(letters, w, labels), {"terms": [{"c": ONE, "gs": [rec("PauliWord", list(w), x=list(letters))]}]}
    return Shape(name, len(letters), 0, make, "word")


def _lin_shape(name, arity, terms, build):
    """terms: [(coef <<re,im,k>>, letters over ALL `arity` positions)]; build(labels of own wires) -> op"""
    def make(w, p, labels):
        js = [{"c": list(c), "gs": [rec("PauliWord", list(w), x=list(let))]} for c, let in terms]
        return build([labels[i - 1] for i in w]), {"terms": js}
    return Shape(name, arity, 0, make, "lin")


def _comp_shape(name, arity, npar, build):
    """build(w, p, labels) -> (op, [(coef, [gate records in circuit order])])"""
    def make(w, p, labels):
        op, terms = build(w, p, labels)
        return op, {"terms": [{"c": list(c), "gs": gs} for c, gs in terms]}
    return Shape(name, arity, npar, make, "composite")


def shapes():
    S = []
    for n in NO_PARAM:
        S.append(_gate_shape(n, ARITY[n], 0))
    S.append(_gate_shape("Identity(2)", 2, 0, g="Identity"))
    for n in ONE_PARAM:
        if n in ("GlobalPhase", "MultiRZ", "PauliRot"):
            continue
        S.append(_gate_shape(n, ARITY[n], 1))
    for k in (1, 2, 3):
        S.append(_gate_shape(f"MultiRZ({k})", k, 1, g="MultiRZ"))
    for word in ([1], [3, 1], [2, 2, 3]):
        S.append(_gate_shape("PauliRot:" + "".join(PWI[c] for c in word), len(word), 1, x=word, g="PauliRot"))
    for n, k in MULTI_PARAM.items():
        S.append(_gate_shape(n, ARITY[n], k))
    S.append(_gate_shape("QFT(2)", 2, 0, g="QFT"))
    S.append(_gate_shape("QFT(3)", 3, 0, g="QFT"))
    for cv in ([1, 1], [0, 1], [1, 0], [0, 0, 1]):
        S.append(_gate_shape(f"MultiControlledX{cv}", len(cv) + 1, 0, x=cv, g="MultiControlledX"))
    ADJ = [{"t": "adj"}]
    for n in ("S", "T", "SX", "RX", "CRY", "ISWAP", "Rot", "PhaseShift", "IsingXY"):
        S.append(_gate_shape(f"adjoint({n})", ARITY[n], MULTI_PARAM.get(n, 1 if n in ONE_PARAM else 0), mods=ADJ, g=n))
    for n, z in (("PauliX", 2), ("S", 2), ("T", 3), ("SX", 2), ("RZ", 3), ("CNOT", 2), ("SWAP", 3), ("ISWAP", 2), ("Hadamard", 3),
                 ("S", -1), ("CZ", 3)):
        S.append(_gate_shape(f"pow({n},{z})", ARITY[n], 1 if n in ONE_PARAM else 0, mods=[{"t": "pow", "z": z}], g=n))
    for n, cv in (("Hadamard", [1]), ("S", [1]), ("T", [0]), ("PhaseShift", [1]), ("RX", [0]), ("RY", [1]), ("RZ", [1, 0]),
                  ("PauliZ", [0]), ("PauliX", [0]), ("PauliY", [1]), ("SX", [1]), ("SWAP", [0]), ("ISWAP", [1]), ("SISWAP", [1]),
                  ("IsingXX", [1]), ("IsingYY", [0]), ("IsingZZ", [1]), ("Rot", [1]), ("U2", [1]), ("PauliX", [1, 1, 0]),
                  ("Identity", [1]), ("CNOT", [0]), ("CZ", [1]), ("PSWAP", [1]), ("SingleExcitation", [1])):
        np_ = MULTI_PARAM.get(n, 1 if n in ONE_PARAM else 0)
        S.append(_gate_shape(f"ctrl({n},{cv})", ARITY[n] + len(cv), np_, mods=[{"t": "ctrl", "cv": cv}], g=n))
    S.append(_gate_shape("ctrl(MultiRZ(2),[1])", 3, 1, mods=[{"t": "ctrl", "cv": [1]}], g="MultiRZ"))
    S.append(_gate_shape("ctrl(GlobalPhase,[1])", 1, 1, mods=[{"t": "ctrl", "cv": [1]}], g="GlobalPhase"))
    S.append(_gate_shape("ctrl(GlobalPhase,[1,0])", 2, 1, mods=[{"t": "ctrl", "cv": [1, 0]}], g="GlobalPhase"))
    S.append(_gate_shape("ctrl(adjoint(S),[1])", 2, 0, mods=[{"t": "adj"}, {"t": "ctrl", "cv": [1]}], g="S"))
    S.append(_gate_shape("adjoint(ctrl(T,[1]))", 2, 0, mods=[{"t": "ctrl", "cv": [1]}, {"t": "adj"}], g="T"))
    S.append(_gate_shape("ctrl(pow(SX,2),[1])", 2, 0, mods=[{"t": "pow", "z": 2}, {"t": "ctrl", "cv": [1]}], g="SX"))
    # ---- Pauli words (products of Paulis on distinct wires)
    for let in ([1, 3], [2, 2], [3, 3], [1, 1], [1, 2], [3, 2], [1, 2, 3], [3, 3, 3], [3, 0, 1], [2, 1, 2], [1, 1, 2, 3]):
        S.append(_word_shape(let))
    # ---- scalar products, sums, linear combinations of Pauli words
    X, Y, Z = qp.PauliX, qp.PauliY, qp.PauliZ
    S.append(_lin_shape("2*X", 1, [([2, 0, 0], [1])], lambda l: qp.s_prod(2.0, X(l[0]))))
    S.append(_lin_shape("1j*Z", 1, [([0, 1, 0], [3])], lambda l: qp.s_prod(1j, Z(l[0]))))
    S.append(_lin_shape("-3*(X@Y)", 2, [([-3, 0, 0], [1, 2])], lambda l: qp.s_prod(-3.0, qp.prod(X(l[0]), Y(l[1])))))
    S.append(_lin_shape("X+Z'", 2, [(ONE, [1, 0]), (ONE, [0, 3])], lambda l: qp.sum(X(l[0]), Z(l[1]))))
    S.append(_lin_shape("X+Y", 1, [(ONE, [1]), (ONE, [2])], lambda l: qp.sum(X(l[0]), Y(l[0]))))
    S.append(_lin_shape("XX+ZZ", 2, [(ONE, [1, 1]), (ONE, [3, 3])],
                        lambda l: qp.sum(qp.prod(X(l[0]), X(l[1])), qp.prod(Z(l[0]), Z(l[1])))))
    S.append(_lin_shape("XX+YY+ZZ", 2, [(ONE, [1, 1]), (ONE, [2, 2]), (ONE, [3, 3])],
                        lambda l: qp.sum(qp.prod(X(l[0]), X(l[1])), qp.prod(Y(l[0]), Y(l[1])), qp.prod(Z(l[0]), Z(l[1])))))
    S.append(_lin_shape("H[2XZ-Y'']", 3, [([2, 0, 0], [1, 3, 0]), ([-1, 0, 0], [0, 0, 2])],
                        lambda l: qp.Hamiltonian([2.0, -1.0], [qp.prod(X(l[0]), Z(l[1])), Y(l[2])])))
    S.append(_lin_shape("H[Z+Z']/2", 2, [([1, 0, 1], [3, 0]), ([1, 0, 1], [0, 3])],
                        lambda l: qp.Hamiltonian([0.5, 0.5], [Z(l[0]), Z(l[1])])))
    S.append(_lin_shape("I+X", 1, [(ONE, [0]), (ONE, [1])], lambda l: qp.sum(qp.Identity(l[0]), X(l[0]))))
    # ---- products / sums of general gates
    def prod_rx_h(w, p, lab):
        return (qp.prod(qp.RX(lib.angle_of(p[0], M), lab[w[0] - 1]), qp.Hadamard(lab[w[1] - 1])),
                [(ONE, [rec("Hadamard", [w[1]]), rec("RX", [w[0]], p)])])
    S.append(_comp_shape("prod(RX,H')", 2, 1, prod_rx_h))

    def prod_s_t(w, p, lab):
        return qp.prod(qp.S(lab[w[0] - 1]), qp.T(lab[w[1] - 1])), [(ONE, [rec("T", [w[1]]), rec("S", [w[0]])])]
    S.append(_comp_shape("prod(S,T')", 2, 0, prod_s_t))

    def prod_cnot_x(w, p, lab):
        return (qp.prod(qp.CNOT([lab[w[0] - 1], lab[w[1] - 1]]), qp.PauliX(lab[w[0] - 1])),
                [(ONE, [rec("PauliX", [w[0]]), rec("CNOT", [w[0], w[1]])])])
    S.append(_comp_shape("prod(CNOT,X)", 2, 0, prod_cnot_x))

    def prod_h_s(w, p, lab):
        return qp.prod(qp.Hadamard(lab[w[0] - 1]), qp.S(lab[w[0] - 1])), [(ONE, [rec("S", [w[0]]), rec("Hadamard", [w[0]])])]
    S.append(_comp_shape("prod(H,S)", 1, 0, prod_h_s))

    def sum_rx_h(w, p, lab):
        return (qp.sum(qp.RX(lib.angle_of(p[0], M), lab[w[0] - 1]), qp.Hadamard(lab[w[1] - 1])),
                [(ONE, [rec("RX", [w[0]], p)]), (ONE, [rec("Hadamard", [w[1]])])])
    S.append(_comp_shape("sum(RX,H')", 2, 1, sum_rx_h))

    def sum_s_t(w, p, lab):
        return qp.sum(qp.S(lab[w[0] - 1]), qp.T(lab[w[1] - 1])), [(ONE, [rec("S", [w[0]])]), (ONE, [rec("T", [w[1]])])]
    S.append(_comp_shape("sum(S,T')", 2, 0, sum_s_t))

    def sprod_rz(w, p, lab):
        return qp.s_prod(2.0, qp.RZ(lib.angle_of(p[0], M), lab[w[0] - 1])), [([2, 0, 0], [rec("RZ", [w[0]], p)])]
    S.append(_comp_shape("2*RZ", 1, 1, sprod_rz))

    def sprod_cz(w, p, lab):
        return qp.s_prod(-1.0, qp.CZ([lab[w[0] - 1], lab[w[1] - 1]])), [([-1, 0, 0], [rec("CZ", [w[0], w[1]])])]
    S.append(_comp_shape("-1*CZ", 2, 0, sprod_cz))
    return S


def patterns(p, q, nmax=4):
    """every injective placement of b's q wire positions relative to a's wires 1..p (fresh wires numbered in order of
    first appearance), joint register <= nmax wires"""
    out = []

    def go(i, cur, nfresh):
        if i == q:
            out.append(list(cur))
            return
        for w in range(1, p + 1):
            if w not in cur:
                go(i + 1, cur + [w], nfresh)
        if p + nfresh + 1 <= nmax:
            go(i + 1, cur + [p + nfresh + 1], nfresh + 1)
    go(0, [], 0)
    return out


def universe():
    S = shapes()
    items = []
    for i, a in enumerate(S):
        for j in range(i, len(S)):
            b = S[j]
            for pat in patterns(a.arity, b.arity):
                items.append((i, j, pat))
    return S, items


def _params(rng, sh, other=None):
    return [rng.choice(SPECIAL) if rng.random() < 0.45 else rng.choice(GENERIC) for _ in range(sh.npar)]


def _call(a, b):
    try:
        r = qp.is_commuting(a, b)
    except Exception as e:  # noqa: BLE001 - the exception class is the recorded observation
        return "E:" + type(e).__name__
    if r is True or r is False or str(r) in ("True", "False"):
        return "T" if bool(r) else "F"
    return "E:non-boolean:" + type(r).__name__


# ------------------------------------------------------------------------------------------------ DAG histories
NW_DAG = 3


def _dag_params(rng, sh, early, prev):
    """lattice parameters for one circuit step.  early steps favour degenerate angle vectors (all but one angle 0, where
    Rot / U3 / CRot simplify to a single-axis rotation) and copies of earlier parameters (the same gate twice commutes
    with itself); late steps favour generic angles."""
    if sh.npar == 0:
        return []
    same = [q for q in prev if len(q) == sh.npar]
    r = rng.random()
    if early:
        if r < 0.4:
            p = [0] * sh.npar
            p[rng.randrange(sh.npar)] = rng.choice(SPECIAL + GENERIC)
            return p
        if r < 0.7 and same:
            return list(rng.choice(same))
        return _params(rng, sh)
    if r < 0.6:
        return [rng.choice(GENERIC) for _ in range(sh.npar)]
    if r < 0.75 and same:
        return list(rng.choice(same))
    return _params(rng, sh)


ROT_SHAPES = ("Rot", "U2", "U3", "CRot", "ctrl(Rot,[1])", "ctrl(U2,[1])", "adjoint(Rot)")


def dag_circuit(rng, S, pool_par, pool_fix, pool_rot):
    """a circuit over <= NW_DAG wires made of 2-3 'slots' (operand shape + wire placement) that recur with fresh
    parameters: [(shape index, wires, params)]"""
    k = rng.choice((2, 2, 3))
    slots = []
    while len(slots) < k:
        if slots and len(slots) == 1 and rng.random() < 0.25:
            slots.append(slots[0])                      # the very same gate type on the same wires
            continue
        # the answers that depend on the parameters come from the multi-angle rotations (simplification + the special
        # case for two non-simplified rotations): half of the parametrised slots are drawn from them
        r = rng.random()
        i = rng.choice(pool_rot) if r < 0.4 else rng.choice(pool_par) if (not slots or r < 0.8) else rng.choice(pool_fix)
        w = rng.sample(range(1, NW_DAG + 1), S[i].arity)
        if slots and not (set(w) & set(slots[0][1])):
            continue
        slots.append((i, w))
    L = rng.choice((4, 5, 5, 6))
    tail = [0, 1]
    rng.shuffle(tail)
    seq = [0, 1] + [rng.randrange(k) for _ in range(L - 4)] + tail
    circ, prev = [], []
    for pos_, sl in enumerate(seq):
        i, w = slots[sl]
        p = _dag_params(rng, S[i], pos_ < 2 or (pos_ < L - 2 and rng.random() < 0.5), prev)
        prev.append(p)
        circ.append((i, list(w), p))
    return circ


def _build_dag(ops):
    tape = qp.tape.QuantumScript(ops, [])
    out = qp.transforms.commutation_dag(tape)
    if not hasattr(out, "get_node"):
        batch, fn = out
        out = fn(batch)
    return out


def dag_records(rng, S, ncirc):
    """-> (cases, meta, stats): one record per overlapping node pair i < j of every circuit whose DAG answers the pair"""
    pool_par = [i for i, sh in enumerate(S) if sh.family == "gate" and sh.npar >= 1 and sh.arity <= NW_DAG
                and not sh.name.startswith("PauliRot") and "GlobalPhase" not in sh.name]
    pool_fix = [i for i, sh in enumerate(S) if sh.family == "gate" and sh.npar == 0 and sh.arity <= NW_DAG
                and "GlobalPhase" not in sh.name]
    pool_rot = [i for i in pool_par if S[i].name in ROT_SHAPES]
    cases, meta, seen = [], [], set()
    st = {"circuits": 0, "circuits_raised": {}, "pairs_unordered": 0, "pairs_direct_edge": 0, "pairs_transitive_only": 0,
          "pairs_duplicate": 0}
    attempts = 0
    while st["circuits"] < ncirc and attempts < 4 * ncirc:
        attempts += 1
        circ = dag_circuit(rng, S, pool_par, pool_fix, pool_rot)
        labels = rng.choice(LABELSETS)
        ops = [S[i].make(w, p, labels)[0] for (i, w, p) in circ]
        try:
            dag = _build_dag(ops)
            if dag.size != len(ops):
                raise lib.MachineryError(f"commutation DAG has {dag.size} nodes for {len(ops)} operations")
            succ = [set(dag.successors(x)) for x in range(len(ops))]
            direct = [set(dag.direct_successors(x)) for x in range(len(ops))]
        except lib.MachineryError:
            raise
        except Exception as e:  # noqa: BLE001 - is_commuting raised inside the construction: no answers to validate
            st["circuits_raised"][type(e).__name__] = st["circuits_raised"].get(type(e).__name__, 0) + 1
            continue
        st["circuits"] += 1
        cid = st["circuits"]
        text = [str(o) for o in ops]
        for x in range(len(circ)):
            for y in range(x + 1, len(circ)):
                (ia, wa_, pa), (ib, wb_, pb) = circ[x], circ[y]
                if not set(wa_) & set(wb_):
                    continue
                if y not in succ[x]:
                    ans = "T"
                    st["pairs_unordered"] += 1
                elif y in direct[x]:
                    ans = "F"
                    st["pairs_direct_edge"] += 1
                else:
                    st["pairs_transitive_only"] += 1     # is_commuting was not asked about this pair
                    continue
                # re-encode the two operands on the pair's joint register: a on 1..p, b's other wires numbered after
                cmap = {w: t + 1 for t, w in enumerate(wa_)}
                for w in wb_:
                    cmap.setdefault(w, len(cmap) + 1)
                lab2 = [None] * len(cmap)
                for w, t in cmap.items():
                    lab2[t - 1] = labels[w - 1]
                wa, wb = [cmap[w] for w in wa_], [cmap[w] for w in wb_]
                opa, ja = S[ia].make(wa, pa, lab2)
                opb, jb = S[ib].make(wb, pb, lab2)
                sig = (ia, ib, tuple(wb), tuple(pa), tuple(pb), ans)
                if sig in seen:
                    st["pairs_duplicate"] += 1
                    continue
                seen.add(sig)
                cases.append({"n": len(cmap), "a": ja, "b": jb, "ab": ans, "ba": _call(opb, opa)})
                meta.append({"a": S[ia].name, "b": S[ib].name, "pa": pa, "pb": pb, "wa": wa, "wb": wb,
                             "ops": [str(opa), str(opb)], "src": "dag", "circuit": text, "nodes": [x, y], "cid": cid,
                             "slot": [ia, tuple(wa_), ib, tuple(wb_)]})
    if st["circuits"] < ncirc // 2:
        raise lib.MachineryError(f"commutation_dag raised on most generated circuits: {st}")
    return cases, meta, st


LABELSETS = [[0, 1, 2, 3], [3, 1, 0, 2], ["a", "b", "c", "d"], [7, "q", 2, "aux"]]


def run(tier, seed):
    rng = random.Random(800 + seed)
    S, items = universe()
    total_patterns = len(items)
    # measured: ~0.1 CPU-s of TLC per case (two exact 2^n x 2^n products, n <= 4, in Z[zeta_16])
    budget = 2400 if tier == "quick" else 30000
    rng.shuffle(items)
    # the exactness clause is about Pauli words: word x word pair-patterns are over-sampled (all of them in thorough)
    W = {i for i, sh in enumerate(S) if sh.family == "word" or sh.name in ("Identity", "PauliX", "PauliY", "PauliZ", "Identity(2)")}
    wordpairs = [it for it in items if it[0] in W and it[1] in W]
    rest = [it for it in items if not (it[0] in W and it[1] in W)]
    nword = 500 if tier == "quick" else len(wordpairs)
    # the special cases of the lookup (pairs of non-simplified rotations U2/U3/Rot/CRot and their controlled / adjoint
    # forms) are a separate code path with few pair-patterns: all of them, in every tier, with two angle assignments
    R = {i for i, sh in enumerate(S) if sh.name in ("Rot", "U2", "U3", "CRot", "ctrl(Rot,[1])", "ctrl(U2,[1])", "adjoint(Rot)")}
    rot = [it for it in rest if it[0] in R and it[1] in R]
    rest = [it for it in rest if not (it[0] in R and it[1] in R)]
    chosen = wordpairs[:nword] + rot + rot + rest[:budget - nword - 2 * len(rot)]
    reps = 1
    cases, meta = [], []
    for (i, j, pat) in chosen:
        a, b = S[i], S[j]
        for _ in range(reps):
            n = max([a.arity] + pat)
            labels = rng.choice(LABELSETS)
            pa = _params(rng, a)
            pb = _params(rng, b)
            if a.npar and a.npar == b.npar and rng.random() < 0.2:
                pb = list(pa)
            wa = list(range(1, a.arity + 1))
            opa, ja = a.make(wa, pa, labels)
            opb, jb = b.make(pat, pb, labels)
            ab, ba = _call(opa, opb), _call(opb, opa)
            cases.append({"n": n, "a": ja, "b": jb, "ab": ab, "ba": ba})
            meta.append({"a": a.name, "b": b.name, "pa": pa, "pb": pb, "wa": wa, "wb": pat, "ops": [str(opa), str(opb)]})
    # histories: answers read back from commutation DAG constructions over circuits with recurring gate types / wires
    npairs = len(cases)
    dcases, dmeta, dstat = dag_records(random.Random(900 + seed), S, 100 if tier == "quick" else 1500)
    cases += dcases
    meta += dmeta
    # negative controls: flip a recorded "F" of a non-commuting pair to "T" / a recorded Pauli-word "T" to "F"
    nreal = len(cases)
    neg = []
    step = max(1, nreal // 60)
    for k in range(0, nreal, step):
        c = cases[k]
        if c["ab"] in ("T", "F"):
            neg.append((len(cases), k, c["ab"]))
            cases.append(dict(c, ab="F" if c["ab"] == "T" else "T"))
    wd = lib.workdir("C08", "trace")
    import json
    verd = {}
    gen = dist = 0
    CH = 4000
    for off in range(0, len(cases), CH):
        part = cases[off:off + CH]
        f = wd / f"cases_{off}.json"
        f.write_text(json.dumps(part))
        r = lib.run_tlc("Trace_Commute", lib.cfg(constants={"M": M, "NCASES": len(part)}), lib.workdir("C08", f"trace_{off}"),
                        env={"TRACE_FILE": str(f)}, timeout=3000)
        lib.require_ok(r, f"Trace_Commute batch @{off}")
        gen += r.generated
        dist += r.distinct
        for t in r.tuples:
            if t[0] == "V":
                verd[off + t[1] - 1] = t[2:]
    if len(verd) != len(cases):
        raise lib.MachineryError(f"verdicts are not total: {len(verd)} of {len(cases)}")
    viol, hist, exc = [], {}, {}
    n_true = n_commute = n_words = n_cons = 0
    nontriv = set()
    samples = []
    for k in range(nreal):
        cab, cba, commute, words = verd[k]
        m, c = meta[k], cases[k]
        if "overflow" in (cab, cba) or "spec-inconsistent" in (cab, cba):
            raise lib.MachineryError(f"TLC verdict {cab} on {m}")
        n_commute += commute
        n_words += words
        for direction, clause, ans in (("ab", cab, c["ab"]), ("ba", cba, c["ba"])):
            hist[clause] = hist.get(clause, 0) + 1
            if ans.startswith("E:"):
                exc[ans[2:]] = exc.get(ans[2:], 0) + 1
            n_true += ans == "T"
            n_cons += clause == "ok-conservative"
            if not clause.startswith("ok"):
                x, y = (m["a"], m["b"]) if direction == "ab" else (m["b"], m["a"])
                if m.get("src") == "dag" and direction == "ab":
                    viol.append(Violation(
                        key=f"{clause}:dag:{m['a']}~{m['b']}:wb={m['wb']}",
                        detail=f"commutation_dag of {m['circuit']} leaves nodes {m['nodes'][0]} and {m['nodes'][1]} "
                               f"{'unordered (is_commuting reported True' if ans == 'T' else 'ordered by an edge (reported False'} "
                               f"while inserting node {m['nodes'][1]}): {m['ops'][0]} , {m['ops'][1]} on the pair's joint register; "
                               f"exact matrices {'commute' if commute else 'do NOT commute'} (lattice params a={m['pa']} "
                               f"b={m['pb']}, angle = k*pi/4)",
                        replay={"case": c, "meta": m, "direction": "dag"}))
                    continue
                viol.append(Violation(
                    key=f"{clause}:{m['a']}~{m['b']}:wb={m['wb']}",
                    detail=f"is_commuting({m['ops'][0] if direction == 'ab' else m['ops'][1]}, "
                           f"{m['ops'][1] if direction == 'ab' else m['ops'][0]}) answered {ans}; exact matrices "
                           f"{'commute' if commute else 'do NOT commute'} (a={x} on {m['wa'] if direction == 'ab' else m['wb']}, "
                           f"b={y}; lattice params a={m['pa']} b={m['pb']}, angle = k*pi/4)",
                    replay={"case": c, "meta": m, "direction": direction}))
        overlap = any(w <= S_arity(m) for w in m["wb"])
        if overlap and (c["ab"] == "T" or c["ba"] == "T" or commute):
            nontriv.add((m["a"], m["b"], tuple(m["wb"])))
        isw = bool(words)
        if overlap and c["ab"] == "T" and m["a"] != m["b"] and len(m["wb"]) >= 2 and \
                sum(1 for s_ in samples if s_["pauli_words"] == isw) < 2:
            samples.append({"a": m["ops"][0], "b": m["ops"][1], "is_commuting(a,b)": c["ab"], "is_commuting(b,a)": c["ba"],
                            "tlc_commute": bool(commute), "verdict": [cab, cba], "pauli_words": isw})
    # non-vacuity of the history class: (gate type, wires) x (gate type, wires) pairs that recur inside ONE circuit with
    # different parameters and whose exact commutation (TLC) differs between the occurrences
    grp = {}
    for k in range(npairs, nreal):
        g = grp.setdefault((meta[k]["cid"], str(meta[k]["slot"])), [])
        g.append((meta[k]["nodes"], verd[k][2], cases[k]["ab"]))
    recurring = sum(1 for g in grp.values() if len(g) > 1)
    flips = sum(1 for g in grp.values() if len({v for _, v, _ in g}) == 2)
    # ... of which the commuting occurrence comes first (a stale "commute" would be unsound there)
    flips_cf = sum(1 for g in grp.values() if any(v1 and not v2 and n1 < n2 for n1, v1, _ in g for n2, v2, _ in g))
    dag_true = sum(1 for k in range(npairs, nreal) if cases[k]["ab"] == "T")
    if dag_true == 0 or flips_cf == 0:
        raise lib.MachineryError(f"vacuous DAG histories: {dag_true} unordered pairs, {flips_cf} parameter-dependent recurrences")
    nneg = 0
    for (idx, k, orig) in neg:
        cab = verd[idx][0]
        commute, words = verd[idx][2], verd[idx][3]
        # the flipped answer must be rejected whenever the flip contradicts the spec: F->T on a non-commuting pair,
        # any flip on a Pauli-word pair; other flips (T->F on non-words = conservative) are legitimately accepted
        # (a control derived from a record that is itself rejected proves nothing: flipping a wrong answer makes it right)
        must_reject = ((orig == "F" and not commute) or bool(words)) and verd[k][0].startswith("ok")
        if must_reject:
            if cab.startswith("ok"):
                raise lib.MachineryError(f"negative control accepted: case {k} flipped {orig} -> verdict {cab}")
            nneg += 1
    if nneg == 0 and not viol:
        raise lib.MachineryError("no negative control was exercised")
    if n_true == 0 or n_words == 0 or n_commute == 0:
        raise lib.MachineryError("vacuous run: no True answers / no Pauli-word pairs / no commuting pairs")
    cov = {"states": dist, "transitions": gen, "traces_validated_against_impl": 2 * nreal, "evaluations": 2 * nreal,
           "dag_constructions": dstat["circuits"],
           "distinct_nontrivial": len(nontriv),
           "rule": "non-trivial = distinct (shape a, shape b, overlap pattern) with at least one shared wire where the answer is "
                   "True or the exact matrices commute (disjoint placements are trivially commuting)",
           "samples": samples, "exhaustive": False, "operand_shapes": len(S),
           "pair_patterns_total": total_patterns, "pair_patterns_checked": len(set(map(str, chosen))), "rotation_special_case_patterns": len(rot),
           "answers_true": n_true, "pairs_commuting_exactly": n_commute, "pauli_word_pairs": n_words,
           "conservative_false": n_cons, "verdict_histogram": hist, "exception_classes": exc,
           "negative_controls_rejected": nneg, "ring_level_M": M,
           "dag": dict(dstat, records=nreal - npairs, answers_true=dag_true, recurring_type_wire_pairs=recurring,
                       recurrences_with_parameter_dependent_commutation=flips, of_which_commuting_first=flips_cf)}
    return CheckResult(coverage=cov, violations=viol,
                       assumptions=["angles on the lattice k*pi/4 (0, pi, 2pi, 4pi over-weighted); one seeded angle assignment per "
                                    "(pair, overlap pattern)",
                                    "operator semantics = reference gate table Gates.tla (bound to PennyLane matrices by C02)",
                                    "an exception is recorded (class histogram) and is not a verdict, except for two Pauli words",
                                    "DAG histories: circuits of 4-6 table gates on <= 3 wires; the DAG is read as a record of "
                                    "is_commuting answers (unordered = True, direct edge = False); pairs ordered only transitively "
                                    "carry no answer and are skipped"])


def S_arity(m):
    return len(m["wa"])
