"""C54 Boson-to-qubit mappings represent truncated boson operators.  (partial: numeric comparison of float coefficients)

(M) spec/alg/MultiQuad.tla: exact arithmetic in Q(sqrt2, sqrt3, sqrt5, sqrt7), so that truncated ladder matrices
    (b|n> = sqrt(n)|n-1>) are exact.  spec/sys/BoseMap.tla: the operator of a bosonic word / sentence on the truncated Fock
    space, defined twice (dense product of ladder matrices in word order; column-wise action) and the state-to-qubit
    encodings of the binary (index bits, least significant first), unary (one-hot) and Christiansen (one qubit, d = 2)
    mappings as index tables.  spec/gen/BoseMapGen.tla model-checks the laws of the reference (field laws, sqrt(n)^2 = n,
    truncated commutator, dense = column-wise, adjoint = transpose, encodings injective) and emits, for EVERY word of
    length <= 3 over 1-2 modes and every truncation of the tier plus seeded random sentences (1-3 modes, rational
    coefficients), the exact matrix and the encoding tables.
(C) REPLAY: the driver calls the real qp.binary_mapping / unary_mapping / christiansen_mapping (PauliSentence, operator and
    wire_map forms), applies the returned sentence (float coefficients x exact Pauli words, own bit-mask arithmetic) to every
    encoded basis state and compares with TLC's exact column converted to float (1e-8): the image must map an encoded state
    to the encoding of the truncated-ladder result (no amplitude outside).  The same for BoseWord.adjoint() / the adjoint
    sentence against the transposed matrix.  Nothing is demanded on non-encoded states.
    TRACE: the discrete structure of every image (Pauli words, wires, coefficient sign classes) is validated by
    spec/trace/Trace_BoseMap.tla: every term sits on the blocks of the word's modes; sums map to sums and adjoints to
    adjoints term-wise."""
import itertools
import json
import math
import random
from fractions import Fraction

import numpy as np

import pennylane as qp
from pennylane.bose import BoseSentence, BoseWord

from .. import lib
from ..lib import CheckResult, MachineryError, Violation

TOL = 1e-8
MAPS = {"binary": lambda o, d, **kw: qp.binary_mapping(o, n_states=d, **kw),
        "unary": lambda o, d, **kw: qp.unary_mapping(o, n_states=d, **kw),
        "christiansen": lambda o, d, **kw: qp.christiansen_mapping(o, **kw)}
PRIMES = (2, 3, 5, 7)
COEFFS = [Fraction(1), Fraction(-1), Fraction(1, 2), Fraction(-3, 2), Fraction(2), Fraction(2, 3), Fraction(-1, 4), Fraction(3)]


def mq_float(terms):
    """sum (n/d) sqrt(prod of the primes in mask m)"""
    v = 0.0
    for t in terms:
        p = 1
        for b, q in enumerate(PRIMES):
            if t["m"] >> b & 1:
                p *= q
        v += t["n"] / t["d"] * math.sqrt(p)
    return v


def bose_word(w):
    """letters [[mode 1-based, t]] -> BoseWord"""
    return BoseWord({(i, j - 1): ("+" if t else "-") for i, (j, t) in enumerate(w)})


def word_letters(bw):
    return [[k[1] + 1, 1 if v == "+" else 0] for k, v in sorted(bw.items())]


def bose_op(ts, rng=None):
    """terms -> (BoseWord | BoseSentence, how it was built)"""
    if len(ts) == 1 and ts[0]["c"] == [1, 1]:
        w = ts[0]["w"]
        if rng is not None and len(w) >= 2 and rng.random() < 0.3:          # built as a product of two words
            k = rng.randint(1, len(w) - 1)
            return bose_word(w[:k]) * bose_word(w[k:]), "word-product"
        return bose_word(w), "word"
    return BoseSentence({bose_word(t["w"]): t["c"][0] / t["c"][1] for t in ts}), "sentence"


def sentence_arrays(ps, unmap=None):
    """PauliSentence -> (xmask, zmask, coefficient * i^(#Y)) arrays; raises KeyError on a non-integer wire"""
    xs, zs, cs = [], [], []
    for pw, c in ps.items():
        x = z = 0
        ny = 0
        for w, l in pw.items():
            w = unmap[w] if unmap is not None else w
            if not isinstance(w, (int, np.integer)) or w < 0 or w > 60:
                raise KeyError(w)
            if l in ("X", "Y"):
                x |= 1 << int(w)
            if l in ("Z", "Y"):
                z |= 1 << int(w)
            ny += l == "Y"
        xs.append(x)
        zs.append(z)
        cs.append(complex(c) * (1j) ** ny)
    return np.array(xs, dtype=np.int64), np.array(zs, dtype=np.int64), np.array(cs, dtype=complex)


def popcount_parity(a):
    a = a.copy()
    for s in (32, 16, 8, 4, 2, 1):
        a ^= a >> s
    return a & 1


def act(ps_arrays, states):
    """columns: for every basis state (bit mask) the dict {target mask: amplitude} of sentence|state>"""
    xs, zs, cs = ps_arrays
    out = []
    if len(xs) == 0:
        return [{} for _ in states]
    S = np.array(states, dtype=np.int64)
    tg = S[None, :] ^ xs[:, None]
    amp = cs[:, None] * (1 - 2 * popcount_parity(S[None, :] & zs[:, None]))
    for j in range(len(states)):
        u, inv = np.unique(tg[:, j], return_inverse=True)
        re = np.bincount(inv, weights=amp[:, j].real, minlength=len(u))
        im = np.bincount(inv, weights=amp[:, j].imag, minlength=len(u))
        out.append({int(k): complex(a, b) for k, a, b in zip(u, re, im) if abs(a) > 1e-13 or abs(b) > 1e-13})
    return out


def compare(cols_obs, cols_exp):
    """-> None | (clause, detail)"""
    worst = 0.0
    for j, (o, e) in enumerate(zip(cols_obs, cols_exp)):
        for k in set(o) | set(e):
            dv = abs(o.get(k, 0) - e.get(k, 0))
            worst = max(worst, dv)
            if dv > TOL:
                clause = "leaves-encoded-subspace" if k not in e and k not in ENC_SET[0] else "matrix-entry"
                return clause, f"column {j}: amplitude on basis state {bin(k)} is {o.get(k, 0)}, expected {e.get(k, 0)}", worst
    return None, None, worst


ENC_SET = [set()]


def sgn(x):
    return 0 if abs(x) < 1e-12 else (1 if x > 0 else -1)


RESIDUE = [0]


def trace_terms(ps, unmap=None):
    """discrete view of an image; a term whose coefficient is float round-off (|c| < 1e-12, e.g. 1.9e-16 * Z(1) left by
    prune(tol=1e-16)) is treated as absent and counted"""
    out = []
    for pw, c in ps.items():
        q = sorted(([unmap[w] if unmap is not None else w, "XYZ".index(l) + 1] for w, l in pw.items()))
        c = complex(c)
        if abs(c) < 1e-12:
            RESIDUE[0] += 1
            continue
        out.append({"q": [[int(a), b] for a, b in q], "re": sgn(c.real), "im": sgn(c.imag)})
    return out


def key_terms(ts):
    return json.dumps([[t["c"], t["w"]] for t in ts])


def random_sentences(rng, n, specs):
    """seeded sentences: 2-3 distinct words with rational coefficients"""
    out = []
    for _ in range(n):
        nm, d, L = rng.choice(specs)
        words = set()
        for _ in range(rng.randint(2, 3)):
            words.add(tuple((rng.randint(1, nm), rng.randint(0, 1)) for _ in range(rng.randint(0, L))))
        if rng.random() < 0.4:                     # b^dagger b and b b^dagger of one mode: terms that partly cancel
            j = rng.randint(1, nm)
            words |= {((j, 1), (j, 0)), ((j, 0), (j, 1))}
        ts = []
        for w in sorted(words):
            c = rng.choice(COEFFS)
            ts.append({"c": [c.numerator, c.denominator], "w": [list(l) for l in w]})
        out.append({"d": d, "nm": nm, "ts": ts})
    return out


def run(tier, seed):
    rng = random.Random(seed)
    quick = tier == "quick"
    ds1 = list(range(2, 9))
    ds2 = [2, 3, 4] if quick else [2, 3, 4, 5, 6, 7, 8]
    maxlen = 3
    sent_specs = [(1, d, 3) for d in range(2, 9)] + [(2, d, 2) for d in ds2] + [(3, 2, 2), (3, 3, 2)]
    extras = random_sentences(rng, 60 if quick else 400, sent_specs)
    seen, ex = set(), []
    for e in extras:
        k = (e["d"], e["nm"], key_terms(e["ts"]))
        if k not in seen and not (len(e["ts"]) == 1 and e["ts"][0]["c"] == [1, 1]):
            seen.add(k)
            ex.append(e)
    enc_cases = set()
    for nm, dset in ((1, ds1), (2, ds2), (3, [2, 3])):
        for d in dset:
            enc_cases |= {("binary", d, nm), ("unary", d, nm)}
            if d == 2:
                enc_cases.add(("christiansen", d, nm))
    wd = lib.workdir("C54", "gen")
    (wd / "extra.json").write_text(json.dumps(ex))
    tla_set = lambda xs: "{" + ", ".join(map(str, xs)) + "}"
    g = lib.run_tlc_mc("BoseMapGen",
                       {"Ds": f"<<{tla_set(ds1)}, {tla_set(ds2)}>>", "Modes": "{1, 2}",
                        "EncCases": "{" + ", ".join(f'<<"{m}", {d}, {nm}>>' for m, d, nm in sorted(enc_cases)) + "}"},
                       wd, constants={"MaxLen": maxlen, "DenseMax": 16 if quick else 25, "DMAX": 8, "UseExtra": "TRUE"},
                       invariants=["Lawful"], env={"EXTRA_FILE": str(wd / "extra.json")}, timeout=3000)
    if g.invariant_violated:
        raise MachineryError("the REFERENCE violates its own laws (specification error)\n" + g.out[-2500:])
    lib.require_ok(g, "BoseMapGen")
    enc = {(j["map"], j["d"], j["nm"]): j for j in g.json_lines if j["kind"] == "enc"}
    mats = [j for j in g.json_lines if j["kind"] == "mat"]
    if len(enc) != len(enc_cases) or len(mats) < 300 or not any(j["kind"] == "law" for j in g.json_lines):
        raise MachineryError(f"generator emitted {len(enc)} encodings / {len(mats)} matrices")

    viol, nkey = [], {}
    stats = {"images": 0, "columns": 0, "nonzero_entries": 0, "adjoint_images": 0, "zero_images": 0, "max_abs_err": 0.0,
             "by_mapping": {}, "by_modes": {}, "by_form": {}, "sqrt_entries": 0, "sentences": 0, "max_terms": 0}
    nontriv, samples, traces, tmeta = set(), [], [], []
    neg_rep = [0, 0]
    RESIDUE[0] = 0

    def report(clause, detail, rep):
        key = f"C54:{rep['map']}:{clause}"
        nkey[key] = nkey.get(key, 0) + 1
        if nkey[key] <= 3:
            viol.append(Violation(key=key, detail=detail + f" | mapping {rep['map']} n_states {rep['d']} terms {rep['ts']}", replay=rep))

    for m in sorted(mats, key=lambda j: (j["nm"], j["d"], key_terms(j["ts"]))):
        d, nm, ts = m["d"], m["nm"], [{"c": list(t["c"]), "w": [list(l) for l in t["w"]]} for t in m["ts"]]
        adj_ts = [{"c": list(t["c"]), "w": [list(l) for l in t["w"]]} for t in m["adj"]]
        cols = [{e["r"] - 1: mq_float(e["v"]) for e in col} for col in m["cols"]]
        irrational = sum(1 for col in m["cols"] for e in col for t in e["v"] if t["m"] != 0)
        for mp in ("binary", "unary", "christiansen"):
            if (mp, d, nm) not in enc:
                continue
            E = enc[(mp, d, nm)]
            masks = [sum(1 << q for q in ones) for ones in E["ones"]]
            ENC_SET[0] = set(masks)
            exp = [{masks[r]: v for r, v in col.items()} for col in cols]
            exp_adj = [{masks[r]: cols[r][c] for r in range(len(cols)) if c in cols[r]} for c in range(len(cols))]
            rep = {"map": mp, "d": d, "nm": nm, "ts": ts}
            form = rng.choice(["ps", "ps", "op", "wire_map"])
            unmap = None
            try:
                op, how = bose_op(ts, rng)
                if form == "ps":
                    ps = MAPS[mp](op, d, ps=True)
                elif form == "op":
                    ps = qp.pauli.pauli_sentence(MAPS[mp](op, d))
                else:
                    labels = [f"q{i}" for i in range(E["nq"])]
                    rng.shuffle(labels)
                    unmap = {l: i for i, l in enumerate(labels)}
                    ps = MAPS[mp](op, d, ps=True, wire_map={i: l for i, l in enumerate(labels)})
                aop = op.adjoint()
                aps = MAPS[mp](aop, d, ps=True)
                arrs, aarrs = sentence_arrays(ps, unmap), sentence_arrays(aps)
            except KeyError as e:
                report("term-on-unknown-wire", f"image has a term on wire {e}", rep)
                continue
            except Exception as e:          # pylint: disable=broad-except
                report(f"raises-{type(e).__name__}", f"{type(e).__name__}: {e}", rep)
                continue
            stats["images"] += 1
            stats["by_mapping"][mp] = stats["by_mapping"].get(mp, 0) + 1
            stats["by_modes"][nm] = stats["by_modes"].get(nm, 0) + 1
            stats["by_form"][form + "/" + how] = stats["by_form"].get(form + "/" + how, 0) + 1
            stats["columns"] += len(masks)
            stats["max_terms"] = max(stats["max_terms"], len(ps))
            nz = sum(len(c) for c in cols)
            stats["nonzero_entries"] += nz
            stats["zero_images"] += nz == 0
            stats["sqrt_entries"] += irrational
            stats["sentences"] += how == "sentence"
            clause, detail, worst = compare(act(arrs, masks), exp)
            stats["max_abs_err"] = max(stats["max_abs_err"], worst)
            if clause:
                report(clause, detail, dict(rep, form=form))
            if isinstance(op, BoseWord) and word_letters(aop) != adj_ts[0]["w"]:
                report("adjoint-word", f"BoseWord.adjoint() gives {word_letters(aop)}, expected {adj_ts[0]['w']}", rep)
            else:
                clause, detail, worst = compare(act(aarrs, masks), exp_adj)
                stats["adjoint_images"] += 1
                stats["max_abs_err"] = max(stats["max_abs_err"], worst)
                if clause:
                    report("adjoint-" + clause, detail, rep)
            if nz and (irrational or len(ts) > 1):
                nontriv.add((mp, d, nm, key_terms(ts)))
                if len(samples) < 4 and irrational and nz <= 4 and (not samples or samples[-1]["mapping"] != mp):
                    samples.append({"mapping": mp, "n_states": d, "modes": nm, "terms": ts, "image_terms": len(ps),
                                    "expected_entries": [{"col": E["ones"][c], "row": E["ones"][r], "exact": e["v"], "float": cols[c][r]}
                                                         for c, col in enumerate(m["cols"]) for e in col for r in [e["r"] - 1]][:3]})
            # negative control of the comparator: one expected entry perturbed / dropped must be noticed
            if nz and neg_rep[0] < 40 and stats["images"] % 7 == 0:
                bad = [dict(c) for c in exp]
                c0 = next(i for i, c in enumerate(bad) if c)
                k0 = next(iter(bad[c0]))
                if neg_rep[0] % 2:
                    bad[c0][k0] *= 1 + 1e-6
                else:
                    del bad[c0][k0]
                neg_rep[0] += 1
                neg_rep[1] += compare(act(arrs, masks), bad)[0] is not None
            # ---- discrete structure -> trace records (bounded size)
            if len(ps) <= 300 and form == "ps":
                base = {"map": mp, "d": d, "nm": nm, "exc": ""}
                if isinstance(op, BoseWord):
                    w = ts[0]["w"]
                    traces.append(dict(base, op="word", ws=[w], sg=[1], imgs=[trace_terms(ps)], out=trace_terms(ps), adjw=[]))
                    tmeta.append(rep)
                    traces.append(dict(base, op="adj", ws=[w], sg=[1], imgs=[trace_terms(ps)], out=trace_terms(aps), adjw=word_letters(aop)))
                    tmeta.append(rep)
                else:
                    try:
                        imgs = [trace_terms(MAPS[mp](bose_word(t["w"]), d, ps=True)) for t in ts]
                    except Exception:       # pylint: disable=broad-except
                        continue
                    if sum(len(i) for i in imgs) <= 600:
                        traces.append(dict(base, op="sum", ws=[t["w"] for t in ts], sg=[sgn(t["c"][0]) for t in ts], imgs=imgs,
                                           out=trace_terms(ps), adjw=[]))
                        tmeta.append(rep)
    if neg_rep[0] == 0 or neg_rep[0] != neg_rep[1]:
        raise MachineryError(f"replay negative controls rejected {neg_rep[1]}/{neg_rep[0]}")

    # ---------------------------------------------------------------- trace validation (+ hand-written negative controls)
    X, Y, Z = 1, 2, 3
    t = lambda q, re, im: {"q": q, "re": re, "im": im}
    bdag = [t([[0, X]], 1, 0), t([[0, Y]], 0, -1)]                      # (X - iY)/2 on wire 0
    b = [t([[0, X]], 1, 0), t([[0, Y]], 0, 1)]
    nb = {"map": "christiansen", "d": 2, "nm": 2, "exc": ""}
    negs = [
        ("ok", dict(nb, op="word", ws=[[[1, 1]]], sg=[1], imgs=[bdag], out=bdag, adjw=[])),
        ("term-on-wrong-wire", dict(nb, op="word", ws=[[[1, 1]]], sg=[1], imgs=[[t([[1, X]], 1, 0), t([[1, Y]], 0, -1)]],
                                    out=[t([[1, X]], 1, 0), t([[1, Y]], 0, -1)], adjw=[])),
        ("ok", dict(nb, op="adj", ws=[[[1, 1]]], sg=[1], imgs=[bdag], out=b, adjw=[[1, 0]])),
        ("adjoint-term-not-conjugated", dict(nb, op="adj", ws=[[[1, 1]]], sg=[1], imgs=[bdag], out=bdag, adjw=[[1, 0]])),
        ("adjoint-word", dict(nb, op="adj", ws=[[[1, 1], [2, 0]]], sg=[1], imgs=[bdag], out=b, adjw=[[1, 0], [2, 1]])),
        ("adjoint-terms-differ", dict(nb, op="adj", ws=[[[1, 1]]], sg=[1], imgs=[bdag], out=b[:1], adjw=[[1, 0]])),
        ("ok", dict(nb, op="sum", ws=[[[1, 1]], [[2, 0]]], sg=[1, -1], imgs=[bdag, [t([[1, X]], 1, 0), t([[1, Y]], 0, 1)]],
                    out=bdag + [t([[1, X]], -1, 0), t([[1, Y]], 0, -1)], adjw=[])),
        ("sum-drops-term", dict(nb, op="sum", ws=[[[1, 1]], [[2, 0]]], sg=[1, -1], imgs=[bdag, [t([[1, X]], 1, 0), t([[1, Y]], 0, 1)]],
                                out=bdag + [t([[1, X]], -1, 0)], adjw=[])),
        ("sum-term-coefficient-class", dict(nb, op="sum", ws=[[[1, 1]], [[2, 0]]], sg=[1, -1],
                                            imgs=[bdag, [t([[1, X]], 1, 0), t([[1, Y]], 0, 1)]],
                                            out=bdag + [t([[1, X]], 1, 0), t([[1, Y]], 0, -1)], adjw=[])),
        ("sum-has-foreign-term", dict(nb, op="sum", ws=[[[1, 1]], [[2, 0]]], sg=[1, 0], imgs=[bdag, [t([[1, X]], 1, 0), t([[1, Y]], 0, 1)]],
                                      out=bdag + [t([[1, X]], 1, 0)], adjw=[])),
        ("zero-coefficient-term", dict(nb, op="word", ws=[[[1, 1]]], sg=[1], imgs=[bdag + [t([[0, Z]], 0, 0)]], out=bdag, adjw=[])),
        ("malformed-term", dict(nb, op="word", ws=[[[1, 1]]], sg=[1], imgs=[bdag + bdag[:1]], out=bdag, adjw=[])),
        ("term-on-wrong-wire", dict(nb, map="binary", d=3, op="word", ws=[[[2, 1]]], sg=[1], imgs=[[t([[1, X], [2, Z]], 1, 0)]],
                                    out=[t([[2, X]], 1, 0)], adjw=[])),
    ]
    step = max(1, len(traces) // (1500 if quick else 12000))
    sel = list(range(0, len(traces), step))
    allt = [traces[i] for i in sel] + [r for _, r in negs]
    wd2 = lib.workdir("C54", "trace")
    (wd2 / "traces.json").write_text(json.dumps(allt))
    r = lib.run_tlc("Trace_BoseMap", lib.cfg(constants={"NTRACES": len(allt)}), wd2, env={"TRACE_FILE": str(wd2 / "traces.json")}, timeout=3000)
    lib.require_ok(r, "Trace_BoseMap")
    verd = {x[1]: x[2] for x in r.tuples if x[0] == "V"}
    if len(verd) != len(allt):
        raise MachineryError(f"trace verdicts not total: {len(verd)} of {len(allt)}")
    nneg = 0
    for i, (want, _) in enumerate(negs):
        got = verd[len(sel) + i + 1]
        if got != want:
            raise MachineryError(f"trace control {i} ({want}) got verdict {got}")
        nneg += want != "ok"
    ops = {}
    for n, i in enumerate(sel, 1):
        ops[traces[i]["op"]] = ops.get(traces[i]["op"], 0) + 1
        if verd[n] != "ok":
            rep = dict(tmeta[i], record=traces[i])
            report(f"trace:{traces[i]['op']}:{verd[n]}", f"the recorded image structure is rejected by Trace_BoseMap: {verd[n]}", rep)
    if not viol:
        if min(stats["by_mapping"].get(k, 0) for k in MAPS) < 20 or stats["sqrt_entries"] < 200 or min(ops.get(k, 0) for k in ("word", "sum", "adj")) < 10 \
                or stats["by_modes"].get(3, 0) < 3:
            raise MachineryError(f"vacuous: {stats} {ops}")
    cov = {"states": g.distinct + r.distinct, "transitions": g.generated + r.generated,
           "traces_validated_against_impl": len(sel), "evaluations": stats["images"] + stats["adjoint_images"],
           "distinct_nontrivial": len(nontriv),
           "rule": "distinct (mapping, n_states, modes, word/sentence) whose exact matrix is non-zero and has an irrational entry or several terms",
           "samples": samples, "exhaustive": True,
           "model": {"modules": "MultiQuad + BoseMap + BoseMapGen", "laws": ["MQLaws", "LadderLaws", "dense-product = column-wise", "adjoint = transpose",
                                                                                "encoding injective"], "cases": len(mats), "encodings": len(enc)},
           "bounds": {"word_length": maxlen, "truncations_1_mode": ds1, "truncations_2_modes": ds2, "sentences": len(ex), "modes_in_sentences": 3},
           "trace_records_by_clause": ops, "violating_cases_by_key": nkey,
           "roundoff_terms_ignored_in_traces": RESIDUE[0], "negative_controls": neg_rep[0] + nneg, "negative_controls_rejected": neg_rep[1] + nneg, **stats}
    return CheckResult(coverage=cov, violations=viol, assumptions=[
        "partial: coefficients are floats - the exact expected matrix comes from TLC, the comparison on the encoded subspace is numeric (1e-8); "
        "TLC decides the discrete structure (words, wires, coefficient sign classes) only",
        "mode j is stored in the j-th contiguous block of wires (binary: ceil(log2 d) qubits, least significant bit first; unary: d qubits, one-hot), "
        "as in the documented examples; nothing is demanded on basis states outside the encoded subspace",
        "words of length <= 3 exhaustively over 1-2 modes; sentences are seeded samples with rational coefficients; real coefficients only"])


def replay(path, tier, seed):
    rep = json.loads(open(path).read())["replay"]
    wd = lib.workdir("C54", "replay")
    (wd / "extra.json").write_text(json.dumps([{"d": rep["d"], "nm": rep["nm"], "ts": rep["ts"]}]))
    g = lib.run_tlc_mc("BoseMapGen", {"Ds": "<<{}, {}>>", "Modes": "{}", "EncCases": f'{{<<"{rep["map"]}", {rep["d"]}, {rep["nm"]}>>}}'}, wd,
                       constants={"MaxLen": 0, "DenseMax": 16, "DMAX": 2, "UseExtra": "TRUE"}, invariants=["Lawful"],
                       env={"EXTRA_FILE": str(wd / "extra.json")})
    lib.require_ok(g, "BoseMapGen")
    E = next(j for j in g.json_lines if j["kind"] == "enc")
    m = next(j for j in g.json_lines if j["kind"] == "mat")
    masks = [sum(1 << q for q in ones) for ones in E["ones"]]
    ENC_SET[0] = set(masks)
    exp = [{masks[e["r"] - 1]: mq_float(e["v"]) for e in col} for col in m["cols"]]
    viol = []
    try:
        ps = MAPS[rep["map"]](bose_op(rep["ts"])[0], rep["d"], ps=True)
        clause, detail, _ = compare(act(sentence_arrays(ps), masks), exp)
    except Exception as e:                  # pylint: disable=broad-except
        clause, detail = f"raises-{type(e).__name__}", str(e)
    if clause:
        viol.append(Violation(key=f"C54:{rep['map']}:{clause}", detail=detail, replay=rep))
    return CheckResult(coverage={"states": g.distinct, "transitions": g.generated, "traces_validated_against_impl": 0, "evaluations": 1,
                                 "distinct_nontrivial": 0, "rule": "replay of one stored case", "samples": [rep], "exhaustive": False}, violations=viol)
