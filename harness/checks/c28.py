"""C28 Noisy evolution stays physical and matches the Kraus definition.

(M) spec/ir/Channels.tla is the reference table of the built-in channels transcribed from the docstrings (documented Kraus
    operators; documented Choi matrix for ThermalRelaxationError with T2 > T1) over exact numbers: ring matrices over an
    integer denominator, rational parameters.  spec/gen/ChannelsGen.tla enumerates a parameter grid (endpoints included;
    all points where the documented roots are rational, and further rationals for operators of the form sqrt(c) P) and TLC
    decides on the reference: Complete (sum K^dag K = I) and InDomain for every instance.
(C) REPLAY 1: for every instance op.kraus_matrices() is checked for completeness, its superoperator sum K (x) conj(K) is
    compared with the exact one TLC emitted, and (where the reference is a literal Kraus list) the matrices themselves.
    REPLAY 2: noisy circuits (one systematic circuit per grid instance + seeded random circuits with random wire labels,
    device wire orders and a broadcast gate parameter) are evaluated exactly by spec/trace/ChannelEval.tla (the independent
    Kraus-sum simulation; invariant Physical: Hermitian, unit trace, exact) and executed on default.mixed; qp.state() and
    qp.density_matrix(subset) are compared with the exact density matrix; Hermiticity, unit trace and positive
    semidefiniteness of default.mixed's output are checked numerically (bridged)."""
import json
import math
import random

import numpy as np

import pennylane as qp

from .. import devsim, lib
from ..codec import decode_gate, rec
from ..lib import CheckResult, Violation, ring_matrix_to_numpy

TOL = 1e-8
M_TAB = 3          # ring level of the channel table (entries are Gaussian rationals)
M_EV = 4           # ring level of the circuits (gate angles are multiples of pi/4)
GENUINE_ROOT = ("AmplitudeDamping", "PhaseDamping", "GeneralizedAmplitudeDamping")


def fr(q):
    return q[0] / q[1]


def qm(x, M):
    return ring_matrix_to_numpy({"k": x["k"], "e": x["e"]}, M) / x["d"]


def pstr(c):
    s = ",".join(f"{a}/{b}" for a, b in c["q"])
    return s + ("|" + "".join("IXYZ"[i] for i in c["x"]) if c["x"] else "")


def build_channel(c, labels):
    """channel instance record -> PennyLane channel on the labels of its wires (register positions are 1-based)"""
    ch, q, w = c["ch"], c["q"], [labels[i - 1] for i in c["w"]]
    if ch == "PauliError":
        return qp.PauliError("".join("IXYZ"[i] for i in c["x"]), fr(q[0]), wires=w)
    if ch == "ThermalRelaxationError":
        pe, e1, e2 = map(fr, q)
        if e1 == 1.0:                       # zero gate time
            return qp.ThermalRelaxationError(pe, 1.0, 1.0, 0.0, wires=w)
        return qp.ThermalRelaxationError(pe, -1.0 / math.log(e1), -1.0 / math.log(e2), 1.0, wires=w)      # tg = 1
    return getattr(qp, ch)(*[fr(x) for x in q], wires=w)


def is_eps_endpoint(c):
    """gamma = 1 on a channel whose documented Kraus operator has the entry sqrt(1 - gamma)"""
    return c["ch"] in GENUINE_ROOT and c["q"][0] == [1, 1]


def check_table(insts, viol, stats):
    for j in insts:
        c = j["c"]
        key = f"{c['ch']}:{pstr(c)}"
        try:
            op = build_channel(c, list(range(len(c["w"]))))
            K = [np.asarray(k, dtype=complex) for k in op.kraus_matrices()]
        except Exception as e:  # pylint: disable=broad-except
            viol.append(Violation(key=f"exception:{key}", detail=f"{type(e).__name__}: {e} for {c}", replay={"instance": c}))
            continue
        stats["instances"] += 1
        dim = 2 ** len(c["w"])
        comp = sum(k.conj().T @ k for k in K)
        if any(k.shape != (dim, dim) for k in K) or not np.allclose(comp, np.eye(dim), atol=TOL, rtol=0):
            viol.append(Violation(key=f"incomplete:{key}", detail=f"sum K^dag K differs from I by {np.abs(comp - np.eye(dim)).max():.3g} for {c}",
                                  replay={"instance": c}))
        sup = sum(np.kron(k, k.conj()) for k in K)
        exp = qm(j["sup"], M_TAB)
        err = float(np.abs(sup - exp).max()) if sup.shape == exp.shape else -1.0
        ok = 0 <= err <= TOL
        if not ok:
            k2 = f"sqrt_eps_endpoint:{c['ch']}" if is_eps_endpoint(c) and 0 <= err <= 3e-7 else f"channel_map:{key}"
            if k2.startswith("sqrt_eps_endpoint"):
                # the implementation deliberately adds 1e-14 under the square roots (gradient stability), i.e. sqrt(1e-14) = 1e-7
                # at gamma = 1: a tolerance matter, not a departure from the documented channel -> counted, not a violation
                stats.setdefault("stability_eps_endpoint_cases", 0)
                stats["stability_eps_endpoint_cases"] += 1
                continue
            viol.append(Violation(key=k2, detail=f"the channel of op.kraus_matrices() (sum K (x) conj K) differs from the documented channel by {err:.3g} for "
                                  f"{c['ch']}({pstr(c)})", replay={"instance": c, "kraus": [np.round(k, 9).tolist().__repr__() for k in K]}))
        else:
            stats["nontrivial"].add(key)
        if j["kraus"]:
            stats["kraus_form"] += 1
            A = [qm(a, M_TAB) for a in j["a"]]
            # literal comparison (tolerance covers the documented-vs-coded sqrt(x + 1e-14)); zero operators may be dropped/padded
            same = len(A) == len(K) and all(a.shape == k.shape and np.allclose(a, k, atol=3e-7, rtol=0) for a, k in zip(A, K))
            if same:
                stats["kraus_literal_match"] += 1
            elif ok:
                stats["kraus_drift"] += 1          # a different Kraus representation of the same channel: mechanism only
        stats["evaluations"] += 2


# ------------------------------------------------------------------------------------------ circuits
def chan_instr(c, wires):
    return {"g": "CHANNEL", "ch": c["ch"], "w": list(wires), "q": c["q"], "x": c["x"]}


def den_weight(j):
    return max(a["d"] * b["d"] for a, b in zip(j["a"], j["b"]))


def systematic_cases(insts, rng, tier):
    cases = []
    for j in insts:
        c = j["c"]
        k = len(c["w"])
        n = k + 1 if k <= 2 else (3 if tier == "quick" else 4)
        ops = [rec("Hadamard", [1])] + ([rec("CNOT", [1, 2])] if n >= 2 else []) + [rec("T", [1]), rec("RY", [n], [rng.randrange(1, 16)])]
        if n >= 3:
            ops.append(rec("CNOT", [2, 3]))
        if n >= 4:
            ops.append(rec("CRX", [3, 4], [rng.randrange(1, 16)]))
        w = rng.sample(range(1, n + 1), k)
        ops.append(chan_instr(c, w))
        ops.append(rec("RX", [w[0]], [rng.randrange(1, 16)]))
        cases.append({"n": n, "ops": ops, "kind": "systematic"})
    return cases


def random_cases(insts, rng, count, nmax):
    cases = []
    groups = {}
    for j in insts:
        groups.setdefault((j["c"]["ch"], len(j["c"]["w"])), []).append(j)
    gkeys = sorted(groups)
    kinds = ["g1", "r1", "g2", "r2", "g3", "adj", "ctrl", "p3", "prot", "mrz"]
    while len(cases) < count:
        n = rng.choice([1, 2, 2, 3, 3, 3] + ([4] if nmax >= 4 else []))
        L = rng.randint(3, 8)
        ops, budget, nch = [], 2 * 10 ** 5, 0
        for _ in range(L):
            if rng.random() < 0.4 and nch < 3:
                j = rng.choice(groups[rng.choice(gkeys)])          # channel class first, then a grid point
                k = len(j["c"]["w"])
                if k > n or den_weight(j) > budget:
                    continue
                budget //= den_weight(j)
                nch += 1
                ops.append(chan_instr(j["c"], rng.sample(range(1, n + 1), k)))
            else:
                ops.append(devsim.random_gate(rng, n, M_EV, kinds))
        if nch == 0:
            continue
        batch = None
        if rng.random() < 0.3:
            cand = [i for i, g in enumerate(ops) if g["g"] != "CHANNEL" and len(g["p"]) == 1 and not g["mods"] and g["g"] != "PauliRot"]
            if cand:
                batch = (rng.choice(cand), [rng.randrange(16) for _ in range(3)])
        cases.append({"n": n, "ops": ops, "kind": "random", "batch": batch})
    return cases


def to_device_order(rho, n, order):
    """rho in register order (wire 1 most significant) -> the wire order `order` (list of register positions, 1-based)"""
    t = rho.reshape([2] * (2 * n))
    ax = [p - 1 for p in order]
    return t.transpose(ax + [a + n for a in ax]).reshape(2 ** n, 2 ** n)


def reduced(rho, n, keep):
    """partial trace onto the register positions `keep` (1-based, in the requested order)"""
    t = rho.reshape([2] * (2 * n))
    rest = [p for p in range(1, n + 1) if p not in keep]
    ax = [p - 1 for p in list(keep) + rest]
    t = t.transpose(ax + [a + n for a in ax]).reshape(2 ** len(keep), 2 ** len(rest), 2 ** len(keep), 2 ** len(rest))
    return np.einsum("arbr->ab", t)


def evaluate(cases, name):
    wd = lib.workdir("C28", name)
    (wd / "cases.json").write_text(json.dumps([{"n": c["n"], "ops": c["ops"]} for c in cases]))
    r = lib.run_tlc("ChannelEval", lib.cfg(constants={"M": M_EV, "NCASES": len(cases)}, invariants=["Physical"]), wd,
                    env={"TRACE_FILE": str(wd / "cases.json")}, timeout=3000)
    if r.invariant_violated:
        raise lib.MachineryError("the reference evolution is not physical (specification error): " + r.out[-1500:])
    lib.require_ok(r, "ChannelEval " + name)
    out = [None] * len(cases)
    for j in r.json_lines:
        if j["big"]:
            raise lib.MachineryError("coefficient growth in ChannelEval (machinery bound)")
        out[j["tid"] - 1] = j
    if any(o is None for o in out):
        raise lib.MachineryError("ChannelEval did not emit every case")
    return out, r


def run(tier, seed):
    rng = random.Random(2800 + seed)
    viol = []
    stats = {"instances": 0, "kraus_form": 0, "kraus_literal_match": 0, "kraus_drift": 0, "evaluations": 0, "nontrivial": set()}
    rg = lib.run_tlc("ChannelsGen", lib.cfg(constants={"M": M_TAB, "Deep": "TRUE" if tier == "thorough" else "FALSE"},
                                            invariants=["InDomain", "Complete"]), lib.workdir("C28", "gen"), timeout=3000)
    if rg.invariant_violated:
        raise lib.MachineryError(f"the reference table violates {rg.invariant_violated} (specification error): " + rg.out[-1500:])
    lib.require_ok(rg, "ChannelsGen")
    insts = sorted(rg.json_lines, key=lambda j: json.dumps(j["c"], sort_keys=True))
    if len(insts) < 150:
        raise lib.MachineryError("generator produced too few channel instances")
    check_table(insts, viol, stats)
    # ---------------------------------------------------------------- circuits
    cases = systematic_cases(insts, rng, tier) + random_cases(insts, rng, 160 if tier == "quick" else 1500, 3 if tier == "quick" else 4)
    flat, owner = [], []
    for ci, c in enumerate(cases):
        if c.get("batch"):
            for v in range(3):
                ops = [dict(g) for g in c["ops"]]
                ops[c["batch"][0]] = dict(ops[c["batch"][0]], p=[c["batch"][1][v]])
                flat.append({"n": c["n"], "ops": ops})
                owner.append((ci, v))
        else:
            flat.append({"n": c["n"], "ops": c["ops"]})
            owner.append((ci, None))
    # negative control for TLC: a parameter outside the documented domain must be rejected (valid = FALSE)
    flat.append({"n": 1, "ops": [{"g": "CHANNEL", "ch": "BitFlip", "w": [1], "q": [[5, 4]], "x": []}]})
    flat.append({"n": 1, "ops": [{"g": "CHANNEL", "ch": "AmplitudeDamping", "w": [1], "q": [[1, 2]], "x": []}]})   # sqrt(1/2) is not in the domain of the table
    states, trans = rg.distinct, rg.generated
    res = []
    chunk = 600
    for off in range(0, len(flat), chunk):
        out, r = evaluate(flat[off:off + chunk], f"eval{off}")
        res += out
        states += r.distinct
        trans += r.generated
    neg = 0
    for o in res[-2:]:
        if o["valid"]:
            raise lib.MachineryError("negative control accepted: out-of-domain channel parameter evolved by the reference")
        neg += 1
    res = res[:-2]
    if not all(o["valid"] for o in res):
        raise lib.MachineryError("a generated case is outside the table's domain")
    exact = {}
    for (ci, v), o in zip(owner, res):
        exact.setdefault(ci, {})[v] = qm(o, M_EV)
    n_exec = n_cmp = 0
    eps_endpoint_rho = 0
    kernels, samples, phys_checked = {}, [], 0
    circ_ok = set()
    for ci, c in enumerate(cases):
        n = c["n"]
        labels = rng.choice([list(range(n)), ["a", "b", "c", "d"][:n], rng.sample(range(7), n)])
        order = list(range(1, n + 1))
        rng.shuffle(order)                                  # device wire order (register positions)
        ops = []
        for g in c["ops"]:
            if g["g"] == "CHANNEL":
                ops.append(build_channel(g, labels))
                kernels[g["ch"] + f"/{len(g['w'])}w"] = kernels.get(g["ch"] + f"/{len(g['w'])}w", 0) + 1
            else:
                ops.append(decode_gate(g, M_EV, labels))
        if c.get("batch"):
            k, angs = c["batch"]
            ops[k] = type(ops[k])(np.array([lib.angle_of(a, M_EV) for a in angs]), wires=ops[k].wires)
        keep = rng.sample(range(1, n + 1), rng.randint(1, n))
        mps = [qp.state(), qp.density_matrix(wires=[labels[p - 1] for p in keep])]
        tape = qp.tape.QuantumScript(ops, mps)
        dev = qp.device("default.mixed", wires=[labels[p - 1] for p in order])
        chans = sorted({g["ch"] for g in c["ops"] if g["g"] == "CHANNEL"})
        desc = {"n": n, "ops": [str(o) for o in ops], "device_wires": [labels[p - 1] for p in order], "kind": c["kind"]}
        try:
            out = qp.execute([tape], dev, diff_method=None)[0]
            n_exec += 1
        except Exception as e:  # pylint: disable=broad-except
            viol.append(Violation(key=f"exception:{type(e).__name__}:{'+'.join(chans)}", detail=f"{type(e).__name__}: {e} on {desc}", replay={"case": c, "desc": desc}))
            continue
        eps_case = [g["ch"] for g in c["ops"] if g["g"] == "CHANNEL" and is_eps_endpoint(g)]
        good = True
        for v in ([None] if not c.get("batch") else [0, 1, 2]):
            rho = exact[ci][v]
            got_full = np.asarray(out[0]) if v is None else np.asarray(out[0])[v]
            got_red = np.asarray(out[1]) if v is None else np.asarray(out[1])[v]
            for what, got, exp in (("state()", got_full, to_device_order(rho, n, order)), (f"density_matrix(wires={keep})", got_red, reduced(rho, n, keep))):
                n_cmp += 1
                err = float(np.abs(got - exp).max()) if got.shape == exp.shape else -1.0
                if not 0 <= err <= TOL:
                    good = False
                    key = (f"sqrt_eps_endpoint:{eps_case[0]}" if eps_case and 0 <= err <= 3e-7 else f"rho:{'+'.join(chans)}:n={n}:{what.split('(')[0]}")
                    if key.startswith("sqrt_eps_endpoint"):
                        eps_endpoint_rho += 1        # see above: 1e-7 regularisation at the endpoint, tolerance matter
                        continue
                    viol.append(Violation(key=key, detail=f"default.mixed {what} differs from the exact Kraus-sum evolution by {err:.3g} on {desc}",
                                          replay={"case": c, "desc": desc, "expected": np.round(exp, 10).tolist().__repr__(), "got": np.round(got, 10).tolist().__repr__()}))
            # physicality of the implementation's own output (numeric)
            phys_checked += 1
            herm = float(np.abs(got_full - got_full.conj().T).max())
            tr = abs(np.trace(got_full) - 1)
            mineig = float(np.linalg.eigvalsh((got_full + got_full.conj().T) / 2).min())
            if herm > TOL or tr > TOL or mineig < -TOL:
                good = False
                viol.append(Violation(key=f"unphysical:{'+'.join(chans)}:n={n}", detail=f"default.mixed output not physical: |rho-rho^dag|={herm:.3g}, |tr-1|={tr:.3g}, "
                                      f"min eigenvalue={mineig:.3g} on {desc}", replay={"case": c, "desc": desc}))
        if good:
            circ_ok.add(ci)
            if len(samples) < 4 and c["kind"] == "random" and len(chans) >= 2:
                samples.append({"n": n, "ops": desc["ops"], "device_wires": desc["device_wires"], "rho_diag": np.round(np.real(np.diag(exact[ci][None if not c.get('batch') else 0])), 6).tolist()})
    # comparator negative control
    e0 = exact[0][None]
    bad = e0.copy()
    bad[0, 0] += 1e-6
    if np.abs(bad - e0).max() <= TOL:
        raise lib.MachineryError("comparator negative control accepted")
    neg += 1
    if kernels.get("PauliError/3w", 0) == 0 or kernels.get("PauliError/2w", 0) == 0:
        raise lib.MachineryError("vacuity: multi-wire PauliError (tensordot / 2-wire einsum kernels) not exercised")
    cov = {"states": states, "transitions": trans, "traces_validated_against_impl": n_exec + stats["instances"],
           "evaluations": n_cmp + stats["evaluations"], "distinct_nontrivial": len(stats["nontrivial"]) + len(circ_ok),
           "rule": "channel instances of the grid whose superoperator matched the documented channel, plus distinct noisy circuits (>= 1 channel, "
                   "entangling preparation or random gates) whose default.mixed state and reduced density matrix matched the exact Kraus-sum evolution",
           "samples": samples, "exhaustive": True, "channel_instances": stats["instances"], "instances_in_literal_kraus_form": stats["kraus_form"],
           "kraus_matrices_literally_equal": stats["kraus_literal_match"], "model_drift": stats["kraus_drift"],
           "circuits": len(cases), "tlc_cases_evaluated": len(flat), "physicality_checks_of_impl_output": phys_checked,
           "channel_kernels_exercised": kernels, "negative_controls_rejected": neg,
           "tlc": {"invariants": ["InDomain", "Complete", "Physical"], "gen_wall_s": round(rg.wall_s, 1)}}
    return CheckResult(coverage=cov, violations=viol, assumptions=[
        "partial: finite parameter grid (all points have rational documented roots where a genuine root is needed; endpoints 0 and 1 included); "
        "ThermalRelaxationError is parametrised by e^{-tg/T1}, e^{-tg/T2} rational with tg = 1",
        "Hermiticity / unit trace are exact on the reference (TLC invariant Physical); for default.mixed's float output Hermiticity, trace and "
        "positive semidefiniteness are numeric checks at 1e-8 (bridged)",
        "gate angles on the lattice pi/4; float comparison at 1e-8 against exact values"])


def replay(path, tier, seed):
    """Re-run the (deterministic) check for the recorded tier/seed and keep the violations with the recorded key."""
    from pathlib import Path
    rec_ = json.loads(Path(path).read_text())
    res = run(tier, seed)
    res.violations = [v for v in res.violations if v.key == rec_.get("key")]
    return res
