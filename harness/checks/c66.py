"""C66 Local decomposition-rule contexts are isolated.

(M) DecompCtx.tla (threads x nested local contexts x add / fix / rejected-add operations) is model-checked: GlobalClean,
    NoCrossLeak, OwnVisible, ExitRestores, StackSane over every interleaving up to the bound.
(R) spec -> code: DecompCtxGen.tla emits every canonical interleaving for a small bound (exhaustive) and seeded random
    deep interleavings (TLC simulation).  Each history is replayed on the real pennylane.decomposition registry with one
    real thread per model thread, stepped one action at a time through command queues (`with local_decomps():` is a real
    `with` block, exceptions are real exceptions propagating out of k nested blocks).  After every step every thread and
    the main thread record list_decomps / get_fixed_decomp for every operator.
(T) code -> spec: the recorded traces are validated by Trace_DecompCtx.tla which evolves the ghost state (origin of each
    rule, open contexts per thread) and decides the isolation conjuncts on the OBSERVED views at every step; exact
    equality with the model's views is reported as drift.
(F) the same histories without global additions are also run with the threads free-running concurrently (no stepping);
    the per-thread observations are validated by the same trace spec."""
import json
import queue
import random
import sys
import threading
import time

import pennylane as qp
from pennylane.decomposition import add_decomps, list_decomps, local_decomps

try:
    from pennylane.decomposition.decomposition_rule import _fix_decomp, get_fixed_decomp
except ImportError:  # pragma: no cover
    from pennylane.decomposition import _fix_decomp, get_fixed_decomp  # type: ignore

from .. import lib
from ..lib import CheckResult, Violation

NT, NO = 3, 2                      # the driver always runs 3 worker threads and 2 operators (idle ones are bystanders)
INVS = ["GlobalClean", "NoCrossLeak", "OwnVisible", "ExitRestores", "StackSane"]
NRULES = 40


def _mk_rule(n):
    def f(*_, **__):
        return None
    f.__name__ = f"c66_r{n}"
    return qp.register_resources({})(f)


RULES = {n: _mk_rule(n) for n in range(1, NRULES + 1)}
RID = {f"c66_r{n}": n for n in RULES}


class _Unwind(Exception):
    def __init__(self, k):
        super().__init__(k)
        self.k = k


class _Stop(Exception):
    pass


def _observe(opnames):
    ls, fs = [], []
    for name in opnames:
        ls.append([RID.get(r.name, -1) for r in list_decomps(name)])
        f = get_fixed_decomp(name)
        fs.append(0 if f is None else RID.get(f.name, -1))
    return {"p": True, "l": ls, "f": fs}


ABSENT = {"p": False, "l": [[] for _ in range(NO)], "f": [0] * NO}


def _do(ev, opnames):
    """add / fix / dup on the calling thread; returns the exception class name ('' when none)."""
    try:
        if ev["e"] in ("add", "dup"):
            add_decomps(opnames[ev["o"] - 1], RULES[ev["r"]])
        elif ev["e"] == "fix":
            _fix_decomp(opnames[ev["o"] - 1], RULES[ev["r"]])
        return ""
    except Exception as e:  # recorded, decided by the trace spec
        return type(e).__name__


class Worker(threading.Thread):
    """A real thread executing commands one at a time; local contexts are real nested `with` blocks."""

    def __init__(self, opnames):
        super().__init__(daemon=True)
        self.inq, self.outq, self.opnames = queue.SimpleQueue(), queue.SimpleQueue(), opnames

    def run(self):
        try:
            self.level()
        except _Stop:
            pass
        except BaseException as e:  # protocol failure
            self.outq.put(("crash", repr(e)))

    def level(self):
        while True:
            cmd = self.inq.get()
            op = cmd[0]
            if op == "enter":
                try:
                    with local_decomps():
                        self.outq.put(("ok", ""))
                        self.level()
                except _Unwind as u:
                    u.k -= 1
                    if u.k > 0:
                        raise
                self.outq.put(("ok", ""))          # acknowledges the exit / raise that closed this context
            elif op == "exit":
                return
            elif op == "raise":
                raise _Unwind(cmd[1])
            elif op == "obs":
                self.outq.put(("obs", _observe(self.opnames)))
            elif op == "do":
                self.outq.put(("ok", _do(cmd[1], self.opnames)))
            elif op == "stop":
                raise _Stop()

    def call(self, *cmd):
        self.inq.put(cmd)
        return self.reply(cmd)

    def reply(self, cmd):
        try:
            r = self.outq.get(timeout=30)
        except queue.Empty:
            raise lib.MachineryError(f"worker thread did not answer {cmd}")
        if r[0] == "crash":
            raise lib.MachineryError(f"worker thread crashed: {r[1]}")
        return r[1]


def _cleanup(opnames):
    """best effort: drop the scratch operators from the global registry so that it does not grow with every history"""
    try:
        from pennylane.decomposition import decomposition_rule as dr
        for n in opnames:
            dr._decompositions_var.get().pop(n, None)
            dr._fixed_decomps_var.get().pop(n, None)
    except Exception:
        pass


class Pool:
    """NT worker threads reused for many histories (renewed every `renew` histories: a fresh thread has a fresh contextvars
    context).  Every history uses its own operator names, and leaves every worker outside all contexts."""

    def __init__(self, renew=200):
        self.ws, self.n, self.renew = [], 0, renew

    def get(self, opnames):
        if not self.ws or self.n % self.renew == 0:
            self.close()
            self.ws = [Worker(opnames) for _ in range(NT)]
            for w in self.ws:
                w.start()
        self.n += 1
        for w in self.ws:
            w.opnames = opnames
        return self.ws

    def close(self):
        for w in self.ws:
            w.inq.put(("stop",))
        for w in self.ws:
            w.join(timeout=30)
        self.ws = []


def run_stepped(hist, hid, pool):
    opnames = [f"C66op{hid}x{o}" for o in range(1, NO + 1)]
    ws = pool.get(opnames)
    depth = [0] * NT
    out = []
    try:
        for ev in hist:
            t = ev["t"] - 1
            exc = ""
            if ev["e"] == "enter":
                ws[t].call("enter")
                depth[t] += 1
            elif ev["e"] == "exit":
                ws[t].call("exit")
                depth[t] -= 1
            elif ev["e"] == "raise":
                ws[t].call("raise", ev["k"])
                depth[t] -= ev["k"]
            else:
                exc = ws[t].call("do", ev)
            for w in ws:                                   # all threads observe (they wake up in parallel)
                w.inq.put(("obs",))
            obs = [_observe(opnames)] + [w.reply(("obs",)) for w in ws]
            out.append(dict(ev, exc=exc, obs=obs))
    finally:
        for t, w in enumerate(ws):
            if depth[t] > 0:
                w.call("raise", depth[t])
        _cleanup(opnames)
    return {"mode": "stepped", "hist": out}


def run_free(hist, hid, yield_every=True):
    """Threads run their own projection of the history concurrently; returns a serialised trace (thread 1's events, then
    thread 2's ...) with rule ids renumbered in that order; only the acting thread observes.  Requires a history without
    global additions (then every thread's views are independent of the interleaving)."""
    opnames = [f"C66op{hid}f{o}" for o in range(1, NO + 1)]
    progs, nr = [], 0
    ren = {}
    for t in range(1, NT + 1):
        p = []
        for ev in hist:
            if ev["t"] != t:
                continue
            ev = dict(ev)
            if ev["e"] in ("add", "fix"):
                nr += 1
                ren[ev["r"]] = nr
                ev["r"] = nr
            elif ev["e"] == "dup":
                ev["r"] = ren[ev["r"]]
            p.append(ev)
        progs.append(p)
    results = [[] for _ in range(NT)]
    errors = []
    barrier = threading.Barrier(NT)
    _observe(opnames)      # creates the (empty) global entries: afterwards no thread changes the size of the global registry

    def body(t):
        prog = progs[t]
        rec = results[t]

        def seg(i):
            # runs the events from index i inside the current context; returns the index that follows the `exit` closing
            # it (len(prog) + 1 when the program ends first); a `raise` event leaves by _Unwind carrying that index
            while i < len(prog):
                ev = prog[i]
                if ev["e"] == "enter":
                    try:
                        with local_decomps():
                            rec.append((ev, "", _observe(opnames)))
                            j = seg(i + 1)
                    except _Unwind as u:
                        u.k -= 1
                        if u.k > 0:
                            raise
                        j = u.nxt
                    if j > len(prog):                     # program over, context closed without an event
                        return j
                    rec.append((prog[j - 1], "", _observe(opnames)))      # observation after the exit / raise event
                    i = j
                elif ev["e"] == "exit":
                    return i + 1
                elif ev["e"] == "raise":
                    u = _Unwind(ev["k"])
                    u.nxt = i + 1
                    raise u
                else:
                    exc = _do(ev, opnames)
                    rec.append((ev, exc, _observe(opnames)))
                    i += 1
                if yield_every:
                    time.sleep(0)
            return len(prog) + 1
        try:
            barrier.wait(timeout=30)
            seg(0)
        except BaseException as e:
            errors.append(repr(e))

    ths = [threading.Thread(target=body, args=(t,), daemon=True) for t in range(NT)]
    for th in ths:
        th.start()
    for th in ths:
        th.join(timeout=60)
    if errors:
        _cleanup(opnames)
        raise lib.MachineryError(f"free-running thread failed: {errors[0]}")
    out = []
    for t in range(NT):
        if len(results[t]) != len(progs[t]):
            _cleanup(opnames)
            raise lib.MachineryError(f"free-running thread recorded {len(results[t])} of {len(progs[t])} events")
        for ev, exc, ob in results[t]:
            obs = [ABSENT] * (NT + 1)
            obs[t + 1] = ob
            out.append(dict(ev, exc=exc, obs=obs))
    final = [_observe(opnames)] + [ABSENT] * NT
    out.append({"e": "obs", "t": 0, "o": 0, "k": 0, "r": 0, "exc": "", "obs": final})
    _cleanup(opnames)
    return {"mode": "free", "hist": out}


# ----------------------------------------------------------------------------- bookkeeping on histories (not deciding)
def features(hist):
    """walk a history with a shadow of the stacks; returns feature flags and, per event index, the shadow state."""
    stacks = {t: [] for t in range(1, NT + 1)}           # list of lists of rule ids created in each open context
    feat = {"concurrent_ctx": False, "local_rule_with_other_ctx_open": False, "raise": False, "raise2": False,
            "nested": False, "fix": False, "dup": False, "global_add": False}
    shadow = []
    for ev in hist:
        t = ev["t"]
        closed = []
        if ev["e"] == "enter":
            stacks[t].append([])
        elif ev["e"] == "exit":
            closed = stacks[t].pop()
        elif ev["e"] == "raise":
            feat["raise"] = True
            feat["raise2"] |= ev["k"] >= 2
            for _ in range(ev["k"]):
                closed = closed + stacks[t].pop()
        elif ev["e"] in ("add", "fix"):
            if stacks[t]:
                stacks[t][-1].append((ev["r"], ev["e"], ev["o"]))
            else:
                feat["global_add"] = True
            feat["fix"] |= ev["e"] == "fix"
        elif ev["e"] == "dup":
            feat["dup"] = True
        nopen = sum(1 for s in stacks.values() if s)
        feat["concurrent_ctx"] |= nopen >= 2
        feat["nested"] |= any(len(s) >= 2 for s in stacks.values())
        if nopen >= 2 and any(c for s in stacks.values() for c in s):
            feat["local_rule_with_other_ctx_open"] = True
        shadow.append(({k: [list(c) for c in v] for k, v in stacks.items()}, closed))
    return feat, shadow


def negative_controls(trace):
    """corrupted copies of a valid stepped trace, each with the clause the trace spec must answer"""
    hist = trace["hist"]
    _, shadow = features(hist)
    out = []

    def clone(upto):
        return [json.loads(json.dumps(e)) for e in hist[:upto + 1]]
    for i, (ev, (st, closed)) in enumerate(zip(hist, shadow)):
        local = [(t, r, kind, o) for t, s in st.items() for c in s for (r, kind, o) in c]
        fixed_ops = {(t, o) for (t, r, kind, o) in local if kind == "fix"}
        for (t, r, kind, o) in local:
            if kind != "add":
                continue
            h = clone(i)
            h[-1]["obs"][0]["l"][o - 1].append(r)                  # the main thread sees a local rule
            out.append(("local-rule-leaks-into-global-registry", h))
            for t2 in st:
                if t2 != t and st[t2]:
                    h = clone(i)
                    h[-1]["obs"][t2]["l"][o - 1].append(r)          # another thread's open context sees it
                    out.append(("local-rule-leaks-into-other-thread-context", h))
            if (t, o) not in fixed_ops:
                h = clone(i)
                if r in h[-1]["obs"][t]["l"][o - 1]:
                    h[-1]["obs"][t]["l"][o - 1].remove(r)           # its own thread does not see it
                    out.append(("local-rule-not-visible-in-own-context", h))
            break
        for (r, kind, o) in closed:
            if kind == "add" and hist[i]["obs"][ev["t"]]["f"][o - 1] == 0:
                h = clone(i)
                h[-1]["obs"][ev["t"]]["l"][o - 1].append(r)         # the rule is still listed after its context closed
                out.append(("local-rule-survives-context-exit", h))
                break
    return out


class _Agg:
    """sum of the TLC statistics of several validation runs"""

    def __init__(self):
        self.distinct = self.generated = 0
        self.wall_s = 0.0


def validate(traces, wd, name="trace", chunk=8000):
    agg, verd = _Agg(), {}
    for c0 in range(0, len(traces), chunk):
        part = traces[c0:c0 + chunk]
        d = wd / f"{name}_{c0}"
        d.mkdir(parents=True, exist_ok=True)
        path = d / "traces.json"
        path.write_text(json.dumps([{"hist": t["hist"]} for t in part]))
        r = _tlc("Trace_DecompCtx", lib.cfg(init="TInit", next_="TNext", constants={
            "NTRACES": len(part), "NThreads": NT, "NOps": NO, "MaxDepth": 99, "MaxOps": 9999, "MaxEvents": 9999}),
            d, env={"TRACE_FILE": str(path)}, timeout=3000)
        lib.require_ok(r, "Trace_DecompCtx")
        v = {c0 + t[1] - 1: (t[2], t[3]) for t in r.tuples if t[0] == "V"}
        if len(v) != len(part):
            raise lib.MachineryError(f"verdicts not total: {len(v)} of {len(part)}")
        verd.update(v)
        agg.distinct += r.distinct
        agg.generated += r.generated
        agg.wall_s += r.wall_s
        path.unlink()
    return agg, verd


def _tlc(*a, **kw):
    """run_tlc with one retry when the JVM was killed from outside (shared machine)"""
    r = lib.run_tlc(*a, **kw)
    if r.rc in (137, 143):
        r = lib.run_tlc(*a, **kw)
    return r


def generate(tier, seed, wd):
    if tier == "quick":
        mc = dict(NThreads=3, NOps=2, MaxDepth=2, MaxOps=3, MaxEvents=6)
        ex = [dict(NThreads=2, NOps=1, MaxDepth=2, MaxOps=3, MaxEvents=5)]
        sim, nsim = dict(NThreads=3, NOps=2, MaxDepth=2, MaxOps=5, MaxEvents=10), 250
    else:
        mc = dict(NThreads=3, NOps=2, MaxDepth=2, MaxOps=4, MaxEvents=7)
        ex = [dict(NThreads=2, NOps=1, MaxDepth=2, MaxOps=3, MaxEvents=5), dict(NThreads=2, NOps=2, MaxDepth=2, MaxOps=3, MaxEvents=5),
              dict(NThreads=3, NOps=2, MaxDepth=2, MaxOps=3, MaxEvents=4)]
        sim, nsim = dict(NThreads=3, NOps=2, MaxDepth=3, MaxOps=7, MaxEvents=14), 2500
    runs = []
    m = _tlc("DecompCtx", lib.cfg(constants=mc, invariants=INVS, view="NoHist"), wd / "mc", timeout=3000)
    runs.append(m)
    hists, exhaustive_n = [], 0
    for c in ex:
        g = _tlc("DecompCtxGen", lib.cfg(next_="GenNext", constants=c, invariants=INVS, constraints=["Canon"]), wd / "gen", timeout=3000)
        runs.append(g)
        hists += [j["hist"] for j in g.json_lines]
    hists.sort(key=lambda h: (len(h), json.dumps(h, sort_keys=True)))     # TLC's output order depends on its worker threads
    exhaustive_n = len(hists)
    s = _tlc("DecompCtxGen", lib.cfg(next_="GenNext", constants=sim, invariants=INVS), wd / "sim", simulate=f"num={nsim}",
             depth=sim["MaxEvents"] + 3, seed=seed + 1, workers=4, timeout=3000)
    runs.append(s)
    seen = set()
    for k in sorted(json.dumps(j["hist"], sort_keys=True) for j in s.json_lines):
        if k not in seen:
            seen.add(k)
            hists.append(json.loads(k))
    model_bad = None
    for r in runs:
        if r.invariant_violated:
            model_bad = r.invariant_violated
        elif not r.ok():
            lib.require_ok(r, "DecompCtx model / generator")
    return hists, exhaustive_n, runs, dict(mc=mc, exhaustive=ex, simulate=dict(sim, traces=len(seen))), model_bad


def _dbg(t0, what):
    import os
    if os.environ.get("VERIF_DEBUG"):
        print(f"[C66 {time.time() - t0:6.1f}s] {what}", file=sys.stderr, flush=True)


def run(tier, seed):
    t0 = time.time()
    wd = lib.workdir("C66")
    hists, n_ex, runs, bounds, model_bad = generate(tier, seed, wd)
    _dbg(t0, f"generated {len(hists)} histories; TLC walls {[round(r.wall_s, 1) for r in runs]}")
    if n_ex < 500 or len(hists) - n_ex < 100:
        raise lib.MachineryError(f"generator produced too few histories ({n_ex} exhaustive, {len(hists) - n_ex} random)")
    rng = random.Random(seed)
    traces, meta = [], []
    feats = []
    pool = Pool()
    try:
        for hid, h in enumerate(hists):
            traces.append(run_stepped(h, hid, pool))
            meta.append(("stepped", hid))
            feats.append(features(h)[0])
    finally:
        pool.close()
    _dbg(t0, "stepped replay done")
    # free-running threads on histories without global additions
    free_ids = [i for i, f in enumerate(feats) if not f["global_add"] and f["concurrent_ctx"]]
    free_ids = rng.sample(free_ids, min(len(free_ids), 200 if tier == "quick" else 3000))
    old = sys.getswitchinterval()
    sys.setswitchinterval(1e-6)
    try:
        for hid in sorted(free_ids):
            traces.append(run_free(hists[hid], hid))
            meta.append(("free", hid))
    finally:
        sys.setswitchinterval(old)
    # negative controls
    negs = []
    cand = [i for i, f in enumerate(feats) if f["local_rule_with_other_ctx_open"]]
    per_clause = {}
    for i in rng.sample(cand, min(len(cand), 60)):
        if per_clause and len(per_clause) == 4 and min(per_clause.values()) >= 3:
            break
        for clause, h in negative_controls(traces[i]):
            if per_clause.get(clause, 0) >= 6:
                continue
            per_clause[clause] = per_clause.get(clause, 0) + 1
            negs.append((len(traces), clause, i))
            traces.append({"mode": "neg", "hist": h})
            meta.append(("neg", i))
    _dbg(t0, f"free-running + negative controls done ({len(traces)} traces)")
    r, verd = validate(traces, wd)
    _dbg(t0, f"trace validation done (TLC {r.wall_s:.1f}s)")
    want = {"local-rule-leaks-into-global-registry", "local-rule-leaks-into-other-thread-context",
            "local-rule-not-visible-in-own-context", "local-rule-survives-context-exit"}
    # a corrupted copy of a trace the spec accepts must be answered with exactly the injected clause; a corrupted copy of a
    # trace that is itself rejected must still be rejected
    rejected = {c for (i, c, b) in negs if verd[i][0] == c}
    wrong = [(c, verd[i][0]) for (i, c, b) in negs if verd[i][0] == "ok" or (verd[b][0] == "ok" and verd[i][0] != c)]
    impl_clean = all(verd[i][0] == "ok" for i in range(len(hists)))
    if wrong or (impl_clean and rejected != want):
        raise lib.MachineryError(f"negative controls: clauses rejected {sorted(rejected)}; wrong answers {wrong[:3]}")
    viol, drift, nviol = [], 0, {}
    if model_bad:
        viol.append(Violation(key=f"model:{model_bad}", detail=f"the DecompCtx design model violates {model_bad}"))
    nontriv, samples = set(), []
    for i, (mode, hid) in enumerate(meta):
        if mode == "neg":
            continue
        v, d = verd[i]
        drift += d == "drift"
        if v != "ok":
            if v == "unknown-rule-observed":
                raise lib.MachineryError(f"a rule that the driver never created was observed: {traces[i]['hist']}")
            nviol[f"{mode}:{v}"] = nviol.get(f"{mode}:{v}", 0) + 1
            if nviol[f"{mode}:{v}"] <= 3:              # the shortest few histories per clause (histories are in BFS order)
                viol.append(Violation(key=f"{mode}:{v}", detail=f"{v} in {mode} replay of history {hists[hid]}",
                                      replay={"mode": mode, "hist": hists[hid], "trace": traces[i]["hist"]}))
        f = feats[hid]
        if f["local_rule_with_other_ctx_open"]:
            nontriv.add((mode, json.dumps(hists[hid])))
            if len(samples) < 3 and f["raise"] and mode == "stepped":
                last = traces[i]["hist"][-1]
                samples.append({"mode": mode, "history": [{k: e[k] for k in ("e", "t", "o", "k", "r")} for e in hists[hid]],
                                "final_observation": last["obs"], "verdict": v})
    fc = {k: sum(1 for f in feats if f[k]) for k in feats[0]}
    cov = {"states": sum(x.distinct for x in runs) + r.distinct, "transitions": sum(x.generated for x in runs) + r.generated,
           "traces_validated_against_impl": len(traces) - len(negs), "evaluations": sum(len(t["hist"]) for t in traces),
           "distinct_nontrivial": len(nontriv),
           "rule": "non-trivial = distinct (mode, history) in which a rule was added/fixed in a local context while at least two "
                   "threads had local contexts open simultaneously",
           "samples": samples, "exhaustive": True,
           "exhaustive_scope": "all canonical interleavings for the `exhaustive` bounds; deeper histories by seeded TLC simulation",
           "bounds": bounds, "model": {"module": "DecompCtx", "invariants": INVS, "states": runs[0].distinct, "violated": model_bad},
           "histories_exhaustive": n_ex, "histories_random": len(hists) - n_ex, "free_running_traces": len(free_ids),
           "history_features": fc, "model_drift_traces": drift, "violating_traces_by_clause": nviol, "negative_controls_rejected": len(negs),
           "negative_control_clauses": sorted(rejected),
           "observation_not_part_of_statement": dict(enter_race_probe(200), what=(
               "`with local_decomps()` iterates the shared global registry; a concurrent first-time list_decomps/add_decomps "
               "of an operator at global level inserts a key (defaultdict) and the entry raises RuntimeError; probed with "
               "sys.setswitchinterval(1e-6), counts are scheduling dependent; the replayed histories avoid it by creating the "
               "operators' global entries before the threads run"))}
    return CheckResult(coverage=cov, violations=viol, assumptions=[
        "threads are stepped by the driver (one action at a time) in the replayed interleavings; true preemptive overlap is only "
        "exercised by the free-running traces, whose histories contain no global additions",
        "fixed decompositions are set with the developer-facing _fix_decomp, only inside local contexts (as DecompositionGraph does)",
        "a new thread starts with an empty contextvars context (CPython default)"])


def replay(path, tier="quick", seed=0):
    rec = json.loads(open(path).read())["replay"]
    wd = lib.workdir("C66")
    pool = Pool()
    try:
        tr = run_stepped(rec["hist"], 0, pool) if rec["mode"] == "stepped" else run_free(rec["hist"], 0)
    finally:
        pool.close()
    r, verd = validate([tr], wd, "replay")
    v = verd[0][0]
    viol = [] if v == "ok" else [Violation(key=f"{rec['mode']}:{v}", detail=f"{v} in replay of {rec['hist']}", replay=rec)]
    return CheckResult(coverage={"states": r.distinct, "transitions": r.generated, "traces_validated_against_impl": 1,
                                 "evaluations": len(tr["hist"]), "distinct_nontrivial": 1, "rule": "single replay",
                                 "samples": [], "exhaustive": False}, violations=viol)


def enter_race_probe(n=300):
    """Observation only (not part of the C66 statement): entering a local context iterates the global registry, and
    list_decomps / add_decomps of a not-yet-known operator at global level inserts a key into it.  Counts how often
    `with local_decomps()` raises when the two overlap in different threads."""
    names = [f"C66race{i}" for i in range(n)]
    errs, stop = [], threading.Event()

    def reader():
        for nm in names:
            list_decomps(nm)
            time.sleep(0)
        stop.set()

    def enterer():
        k = 0
        while not stop.is_set() and k < 20 * n:
            k += 1
            try:
                with local_decomps():
                    pass
            except RuntimeError as e:
                errs.append(str(e))
        errs.append(k)
    old = sys.getswitchinterval()
    sys.setswitchinterval(1e-6)
    try:
        a, b = threading.Thread(target=enterer, daemon=True), threading.Thread(target=reader, daemon=True)
        a.start(); b.start(); a.join(60); b.join(60)
    finally:
        sys.setswitchinterval(old)
        _cleanup(names)
    attempts = errs.pop() if errs and isinstance(errs[-1], int) else 0
    return {"context_entries": attempts, "global_insertions": n, "entries_raising_RuntimeError": len(errs),
            "message": errs[0] if errs else ""}
