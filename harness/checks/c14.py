"""C14 Unitary synthesis reproduces any unitary (partial: exact inputs and exact structural post-conditions, numeric final comparison).

Inputs (spec -> code): words over Clifford+T(+controlled) gates on 1-3 wires (exhaustive short words, shaped families for the
    edge classes named by the property, seeded random longer words).  TLC (CircuitEq.tla, 'emit') computes the EXACT unitary of
    every word over D[omega] from the reference table Gates.tla; duplicates are removed on the exact matrices.
Calls: one_qubit_decomposition (ZYZ, XYX, XZX, ZXZ, rot; with and without global phase), two_qubit_decomposition,
    multi_qubit_decomposition, QubitUnitary.compute_decomposition, the seven registered QubitUnitary rules, the unitary_to_rot
    transform and the complete synthesis decompose(gate_set = rotations + CNOT + GlobalPhase), on mixed wire labels.
Decided by TLC (code -> spec, Trace_Synth.tla): the documented structure of every returned circuit (convention, wires, position of the
    global phase, at most three CNOTs, 4 unitaries + 3 multiplexers) and, from SynthClass.tla, what the input IS: shape flags and the
    minimal number of CNOTs by the Shende-Bullock-Markov criterion in exact arithmetic (coverage of the 0/1/2/3-CNOT classes is measured
    by the spec, never by PennyLane's own classifier; using more CNOTs than necessary is reported as drift, not as a violation).
Bridged (floats): the matrix of the returned circuit (harness/bridge.py, not PennyLane's matrix code; SelectPauliRot by its documented
    definition) against TLC's exact U at 1e-7: equal including the global phase where the documentation includes it, up to a phase
    otherwise."""
import itertools
import json
import random
import time

import numpy as np

import pennylane as qp
from pennylane.decomposition import list_decomps

from .. import bridge, decomp, lib, rel
from ..codec import rec
from ..lib import CheckResult, Violation

PID = "C14"
M = 3
TOL = 1e-7
CONVS = ["ZYZ", "XYX", "XZX", "ZXZ", "rot"]
FULL_SET = {"RX", "RY", "RZ", "CNOT", "GlobalPhase"}
LABELS = {1: [[0], ["q"], [7]], 2: [[0, 1], ["b", "a"], [3, "c"], [1, 0]], 3: [[0, 1, 2], ["c", 0, "a"], [2, 1, 0]]}
AXIS = {"X": 1, "Y": 2, "Z": 3}


# ------------------------------------------------------------------------------------------------ input words
def ctl(g, w, cv=(1,)):
    return rec(g, list(w), mods=[{"t": "ctrl", "cv": list(cv)}])


def alphabet(n):
    a = []
    for w in range(1, n + 1):
        a += [rec("Hadamard", [w]), rec("S", [w]), rec("T", [w])]
    if n >= 2:
        for (u, v) in itertools.permutations(range(1, n + 1), 2):
            a += [rec("CNOT", [u, v]), rec("CH", [u, v]), rec("CY", [u, v])]
            if u < v:
                a += [rec("CZ", [u, v]), rec("SWAP", [u, v]), rec("ISWAP", [u, v]), rec("SISWAP", [u, v]), ctl("S", [u, v]), ctl("T", [u, v])]
    if n >= 3:
        for p in itertools.permutations(range(1, 4), 3):
            if p[0] < p[1]:
                a += [rec("Toffoli", list(p)), ctl("S", list(p), (1, 1)), ctl("Hadamard", list(p), (1, 0))]
            if p[1] < p[2]:
                a.append(rec("CSWAP", list(p)))
        a.append(rec("CCZ", [1, 2, 3]))
    return a


def word_str(w):
    def one(g):
        c = "".join("C" for md in g["mods"] for _ in md["cv"])
        return f"{c}{g['g']}{g['w']}"
    return " ".join(one(g) for g in w) or "(empty word)"


def gen_words(tier, seed):
    """-> list of (n, word, family)"""
    rng = random.Random(1400 + seed)
    out = []
    quick = tier == "quick"
    # one qubit: every group element reachable by a word over H, S, T up to the length bound, through the words in normal form for the
    # rewriting HH -> (), TT -> S, ST -> TS, SSSS -> () (none of which lengthens a word, so no reachable element is lost)
    a1 = alphabet(1)
    L1 = 8 if quick else 10
    for L in range(0, L1 + 1):
        for w in itertools.product(a1, repeat=L):
            s = "".join(g["g"][0] for g in w)
            if not any(p in s for p in ("HH", "TT", "ST", "SSSS")):
                out.append((1, list(w), "exhaustive"))
    for _ in range(0 if quick else 1500):
        out.append((1, [rng.choice(a1) for _ in range(rng.randint(10, 30))], "random"))
    # two qubits
    a2 = alphabet(2)
    loc2 = [g for g in a2 if len(g["w"]) == 1]
    ent2 = [g for g in a2 if len(g["w"]) == 2]
    diag2 = [g for g in a2 if g["g"] in ("S", "T", "CZ")]
    cliff2 = [g for g in a2 if g["g"] in ("Hadamard", "S", "CNOT", "CZ", "SWAP", "CY", "ISWAP") and not g["mods"]]
    X1 = rec("PauliX", [1])
    out += [(2, [], "identity"), (2, [rec("S", [1]), X1, rec("S", [1]), X1], "scalar"), (2, [rec("T", [2]), rec("PauliX", [2])] * 2, "scalar")]
    for L in (1, 2):
        for w in itertools.product(a2, repeat=L):
            out.append((2, list(w), "exhaustive"))

    def rw(pool, lo, hi):
        return [rng.choice(pool) for _ in range(rng.randint(lo, hi))]
    k = 1 if quick else 12
    for _ in range(60 * k):
        out.append((2, rw(loc2, 1, 10), "local-product"))
    for _ in range(40 * k):
        out.append((2, rw(diag2, 1, 8), "diagonal"))
    for _ in range(60 * k):
        out.append((2, rw(cliff2, 2, 10), "clifford"))
    for e in ent2:                                      # one entangler dressed with local gates on both sides (controlled / SWAP-like)
        for _ in range(2 * k):
            out.append((2, rw(loc2, 0, 4) + [e] + rw(loc2, 0, 4), "dressed-" + ("swap-like" if e["g"] in ("SWAP", "ISWAP", "SISWAP") else "controlled")))
    for _ in range(60 * k):                             # two entanglers
        out.append((2, rw(loc2, 0, 3) + [rng.choice(ent2)] + rw(loc2, 1, 3) + [rng.choice(ent2)] + rw(loc2, 0, 3), "two-entanglers"))
    for _ in range(100 * k):
        out.append((2, rw(a2, 3, 10 if quick else 14), "random"))
    # three qubits
    a3 = alphabet(3)
    out += [(3, [], "identity"), (3, [rec("Toffoli", [1, 2, 3])], "controlled"), (3, [rec("CSWAP", [1, 2, 3])], "controlled"),
            (3, [rec("CCZ", [1, 2, 3])], "diagonal"), (3, [rec("T", [1]), rec("S", [2]), rec("T", [3]), rec("CZ", [1, 3])], "diagonal"),
            (3, [rec("Hadamard", [1]), rec("T", [2]), rec("S", [3])], "local-product")]
    for _ in range(24 if quick else 600):
        out.append((3, rw(a3, 1, 8 if quick else 12), "random"))
    return out


def known_class_words():
    """classifier controls: textbook minimal CNOT counts"""
    r, C = rec, ctl
    return [([], 0), ([r("Hadamard", [1]), r("T", [2])], 0), ([r("CNOT", [1, 2])], 1), ([r("CNOT", [2, 1])], 1), ([r("CZ", [1, 2])], 1),
            ([r("CY", [1, 2])], 1), ([r("CH", [1, 2])], 1), ([r("ECR", [1, 2])], 1), ([C("S", [1, 2])], 2), ([C("T", [1, 2])], 2),
            ([r("ISWAP", [1, 2])], 2), ([r("SISWAP", [1, 2])], 2), ([r("CNOT", [1, 2]), r("CNOT", [2, 1])], 2), ([r("SWAP", [1, 2])], 3),
            ([r("T", [1]), r("Hadamard", [2]), r("SWAP", [1, 2]), r("S", [1]), r("Hadamard", [1])], 3),
            ([r("CNOT", [1, 2]), r("T", [2]), r("CNOT", [1, 2])], 2)]


# ------------------------------------------------------------------------------------------------ recording and float evaluation
def _f(x):
    return float(np.real(qp.math.unwrap([x])[0]))


def record_ops(ops, wpos):
    """-> (structural records for TLC, float items (matrix, positions) for the bridge)"""
    recs, items = [], []
    for op in ops:
        name = op.name
        if name == "SelectPauliRot":            # wires = control wires followed by the target wire
            w = [wpos.get(x, 0) for x in op.wires]
            axis = op.hyperparameters["rot_axis"]
            recs.append({"g": name, "w": w, "x": [AXIS[axis]]})
            ang = [_f(a) for a in np.asarray(op.data[0]).reshape(-1)]
            d = 2 * len(ang)
            m = np.zeros((d, d), dtype=complex)           # documented definition: sum_i |i><i| (x) R_P(alpha_i)
            for i, a in enumerate(ang):
                m[2 * i:2 * i + 2, 2 * i:2 * i + 2] = bridge.base_matrix("R" + axis, [a], [], 1)
            items.append((m, w))
            continue
        w = [wpos.get(x, 0) for x in op.wires]
        if name == "QubitUnitary":
            mat = np.asarray(qp.math.unwrap([op.data[0]])[0], dtype=complex)
            recs.append({"g": name, "w": w, "x": [int(mat.shape[0])]})
            items.append((mat, w))
        elif name == "GlobalPhase":
            recs.append({"g": name, "w": w, "x": []})
            items.append((np.exp(-1j * _f(op.data[0])), []))
        else:
            recs.append({"g": name, "w": w, "x": []})
            try:
                items.append((bridge.base_matrix(name, [_f(d) for d in op.data], [], len(w)), w))
            except KeyError:
                items.append((None, w))
    return recs, items


def evaluate(items, n):
    U = np.eye(1 << n, dtype=complex)
    for m, w in items:
        if m is None or any(not 1 <= x <= n for x in w):
            return None
        U = m * U if not w else bridge.apply(U, m, w, n)
    return U


def calls_for(n, U, labels, idx, tier):
    """every call made on the unitary U (float64 image of TLC's exact matrix) -> list of (kind, conv, gp, thunk returning ops, relation)"""
    wires = labels
    quick = tier == "quick"
    out = []
    rules = {r.name: r for r in list_decomps(qp.QubitUnitary)}
    op = qp.QubitUnitary(U, wires=wires)

    def rule_thunk(name):
        return lambda: decomp.emitted_ops(op, rules[name])[0]

    def tape_thunk(fn, **kw):
        return lambda: fn(qp.tape.QuantumScript([qp.QubitUnitary(U, wires=wires)]), **kw)[0][0].operations
    if n == 1:
        for ci, conv in enumerate(CONVS):
            for gp in (False, True):
                if quick and idx % 2 and (ci + gp) % 2:
                    continue
                out.append(("one", conv, int(gp), (lambda c=conv, g=gp: qp.ops.one_qubit_decomposition(U, wires[0], rotations=c, return_global_phase=g)),
                            "exact" if gp else "phase"))
        if not quick or idx % 3 == 0:
            for conv in CONVS:
                out.append(("rule", conv, 2, rule_thunk(conv.lower()), "exact"))
            out.append(("cd", "", 1, lambda: qp.QubitUnitary.compute_decomposition(U, wires), "exact"))
            out.append(("u2r", "", 0, tape_thunk(qp.transforms.unitary_to_rot), "phase"))
    elif n == 2:
        out.append(("two", "", 0, lambda: qp.ops.two_qubit_decomposition(U, wires), "exact"))
        if not quick or idx % 3 == 0:
            out.append(("rule", "two_qubit_decomp_rule", 2, rule_thunk("two_qubit_decomp_rule"), "exact"))
            out.append(("u2r", "", 0, tape_thunk(qp.transforms.unitary_to_rot), "phase"))
        if not quick or idx % 3 == 1:
            out.append(("cd", "", 1, lambda: qp.QubitUnitary.compute_decomposition(U, wires), "exact"))
            out.append(("full", "", 0, tape_thunk(qp.transforms.decompose, gate_set=FULL_SET), "exact"))
    else:
        out.append(("multi", "", 0, lambda: qp.ops.multi_qubit_decomposition(U, wires), "exact"))
        if not quick or idx % 2 == 0:
            out.append(("rule", "multi_qubit_decomp_rule", 2, rule_thunk("multi_qubit_decomp_rule"), "exact"))
            out.append(("cd", "", 1, lambda: qp.QubitUnitary.compute_decomposition(U, wires), "exact"))
        if not quick or idx % 4 == 1:
            out.append(("full", "", 0, tape_thunk(qp.transforms.decompose, gate_set=FULL_SET), "exact"))
    return out


def run_traces(traces, name, chunk=15000):
    """Trace_Synth on the recorded traces (batched) -> ({index: verdict tail}, summed TLC statistics)"""
    v, distinct, generated = {}, 0, 0
    for off in range(0, len(traces), chunk):
        part = traces[off:off + chunk]
        wd = lib.workdir(PID, f"{name}_{off}")
        (wd / "traces.json").write_text(json.dumps(part))
        r = lib.run_tlc("Trace_Synth", lib.cfg(constants={"M": M, "NTRACES": len(part)}), wd, env={"TRACE_FILE": str(wd / "traces.json")},
                        timeout=3000)
        lib.require_ok(r, f"Trace_Synth {name}@{off}")
        for t in r.tuples:
            if t[0] == "V":
                v[off + t[1] - 1] = t[2:]
        distinct += r.distinct
        generated += r.generated
    if len(v) != len(traces):
        raise lib.MachineryError(f"Trace_Synth verdicts are not total: {len(v)} of {len(traces)}")
    return v, (distinct, generated)


def tag(tr):
    c = f"[{tr['conv']}{',gp' if tr['gp'] == 1 else ''}]" if tr["conv"] or tr["kind"] == "one" else ""
    return f"{tr['kind']}{c}:n={tr['n']}"


def run(tier, seed):
    words = gen_words(tier, seed)
    known = known_class_words()
    t0 = time.time()
    timing = {}
    cases = [{"n": n, "a": w, "bs": [{"b": [], "rel": "emit"}]} for (n, w, _) in words] + \
            [{"n": 2, "a": w, "bs": [{"b": [], "rel": "emit"}]} for (w, _) in known]
    _, emitted, st = rel.validate(PID, cases, M, name="emit")
    states, transitions = st["distinct"], st["generated"]
    timing["tlc_emit_s"] = round(time.time() - t0, 1)
    t0 = time.time()
    # distinct exact unitaries (first word wins)
    seen, inputs = {}, []
    for i, (n, w, fam) in enumerate(words):
        key = json.dumps(emitted[i], separators=(",", ":"))
        if key in seen:
            continue
        seen[key] = i
        inputs.append((n, w, fam, emitted[i]))
    traces, meta, viol = [], [], []
    per_kind, n_calls = {}, 0
    for idx, (n, w, fam, ring) in enumerate(inputs):
        U = lib.ring_matrix_to_numpy(ring, M)
        labels = LABELS[n][idx % len(LABELS[n])]
        wpos = {l: i + 1 for i, l in enumerate(labels)}
        for (kind, conv, gp, thunk, relation) in calls_for(n, U, labels, idx, tier):
            n_calls += 1
            tr = {"kind": kind, "n": n, "tw": list(range(1, n + 1)), "inp": idx, "conv": conv if kind in ("one", "rule") and n == 1 else "",
                  "gp": gp, "err": "", "out": [], "exp": -1}
            items = []
            try:
                with qp.queuing.QueuingManager.stop_recording():
                    ops = list(thunk())
                tr["out"], items = record_ops(ops, wpos)
            except Exception as e:            # noqa: BLE001 - every valid unitary must be accepted
                tr["err"] = type(e).__name__
                ops = []
                tr["msg"] = str(e)[:200]
            per_kind[kind] = per_kind.get(kind, 0) + 1
            traces.append(tr)
            meta.append({"word": w, "family": fam, "labels": labels, "relation": relation, "items": items, "ops": [repr(o)[:160] for o in ops][:40],
                         "U": U, "rule": conv if kind == "rule" else ""})
    n_real = len(traces)
    for j, (n, w, fam, ring) in enumerate(inputs):    # one input trace per distinct unitary: TLC answers with what it is
        traces.append({"kind": "input", "n": n, "tw": list(range(1, n + 1)), "u": ring, "conv": "", "gp": 0, "err": "", "out": [], "exp": -1,
                       "chk": 1 if (tier != "quick" or j % 3 == 0) else 0})
    n_in = len(inputs)
    timing["pennylane_calls_s"] = round(time.time() - t0, 1)
    t0 = time.time()
    # classifier controls
    for j, (w, c) in enumerate(known):
        traces.append({"kind": "class", "n": 2, "tw": [1, 2], "u": emitted[len(words) + j], "conv": "", "gp": 0, "err": "", "out": [], "exp": c, "chk": 1})
    # structural negative controls: corrupt one recorded field of accepted traces
    neg = []

    def first(pred):
        return next((i for i in range(n_real) if pred(traces[i]) and not traces[i]["err"]), None)
    cn = {"g": "CNOT", "w": [1, 2], "x": []}
    i = first(lambda t: t["kind"] == "two" and sum(g["g"] == "CNOT" for g in t["out"]) == 3)
    if i is not None:
        neg.append((dict(traces[i], out=traces[i]["out"] + [cn]), "more-than-three-cnots"))
    i = first(lambda t: t["kind"] == "one" and t["conv"] == "ZYZ" and t["gp"] == 1)
    if i is not None:
        neg.append((dict(traces[i], conv="XYX"), "not-the-requested-convention"))
        neg.append((dict(traces[i], out=traces[i]["out"][:-1]), "global-phase-requested-but-not-last"))
        neg.append((dict(traces[i], out=[dict(traces[i]["out"][0], w=[2])] + traces[i]["out"][1:]), "wrong-wire"))
    i = first(lambda t: t["kind"] == "one" and t["gp"] == 0)
    if i is not None:
        neg.append((dict(traces[i], out=traces[i]["out"] + [{"g": "GlobalPhase", "w": [], "x": []}]), "global-phase-not-requested-but-returned"))
    i = first(lambda t: t["kind"] == "multi")
    if i is not None:
        o = traces[i]["out"]
        neg.append((dict(traces[i], out=[o[1], o[0]] + o[2:]), "not-four-unitaries-and-three-multiplexers"))
        neg.append((dict(traces[i], out=[dict(o[0], w=list(range(1, traces[i]["n"])))] + o[1:]), "wrong-wire"))
    i = first(lambda t: t["kind"] == "u2r" and t["n"] == 2)
    if i is not None:
        neg.append((dict(traces[i], out=traces[i]["out"] + [{"g": "QubitUnitary", "w": [1], "x": [2]}]), "qubit-unitary-left"))
    neg.append(({"kind": "class", "n": 2, "tw": [1, 2], "u": emitted[len(words) + 13], "conv": "", "gp": 0, "err": "", "out": [], "exp": 2, "chk": 1}, "SELF"))
    for t, _ in neg:
        traces.append(t)
    verdicts, r = run_traces([{k: v for k, v in t.items() if k not in ("msg", "inp")} for t in traces], "traces")
    states += r[0]
    transitions += r[1]
    timing["tlc_trace_s"] = round(time.time() - t0, 1)
    # ---- controls
    for j in range(len(known)):
        v = verdicts[n_real + n_in + j]
        if v[4] != "ok":
            raise lib.MachineryError(f"classifier control {word_str(known[j][0])}: {v}")
    nneg = 0
    for j, (_, expect) in enumerate(neg):
        v = verdicts[n_real + n_in + len(known) + j]
        got = v[4] if expect == "SELF" else v[0]
        if expect == "SELF":
            ok = got == "classifier-disagrees-with-known-class"
        else:
            ok = got == expect
        if not ok:
            raise lib.MachineryError(f"negative control expected {expect}, TLC said {v}")
        nneg += 1
    if nneg < 6:
        raise lib.MachineryError(f"only {nneg} structural negative controls could be built")
    # ---- verdicts
    cls_hist, flag_hist, used_by_class = {}, {}, {}
    FL = {1: "identity", 2: "scalar", 4: "diagonal", 8: "monomial", 16: "antidiagonal(1q)", 32: "x-diagonal(1q)", 64: "x-antidiagonal(1q)",
          128: "local-product(2q)"}
    seen_in = set()
    for j in range(n_in):
        if verdicts[n_real + j][4] != "ok":
            raise lib.MachineryError(f"spec self-check failed on {word_str(inputs[j][1])}: {verdicts[n_real + j][4]}")
    drift_above, drift_detail = 0, []
    n_exact = n_phase = 0
    neg_num, neg_num_rej = 0, 0
    samples = []
    nontrivial = set()
    for i in range(n_real):
        tr, md = traces[i], meta[i]
        verdict, _, _, ncnot, _ = verdicts[i]
        _, flags, cls, _, _ = verdicts[n_real + tr["inp"]]
        ukey = tr["inp"]
        if ukey not in seen_in:
            seen_in.add(ukey)
            if tr["n"] == 2:
                cls_hist[cls] = cls_hist.get(cls, 0) + 1
            for b, nm in FL.items():
                if flags & b:
                    flag_hist[f"n={tr['n']}:{nm}"] = flag_hist.get(f"n={tr['n']}:{nm}", 0) + 1
            if not flags & 2:
                nontrivial.add(ukey)
        rep = {"call": tag(tr), "rule": md["rule"], "word": word_str(md["word"]), "wires": md["labels"], "returned": md["ops"],
               "U": [[[round(z.real, 12), round(z.imag, 12)] for z in row] for row in md["U"]]}
        if verdict == "raises":
            viol.append(Violation(key=f"{tag(tr)}:raises:{tr['err']}", detail=f"{tag(tr)} raised {tr['err']}: {tr.get('msg', '')} on the unitary of "
                                  f"{word_str(md['word'])}", replay=rep))
            continue
        if verdict != "ok":
            viol.append(Violation(key=f"{tag(tr)}:{verdict}", detail=f"{tag(tr)} on the unitary of [{word_str(md['word'])}] (wires {md['labels']}) "
                                  f"returned {md['ops']}: TLC verdict {verdict}", replay=rep))
            continue
        if tr["n"] == 2 and tr["kind"] in ("two", "cd", "rule", "u2r"):
            used_by_class.setdefault(cls, {}).setdefault(ncnot, 0)
            used_by_class[cls][ncnot] += 1
            if ncnot != cls:
                drift_above += 1
                if len(drift_detail) < 5:
                    drift_detail.append({"word": word_str(md["word"]), "call": tag(tr), "minimal": cls, "used": ncnot})
        Uout = evaluate(md["items"], tr["n"])
        if Uout is None:
            viol.append(Violation(key=f"{tag(tr)}:unevaluable-operator", detail=f"returned {md['ops']}", replay=rep))
            continue
        if md["relation"] == "exact":
            n_exact += 1
            good = np.allclose(Uout, md["U"], atol=TOL, rtol=0)
        else:
            n_phase += 1
            good = bridge.equal_up_to_phase(Uout, md["U"], tol=TOL)
        if not good:
            err = float(np.abs(Uout - md["U"]).max())
            rel_s = "including the global phase" if md["relation"] == "exact" else "up to a global phase"
            extra = f"(class={cls})" if tr["n"] == 2 else ""
            viol.append(Violation(key=f"{tag(tr)}:not-equal{extra}", detail=f"{tag(tr)} on the unitary of [{word_str(md['word'])}] (wires {md['labels']}): "
                                  f"the returned circuit is not equal to U {rel_s} (max entry difference {err:.3e}); returned {md['ops']}", replay=rep))
            continue
        # numeric negative control on every 40th accepted call: shift one rotation angle / one matrix entry
        if i % 40 == 0:
            its = list(md["items"])
            k = next((j for j, (m, w) in enumerate(its) if w and m is not None), None)
            if k is not None:
                m, w = its[k]
                its[k] = (m @ np.kron(np.eye(m.shape[0] // 2), bridge.rz(1e-5)), w)
                neg_num += 1
                Ubad = evaluate(its, tr["n"])
                bad_ok = np.allclose(Ubad, md["U"], atol=TOL, rtol=0) if md["relation"] == "exact" else bridge.equal_up_to_phase(Ubad, md["U"], tol=TOL)
                neg_num_rej += 0 if bad_ok else 1
        if len(samples) < 5 and len(md["word"]) >= 3 and tag(tr) not in {s["call"] for s in samples}:
            samples.append({"call": tag(tr), "word": word_str(md["word"]), "wires": md["labels"], "returned": md["ops"][:12], "flags": flags,
                            "minimal_cnots": cls, "cnots_used": ncnot, "relation": md["relation"], "verdict": "ok"})
    if neg_num == 0 or neg_num_rej != neg_num:
        raise lib.MachineryError(f"numeric negative controls rejected {neg_num_rej}/{neg_num}")
    if tier == "quick" and any(c not in cls_hist for c in (0, 1, 2, 3)):
        raise lib.MachineryError(f"vacuity: CNOT classes covered {cls_hist}")
    cov = {"states": states, "transitions": transitions, "traces_validated_against_impl": n_real, "evaluations": n_calls,
           "distinct_nontrivial": len(nontrivial),
           "rule": "inputs: distinct exact unitaries (deduplicated on TLC's exact matrices) of Clifford+T(+controlled) words on 1-3 wires; "
                   "non-trivial = not a scalar multiple of the identity",
           "samples": samples, "exhaustive": False, "words": len(words), "distinct_unitaries": len(inputs),
           "inputs_by_width": {str(n): sum(1 for x in inputs if x[0] == n) for n in (1, 2, 3)},
           "calls_by_kind": per_kind, "compared_including_phase": n_exact, "compared_up_to_phase": n_phase,
           "minimal_cnot_class_of_inputs(TLC)": {str(k): v for k, v in sorted(cls_hist.items())},
           "cnots_used_by_minimal_class": {str(k): {str(a): b for a, b in sorted(v.items())} for k, v in sorted(used_by_class.items())},
           "input_shapes(TLC)": dict(sorted(flag_hist.items())), "model_drift": drift_above, "model_drift_examples": drift_detail,
           "classifier_controls_ok": len(known), "negative_controls_rejected": nneg + neg_num_rej,
           "structural_negative_controls": nneg, "numeric_negative_controls": neg_num_rej, "tolerance": TOL, "ring_level_M": M, "timing": timing,
           "exhaustive_part": "every one-qubit unitary reachable by a word over {H,S,T} of length <= %d; all words up to length 2 over the "
                              "18-gate two-wire alphabet" % (8 if tier == "quick" else 10)}
    return CheckResult(coverage=cov, violations=viol, assumptions=[
        "partial: inputs are the (dense) Clifford+T(+controlled) subgroup, exact in D[omega]; Haar-random, near-singular and near-class-boundary "
        "unitaries are outside the exact domain",
        "the final matrix comparison is numeric (1e-7) between TLC's exact U and the float-bridge evaluation of the returned rotations",
        "using more CNOTs than the exact minimal class is counted as model_drift (the statement demands at most three)"])
