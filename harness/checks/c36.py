"""C36 Finite-difference coefficients have their stated accuracy.

(M) FiniteDiff.tla states the moment conditions  sum_i c_i s_i^j = j! [j = n]  (j < n + a) declaratively (exact, over the
    common denominator, two-limb integers) and, independently, SOLVES the moment system by Gauss-Jordan elimination over the
    rationals (Rat.tla) on the smallest stencil of the strategy's family.  FiniteDiffGen.tla does this for every
    (n, a, strategy) in the bounds, one pivot per TLC step, and TLC checks: a rule exists, is unique, satisfies the declarative
    conditions, is exact on every 0/1-coefficient polynomial of degree < n + a (small systems), is not exact two degrees higher,
    centered rules are (anti)symmetric.
(T) code -> spec: finite_diff_coeffs is called for every combination; the reported floats are converted to rationals
    (Fraction.limit_denominator, round trip vouched for) and Trace_FiniteDiff.tla decides the moment conditions exactly on the
    REPORTED coefficients and shifts.
(R) spec -> code: the rule TLC solved for is compared exactly (as rationals, zero coefficients dropped) with the reported one.
"""
import json
from fractions import Fraction

import numpy as np

import pennylane as qp

from .. import lib
from ..lib import CheckResult, Violation

PID = "C36"
TOL_REL = 1e-8          # float bridge: |float - rational| <= TOL_REL * max(1, |rational|)   (framework float tolerance)
STRICT = 1e-12          # reported as evidence only: coefficients further than this from their rational
MAX_DEN = 1000
STRATEGIES = ("forward", "backward", "center")
INVARIANTS = ["Solvable", "MomentsOK", "Sharp", "PolyOK", "Minimal", "CenterSymmetric"]


def to_rat(x):
    """float -> (Fraction with small denominator, absolute deviation, relative deviation)"""
    ex = Fraction(float(x))
    q = ex.limit_denominator(MAX_DEN)
    dev = float(abs(ex - q))
    return q, dev, dev / max(1.0, abs(float(q)))


def pair(q):
    return [q.numerator, q.denominator]


def call_impl(n, a, st):
    """-> record for the trace spec (+ bookkeeping).  rec['exc'] != '' when the call raised."""
    rec = {"n": n, "a": a, "st": st, "coeffs": [], "shifts": [], "exc": ""}
    info = {"dev_abs": 0.0, "dev_rel": 0.0, "malformed": "", "floats": None}
    try:
        out = qp.gradients.finite_diff_coeffs(n, a, st)
    except Exception as e:
        rec["exc"] = type(e).__name__
        info["msg"] = str(e)
        return rec, info
    arr = np.asarray(out, dtype=float)
    if arr.ndim != 2 or arr.shape[0] != 2 or not np.all(np.isfinite(arr)):
        info["malformed"] = f"output of shape {arr.shape}"
        return rec, info
    info["floats"] = arr.tolist()
    for c, s in zip(arr[0], arr[1]):
        qc, da, dr = to_rat(c)
        qs, dsa, dsr = to_rat(s)
        info["dev_abs"] = max(info["dev_abs"], da, dsa)
        info["dev_rel"] = max(info["dev_rel"], dr, dsr)
        rec["coeffs"].append(pair(qc))
        rec["shifts"].append(pair(qs))
    return rec, info


def run(tier, seed):
    max_n, max_a, max_r = (4, 4, 8) if tier == "quick" else (6, 6, 10)
    wd = lib.workdir(PID, "gen")
    g = lib.run_tlc("FiniteDiffGen", lib.cfg(constants={"MaxN": max_n, "MaxA": max_a, "MaxR": max_r, "PolyMaxR": 6},
                                             invariants=INVARIANTS), wd, timeout=3000)
    if g.invariant_violated:
        raise lib.MachineryError(f"FiniteDiff.tla: the solved rule violates {g.invariant_violated} (oracle error)\n" + g.out[-1500:])
    lib.require_ok(g, "FiniteDiffGen")
    combos = [(n, a, st) for n in range(1, max_n + 1) for a in range(1, max_a + 1) if n + a <= max_r for st in STRATEGIES]
    supported = [(n, a, st) for n, a, st in combos if st != "center" or a % 2 == 0]
    expected = {}
    for c in g.json_lines:
        rule = {Fraction(s): Fraction(*q) for s, q in zip(c["shifts"], c["coeffs"]) if q[0] != 0}
        expected[(c["n"], c["a"], c["st"])] = (rule, c)
    if sorted(expected) != sorted(supported):
        raise lib.MachineryError(f"generator emitted {len(expected)} rules, expected {len(supported)}")

    viol, records, meta = [], [], []
    worst_rel, worst_abs, beyond_strict = 0.0, 0.0, []
    for n, a, st in combos:
        rec, info = call_impl(n, a, st)
        key = f"{st}:n={n}:a={a}"
        if info["malformed"]:
            viol.append(Violation(key=f"malformed:{key}", detail=f"finite_diff_coeffs({n}, {a}, '{st}') returned {info['malformed']}",
                                  replay={"n": n, "a": a, "strategy": st}))
            continue
        if rec["exc"] == "":
            worst_rel, worst_abs = max(worst_rel, info["dev_rel"]), max(worst_abs, info["dev_abs"])
            if info["dev_abs"] > STRICT:
                beyond_strict.append({"case": key, "max_abs_deviation": info["dev_abs"], "max_rel_deviation": info["dev_rel"]})
            if info["dev_rel"] > TOL_REL:
                viol.append(Violation(key=f"roundtrip:{key}",
                                      detail=f"finite_diff_coeffs({n}, {a}, '{st}') = {info['floats']}: a coefficient/shift is not within "
                                             f"{TOL_REL:g} (relative) of a rational with denominator <= {MAX_DEN} (deviation {info['dev_rel']:.3g}); "
                                             "the exact rule has small rational coefficients",
                                      replay={"n": n, "a": a, "strategy": st, "output": info["floats"]}))
            if any(abs(s[0]) > 20 or s[1] > 20 for s in rec["shifts"]):
                raise lib.MachineryError(f"shifts of {key} outside the exact range of the trace spec: {info['floats']}")
        records.append(rec)
        meta.append((n, a, st, info))
    n_real = len(records)

    # controls built from the SPEC's rules: accepted as they are, rejected when corrupted
    def ctl(n, a, st, coeffs=None, shifts=None, a_claim=None):
        rule, c = expected[(n, a, st)]
        return {"n": n, "a": a_claim or a, "st": st, "coeffs": coeffs or c["coeffs"], "shifts": shifts or [[s, 1] for s in c["shifts"]], "exc": ""}
    r22 = expected[(2, 2, "forward")][1]
    pos = [("spec-rule-forward", ctl(2, 2, "forward")), ("spec-rule-center", ctl(3, 2, "center")), ("spec-rule-backward", ctl(1, 3, "backward"))]
    bumped = [list(q) for q in r22["coeffs"]]
    bumped[1] = pair(Fraction(*bumped[1]) + Fraction(1, 1000))
    neg = [("coefficient-off-by-1e-3", ctl(2, 2, "forward", coeffs=bumped)),
           ("shift-replaced", ctl(2, 2, "forward", shifts=[[0, 1], [1, 1], [2, 1], [4, 1]])),
           ("claims-one-order-more", ctl(2, 2, "forward", a_claim=3)),
           ("forward-coefficients-on-backward-shifts", ctl(1, 2, "forward", shifts=[[-s, 1] for s in expected[(1, 2, "forward")][1]["shifts"]])),
           ("wrong-derivative-order", dict(ctl(2, 2, "center"), n=1)),
           ("raise-on-supported", dict(ctl(1, 1, "forward"), coeffs=[], shifts=[], exc="ValueError"))]
    records += [r for _, r in pos] + [r for _, r in neg]
    wd2 = lib.workdir(PID, "trace")
    (wd2 / "traces.json").write_text(json.dumps(records))
    r = lib.run_tlc("Trace_FiniteDiff", lib.cfg(init="TInit", next_="TNext", constants={"NTRACES": len(records)}), wd2,
                    env={"TRACE_FILE": str(wd2 / "traces.json")}, timeout=3000)
    lib.require_ok(r, "Trace_FiniteDiff")
    verd = {t[1] - 1: (t[2], t[3]) for t in r.tuples if t[0] == "V"}
    if len(verd) != len(records):
        raise lib.MachineryError(f"verdicts not total: {len(verd)} of {len(records)}")
    for k, (name, _) in enumerate(pos):
        if verd[n_real + k][0] != "ok":
            raise lib.MachineryError(f"positive control {name} rejected: {verd[n_real + k]}")
    for k, (name, _) in enumerate(neg):
        if verd[n_real + len(pos) + k][0] in ("ok", "unsupported"):
            raise lib.MachineryError(f"negative control {name} accepted by Trace_FiniteDiff")

    n_ok = n_unsupported = n_cond = drift = exact_match = 0
    nontriv, samples, fractional, dropped_zero = set(), [], 0, 0
    for i, (n, a, st, info) in enumerate(meta):
        v, j = verd[i]
        key = f"{st}:n={n}:a={a}"
        rec = records[i]
        if v == "unsupported":
            n_unsupported += 1
            continue
        if v == "raised":
            viol.append(Violation(key=f"raised:{key}", detail=f"finite_diff_coeffs({n}, {a}, '{st}') raised {rec['exc']}: {info.get('msg', '')}",
                                  replay={"n": n, "a": a, "strategy": st}))
            continue
        got = {Fraction(*s): Fraction(*c) for c, s in zip(rec["coeffs"], rec["shifts"])}
        shown = {str(s): str(c) for s, c in sorted(got.items())}
        if v != "ok":
            what = f"sum_i c_i s_i^{j} != {'%d!' % n if j == n else 0}" if v == "moment-condition-fails" else v
            viol.append(Violation(key=f"{v}:{key}" + (f":j={j}" if j >= 0 else ""),
                                  detail=f"finite_diff_coeffs({n}, {a}, '{st}') -> shift:coefficient {shown}: {what}; the rule does not differentiate "
                                         f"x^{j} exactly although {j} < n + approx_order = {n + a}",
                                  replay={"n": n, "a": a, "strategy": st, "output": info["floats"], "rational": shown, "failing_moment": j}))
            continue
        n_ok += 1
        n_cond += n + a
        if (n, a, st) in expected:
            rule = expected[(n, a, st)][0]
            if {s: c for s, c in got.items() if c != 0} == rule:
                exact_match += 1
            else:
                drift += 1       # a different rule that still has the stated accuracy (only possible on a larger stencil)
            dropped_zero += any(q[0] == 0 for q in expected[(n, a, st)][1]["coeffs"])
        if len(got) >= 3:
            nontriv.add((n, a, st))
        fractional += any(c.denominator > 1 for c in got.values())
        if len(samples) < 4 and (n, a, st) in ((1, 2, "center"), (2, 3, "forward"), (3, 2, "center"), (4, 4, "backward")):
            samples.append({"n": n, "approx_order": a, "strategy": st, "shift:coefficient": shown, "moment_conditions_checked": n + a})
    if n_ok < 10 and not viol:
        raise lib.MachineryError("vacuous run")
    cov = {"states": g.distinct + r.distinct, "transitions": g.generated + r.generated,
           "traces_validated_against_impl": n_real, "evaluations": n_cond,
           "distinct_nontrivial": len(nontriv),
           "rule": f"every (n <= {max_n}, approx_order <= {max_a}, n + approx_order <= {max_r}, strategy); evaluations = moment conditions decided "
                   "by TLC on the implementation's coefficients; non-trivial = distinct combination whose reported rule has at least 3 sample points",
           "samples": samples, "exhaustive": True,
           "model": {"module": "FiniteDiff / FiniteDiffGen", "invariants": INVARIANTS, "states": g.distinct, "rules_solved": len(expected)},
           "combinations_called": len(combos), "rules_with_stated_accuracy": n_ok, "unsupported_center_odd_order": n_unsupported,
           "rules_identical_to_spec_solution": exact_match, "model_drift": drift,
           "rules_with_fractional_coefficients": fractional, "rules_where_a_zero_coefficient_is_dropped": dropped_zero,
           "float_bridge": {"tolerance_rel": TOL_REL, "max_rel_deviation": worst_rel, "max_abs_deviation": worst_abs,
                            "cases_with_deviation_above_1e-12": beyond_strict},
           "negative_controls_rejected": len(neg), "positive_controls_accepted": len(pos)}
    return CheckResult(coverage=cov, violations=viol, assumptions=[
        f"a reported float stands for the rational with denominator <= {MAX_DEN} nearest to it when it is within {TOL_REL:g} (relative); "
        "the moment conditions are decided exactly on those rationals (the exact rules in the bounds have denominators <= 240)",
        "centered rules of odd approximation order do not exist (symmetric stencils have even accuracy); the ValueError raised for "
        "them is counted as unsupported, any other exception is a violation",
        "monomials x^j, j < n + a, span the polynomials of degree < n + a (linearity); TLC additionally checks exactness on all 0/1 "
        "polynomials for the spec's own rules with n + a <= 6"])
