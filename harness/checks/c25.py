"""C25 Noise insertion and error mitigation follow their definitions (partial: the extrapolation clause is float-bridged).

(F) fold_global: spec/sys/Folding.tla transcribes the documented n / k arithmetic for every depth d <= 8 and every scale factor of
    a dyadic grid 1..5, TLC checks Reduces (the folded word freely reduces to the circuit: U_out = U_in for any gates), LenOK and
    Bracket (the folded length is one of the two achievable lengths bracketing lambda*d) and emits the folded words.  REPLAY:
    seeded random circuits of each depth are folded by qp.noise.fold_global; the output must be, position by position, the gate
    or the adjoint the emitted word names (floor or ceiling variant; ceiling when floor was documented = drift, counted);
    CircuitEq.tla (rel.validate 'exact') decides U(out) = U(in) exactly in the ring.
(N) add_noise / insert: spec/sys/NoiseIns.tla models conditional evaluation (op type / wires / parameter predicates, and/or/xor/
    not), noise placement (per-wire partials, noise functions, custom queuing around the operation), readout noise per
    measurement and insert's positions; spec/gen/NoiseGen.tla enumerates circuits x models x settings and emits the expected
    operation lists; REPLAY compares qp.add_noise / qp.noise.insert outputs exactly.  Zero-strength noise: the noisy tapes run on
    default.mixed must give the exact noiseless values (TapeEval.tla).
(Z) mitigate_with_zne on a noiseless device returns the exact value; its tapes are the folded circuits.
(E) bridged: spec/gen/ExtrapGen.tla emits exact polynomial / exponential data with f(0) (invariant: Lagrange interpolation at 0
    gives c_0); poly_extrapolate, richardson_extrapolate, exponential_extrapolate are compared in floats at 1e-8."""
import json
import math
import random

import numpy as np

import pennylane as qp

from .. import devsim, lib, rel, tapeeval
from ..codec import OffLattice, decode_gate, encode_ops, rec, wire_positions
from ..lib import CheckResult, Violation

M = 4
UNIT = 4.0 * math.pi / (1 << M)
STR_LABELS = ["a", "b", "c", "d"]
CHANNELS = ["AmplitudeDamping", "PhaseDamping", "DepolarizingChannel", "BitFlip", "PhaseFlip"]


def tla(x):
    """Python value -> TLA+ expression"""
    if isinstance(x, bool):
        return "TRUE" if x else "FALSE"
    if isinstance(x, int):
        return str(x)
    if isinstance(x, str):
        return json.dumps(x)
    if isinstance(x, (list, tuple)):
        return "<<" + ", ".join(tla(v) for v in x) + ">>"
    if isinstance(x, dict):
        return "[" + ", ".join(f"{k} |-> {tla(v)}" for k, v in x.items()) + "]"
    raise TypeError(x)


# ================================================================================================ (F) folding
def run_folding(tier, seed, viol, cov):
    den = 4 if tier == "quick" else 8
    reps = 1 if tier == "quick" else 3
    wd = lib.workdir("C25", "fold")
    g = lib.run_tlc("Folding", lib.cfg(constants={"MaxD": 8, "Den": den, "MaxScale": 5}, invariants=["Reduces", "LenOK", "Bracket"]), wd, timeout=3000)
    if g.invariant_violated:
        raise lib.MachineryError(f"Folding.tla violates its own invariant {g.invariant_violated}")
    lib.require_ok(g, "Folding")
    rows = sorted(g.json_lines, key=lambda r: (r["d"], r["q"]))
    if len(rows) != 8 * (4 * den + 1):
        raise lib.MachineryError(f"Folding table incomplete: {len(rows)} rows")
    rng = random.Random(2500 + seed)
    cases, meta = [], []
    drift, n_struct, samples, nontriv = 0, 0, [], set()
    for row in rows:
        for rep in range(reps):
            d, q = row["d"], row["q"]
            n = rng.choice([2, 3])
            circ = devsim.random_circuit(rng, n, M, d, ["g1", "r1", "g2", "r2", "r1", "g2", "adj", "pow"])
            ops = [decode_gate(gr, M) for gr in circ]
            tape = qp.tape.QuantumScript(ops, [qp.expval(qp.Z(0))])
            lam = q / den
            scale = int(lam) if (q % den == 0 and (d + q + rep) % 2 == 0) else lam
            desc = {"ops": [str(o) for o in ops], "scale_factor": scale}
            try:
                [out], fn = qp.noise.fold_global(tape, scale)
            except Exception as e:
                viol.append(Violation(key=f"fold:exception:{type(e).__name__}", detail=f"{type(e).__name__}: {e} on {desc}", replay=desc))
                continue
            oo = out.operations
            which = None
            for name in ("wfloor", "wceil"):
                w = row[name]
                if len(w) == len(oo) and all(_same_fold(o, ops[abs(e) - 1], e < 0) for o, e in zip(oo, w)):
                    which = name
                    break
            n_struct += 1
            if which is None:
                viol.append(Violation(key=f"fold:gate-count-or-order:d={d}:scale={lam}",
                                      detail=f"fold_global(d={d}, scale={scale}) returned {len(oo)} gates {[str(o) for o in oo]}; the definition gives "
                                             f"n={row['n']} and k in {{{row['kfloor']},{row['kceil']}}}: lengths {len(row['wfloor'])} / {len(row['wceil'])}",
                                      replay=dict(desc, row=row)))
            else:
                if which == "wceil" and row["kfloor"] != row["kceil"]:
                    drift += 1
                    if not any(s.get("drift") for s in samples) and len(samples) < 4:
                        samples.append({"drift": "documented floor, implementation rounds up", "d": d, "scale_factor": scale,
                                        "k_documented": row["kfloor"], "k_implementation": row["kceil"], "gates_out": len(oo)})
                if len(oo) > d:
                    nontriv.add((d, q, rep))
            if list(out.measurements) != list(tape.measurements):
                viol.append(Violation(key="fold:measurements-changed", detail=f"measurements {out.measurements} on {desc}", replay=desc))
            try:
                wpos = wire_positions(list(range(n)))
                a = encode_ops(ops, wpos, M)
                b = encode_ops(oo, wpos, M)
            except OffLattice as e:
                raise lib.MachineryError(f"cannot encode folded circuit: {e}")
            cases.append({"n": n, "a": a, "bs": [{"b": b, "rel": "exact"}]})
            meta.append(dict(desc, d=d, q=q, out=[str(o) for o in oo]))
            if len(samples) < 2 and row["n"] >= 1 and 0 < row["kfloor"] < d:
                samples.append(dict(desc, folded=[str(o) for o in oo], n=row["n"], k=row["kfloor"]))
    # negative controls (hand-written): a circuit that is NOT folded correctly must be rejected by CircuitEq
    neg = [{"n": 2, "a": [rec("RX", [1], [3]), rec("CNOT", [1, 2])],
            "bs": [{"b": [rec("RX", [1], [3]), rec("CNOT", [1, 2]), rec("CNOT", [1, 2]), rec("RX", [1], [3], mods=[{"t": "adj"}])], "rel": "exact"}]},
           {"n": 1, "a": [rec("S", [1])], "bs": [{"b": [rec("S", [1]), rec("S", [1]), rec("S", [1])], "rel": "exact"}]}]
    verd, _, st = rel.validate("C25", cases + neg, M, name="foldrel")
    for j in range(len(neg)):
        if verd[(len(cases) + j, 0)] == "ok":
            raise lib.MachineryError("negative control accepted: CircuitEq took a wrongly folded circuit for equivalent")
    for j, mt in enumerate(meta):
        v = verd[(j, 0)]
        if v == "overflow":
            raise lib.MachineryError("ring overflow in CircuitEq")
        if v != "ok":
            viol.append(Violation(key=f"fold:unitary-changed:{v}", detail=f"fold_global output is not the same unitary ({v}): {mt}", replay=mt))
    cov["folding"] = {"table_rows": len(rows), "grid_denominator": den, "circuits_folded": n_struct, "unitary_equalities_decided": len(cases),
                      "documented_floor_but_rounded_up": drift, "invariants": ["Reduces", "LenOK", "Bracket"]}
    cov["samples"] += samples
    return g.distinct + st["distinct"], g.generated + st["generated"], len(cases), n_struct + len(cases), {("fold",) + x for x in nontriv}, 2


def _same_fold(o, base, adj):
    """o is `base` (adj = False) or its adjoint, by wires and matrix"""
    if set(o.wires) != set(base.wires):
        return False
    wo = list(base.wires)
    mb = qp.matrix(base, wire_order=wo)
    mo = qp.matrix(o, wire_order=wo)
    return np.allclose(mo, mb.conj().T if adj else mb, atol=1e-10)


# ================================================================================================ (N) noise insertion
def op_rec(g, w, a=0, prep=False):
    return {"k": "op", "g": g, "w": list(w), "a": a, "np": 1 if g in ("RX", "RY", "RZ") else 0, "prep": prep, "pw": []}


def meas_rec(g, w, pw=()):
    return {"k": "meas", "g": g, "w": list(w), "a": 0, "np": 0, "prep": False, "pw": list(pw)}


def atom(t, g=(), ws=(), th=0):
    return {"t": t, "g": list(g), "ws": list(ws), "th": th, "l": [], "r": []}


def comb(t, l, r=None):
    return {"t": t, "g": [], "ws": [], "th": 0, "l": l, "r": r if r is not None else []}


def pools(tier, seed):
    rng = random.Random(2550 + seed)
    insts = [op_rec("RX", [1], 2), op_rec("RX", [2], 5), op_rec("RY", [1], 3), op_rec("Hadamard", [2]), op_rec("CNOT", [1, 2]), op_rec("CZ", [3, 1]),
             op_rec("RZ", [3], 7), op_rec("PauliX", [3])]
    longs = [[op_rec("RX", [1], 2), op_rec("RY", [2], 3), op_rec("CNOT", [1, 2]), op_rec("RY", [1], 5), op_rec("RX", [2], 6)],
             [op_rec("Hadamard", [1]), op_rec("CNOT", [1, 2]), op_rec("CNOT", [2, 3]), op_rec("RZ", [3], 4), op_rec("CZ", [3, 1]), op_rec("RX", [2], 9)],
             [op_rec("PauliX", [3]), op_rec("RX", [3], 1), op_rec("CNOT", [3, 2]), op_rec("Hadamard", [2]), op_rec("RY", [1], 11)]]
    gates1 = [("RX", 1), ("RY", 1), ("RZ", 1), ("Hadamard", 1), ("PauliX", 1), ("CNOT", 2), ("CZ", 2)]
    extra = []
    for _ in range(rng.randint(5, 7)):
        g, ar = rng.choice(gates1)
        extra.append(op_rec(g, rng.sample([1, 2, 3], ar), rng.randint(1, 15)))
    longs.append(extra)
    atoms = [atom("opeq", ["RX"]), atom("opeq", ["CNOT"]), atom("opin", ["RX", "RY"]), atom("win", ws=[1, 2]), atom("weq", ws=[1]), atom("pgt", th=2),
             atom("opin", ["Hadamard", "CZ", "PauliX"]), atom("win", ws=[2, 3]), atom("weq", ws=[2, 1]), atom("pgt", th=5)]
    if tier == "quick":
        insts = insts[:6]
        n_pairs, n_deep = 9, 5
    else:
        n_pairs, n_deep = 20, 14
    conds = list(atoms)
    pairs = [(i, j) for i in range(len(atoms)) for j in range(i + 1, len(atoms))]
    rng.shuffle(pairs)
    for i, j in pairs[:n_pairs]:
        conds.append(comb("and", atoms[i], atoms[j]))
    rng.shuffle(pairs)
    for i, j in pairs[:n_pairs]:
        conds.append(comb("or", atoms[i], atoms[j]))
    conds += [comb("not", a) for a in atoms[:6 if tier == "quick" else 10]]
    rng.shuffle(pairs)
    for i, j in pairs[:4]:
        conds.append(comb("xor", atoms[i], atoms[j]))
    for _ in range(n_deep):
        a, b, c = rng.sample(atoms, 3)
        conds.append(comb(rng.choice(["and", "or"]), comb(rng.choice(["and", "or", "xor"]), a, b), comb("not", c) if rng.random() < 0.5 else c))
    noises = [{"k": "pw", "ch": "AmplitudeDamping", "ch2": ""}, {"k": "first", "ch": "DepolarizingChannel", "ch2": ""},
              {"k": "around", "ch": "BitFlip", "ch2": "PhaseFlip"}]
    pair_entries = [{"c": a, "nz": nz} for a in atoms[:6] for nz in (noises[0], noises[2])]
    pair_entries[3]["nz"] = {"k": "pw", "ch": "PhaseDamping", "ch2": ""}
    meas_lists = [[meas_rec("expval", [1, 2], [3, 3, 0])],
                  [meas_rec("expval", [1], [1, 0, 0]), meas_rec("probs", [2, 3]), meas_rec("expval", [3], [0, 0, 3])],
                  [meas_rec("probs", [1]), meas_rec("expval", [2, 3], [0, 2, 3]), meas_rec("expval", [1], [3, 0, 0]), meas_rec("expval", [2, 3], [0, 1, 1])]]
    pf = {"k": "pw", "ch": "PhaseFlip", "ch2": ""}
    bf = {"k": "pw", "ch": "BitFlip", "ch2": ""}
    mmodels = [[{"c": atom("meq", ["expval"]), "nz": pf}],
               [{"c": comb("and", atom("meq", ["expval"]), atom("win", ws=[1, 2])), "nz": bf}],
               [{"c": atom("meq", ["probs"]), "nz": pf}, {"c": atom("win", ws=[3]), "nz": bf}],
               [{"c": atom("meq", ["expval"]), "nz": bf}, {"c": comb("and", atom("meq", ["expval"]), atom("weq", ws=[3])), "nz": pf}],
               [{"c": comb("not", atom("meq", ["expval"])), "nz": bf}],
               [{"c": comb("or", atom("weq", ws=[1]), atom("weq", ws=[2, 3])), "nz": {"k": "pw", "ch": "AmplitudeDamping", "ch2": ""}}]]
    gate_models = [[], [pair_entries[0]], [pair_entries[5], pair_entries[2]]]
    prep = op_rec("BasisState", [1], 0, prep=True)
    ins_circs = longs + [[prep] + longs[0], [op_rec("BasisState", [1, 3], 0, prep=True)] + longs[2]] + [[o] for o in insts]
    ins_cfgs = []
    for nz in (["AmplitudeDamping"], ["RX", "PhaseShift"]):
        for pos in ("start", "end", "all"):
            ins_cfgs.append({"pos": pos, "types": [], "before": False, "nz": nz})
        for types in (["RX"], ["CNOT"], ["RX", "CNOT"], ["Hadamard", "RY", "CZ"]):
            for before in (False, True):
                ins_cfgs.append({"pos": "types", "types": types, "before": before, "nz": nz})
    ins_meas = [meas_rec("expval", [1, 2], [3, 3, 0]), meas_rec("probs", [3])]
    return {"Insts": insts, "Longs": longs, "Conds": conds, "Noises": noises, "PairEntries": pair_entries, "MeasLists": meas_lists,
            "MModels": mmodels, "GateModels": gate_models, "InsCircs": ins_circs, "InsCfgs": ins_cfgs, "InsMeas": ins_meas}


class Builder:
    """TLC-emitted case -> PennyLane objects"""

    def __init__(self, variant, strength):
        self.labels = STR_LABELS[:3] if variant % 3 == 1 else [0, 1, 2]
        self.variant = variant
        self.s = strength

    def lab(self, ws):
        return [self.labels[w - 1] for w in ws]

    def op(self, o):
        if o["g"] == "BasisState":
            return qp.BasisState(np.ones(len(o["w"]), dtype=int), wires=self.lab(o["w"]))
        cls = getattr(qp, o["g"])
        return cls(o["a"] * UNIT, wires=self.lab(o["w"])) if o["np"] else cls(wires=self.lab(o["w"]))

    def meas(self, m):
        if m["g"] == "probs":
            return qp.probs(wires=self.lab(m["w"]))
        return qp.expval(devsim.word_op(m["pw"], self.labels))

    def cond(self, c, salt=0):
        t = c["t"]
        if t == "opeq":
            g = c["g"][0]
            return qp.noise.op_eq([g, getattr(qp, g)][(self.variant + salt) % 2])
        if t == "opin":
            return qp.noise.op_in([[g, getattr(qp, g)][(self.variant + i) % 2] for i, g in enumerate(c["g"])])
        if t == "win":
            return qp.noise.wires_in(self.lab(c["ws"]))
        if t == "weq":
            ws = self.lab(c["ws"])
            return qp.noise.wires_eq(ws[0] if len(ws) == 1 and self.variant % 2 else ws)
        if t == "pgt":
            thr = (c["th"] + 0.5) * UNIT
            return qp.BooleanFn(lambda op, thr=thr: len(getattr(op, "parameters", ())) > 0 and float(op.parameters[0]) > thr)
        if t == "meq":
            return qp.noise.meas_eq({"expval": qp.expval, "probs": qp.probs, "var": qp.var}[c["g"][0]])
        if t == "not":
            return ~self.cond(c["l"], salt + 1)
        l, r = self.cond(c["l"], salt + 1), self.cond(c["r"], salt + 2)
        return {"and": l & r, "or": l | r, "xor": l ^ r}[t]

    def noise(self, nz):
        s = self.s
        ch = getattr(qp, nz["ch"])
        if nz["k"] == "pw":
            return qp.noise.partial_wires(ch, s)
        if nz["k"] == "first":
            def first(op, **kwargs):
                ch(s, wires=op.wires[0])
            return first
        ch2 = getattr(qp, nz["ch2"])

        def around(op, **kwargs):
            ch(s, wires=op.wires[0])
            qp.apply(op)
            ch2(s, wires=op.wires[-1])
        return around

    def model(self, entries, mentries):
        mm = {self.cond(e["c"], i): self.noise(e["nz"]) for i, e in enumerate(entries)}
        me = {self.cond(e["c"], i): self.noise(e["nz"]) for i, e in enumerate(mentries)}
        if len(mm) != len(entries) or len(me) != len(mentries):
            raise lib.MachineryError("conditionals collapsed in the model map")
        return qp.NoiseModel(mm, me) if me else qp.NoiseModel(mm)

    def ins_op(self, nz):
        if len(nz) == 1:
            return getattr(qp, nz[0]), self.s
        s = self.s

        def fn(x, y, wires):
            qp.RX(x, wires=wires)
            qp.PhaseShift(y, wires=wires)
        return fn, [s, s / 2]

    def position(self, cfg):
        if cfg["pos"] != "types":
            return cfg["pos"]
        ts = [getattr(qp, g) for g in cfg["types"]]
        return ts[0] if len(ts) == 1 and self.variant % 2 else ts


def match_ops(out_ops, exp, in_ops, b):
    if len(out_ops) != len(exp):
        return f"{len(out_ops)} operations, expected {len(exp)}"
    for t, (o, e) in enumerate(zip(out_ops, exp)):
        if e["src"] > 0:
            src = in_ops[e["src"] - 1]
            if not (o is src or qp.equal(o, src)):
                return f"position {t}: {o} instead of the circuit's {src}"
        else:
            if o.name != e["g"] or list(o.wires) != b.lab(e["w"]):
                return f"position {t}: {o} instead of {e['g']} on {b.lab(e['w'])}"
    return None


def gate_records(circ):
    out = []
    for o in circ:
        if o["g"] == "BasisState":
            out += [rec("PauliX", [w]) for w in o["w"]]
        else:
            out.append(rec(o["g"], o["w"], [o["a"]] if o["np"] else []))
    return out


def run_noise(tier, seed, viol, cov):
    P = pools(tier, seed)
    wd = lib.workdir("C25", "noise")
    g = lib.run_tlc_mc("NoiseGen", {k: tla(v) for k, v in P.items()}, wd, invariants=["KeepsCircuit"], timeout=6000)
    if g.invariant_violated:
        raise lib.MachineryError(f"NoiseIns model violates its own invariant {g.invariant_violated}")
    lib.require_ok(g, "NoiseGen")
    cases = g.json_lines
    nI, nL = len(P["Insts"]), len(P["Longs"])
    want = ((nI + nI * nI + nL) * len(P["Conds"]) * len(P["Noises"]) + (nI + nL) * len(P["PairEntries"]) * (len(P["PairEntries"]) - 1)
            + nL * len(P["MeasLists"]) * len(P["MModels"]) * len(P["GateModels"]) + len(P["InsCircs"]) * len(P["InsCfgs"]))
    if len(cases) != want:
        raise lib.MachineryError(f"NoiseGen emitted {len(cases)} cases, expected {want}")
    cases.sort(key=lambda c: json.dumps(c, sort_keys=True))
    rng = random.Random(2560 + seed)
    kinds = {"add1": 0, "add2": 0, "addm": 0, "ins": 0}
    n_eval, nontriv, samples = 0, set(), []
    zero_jobs = []                      # (case index, kind) for the zero-strength execution
    hits_total = 0
    neg_done = 0
    for ci, c in enumerate(cases):
        b = Builder(ci, 0.1 + 0.05 * (ci % 3))
        in_ops = [b.op(o) for o in c["circ"]]
        kind = c["kind"]
        kinds[kind] += 1
        desc = {"kind": kind, "ops": [str(o) for o in in_ops]}
        try:
            if kind == "ins":
                ms = [b.meas(m) for m in c["meas"]]
                tape = qp.tape.QuantumScript(in_ops, ms)
                op, args = b.ins_op(c["cfg"]["nz"])
                desc.update(position=str(c["cfg"]["pos"] if c["cfg"]["pos"] != "types" else c["cfg"]["types"]), before=c["cfg"]["before"], op=c["cfg"]["nz"])
                [out], _ = qp.noise.insert(tape, op, args, position=b.position(c["cfg"]), before=c["cfg"]["before"])
                err = match_ops(out.operations, c["exp"], in_ops, b)
                outs = [(out, None)]
            else:
                ms = [b.meas(m) for m in c["meas"]] or [qp.expval(qp.Z(b.labels[c["circ"][0]["w"][0] - 1]))]
                tape = qp.tape.QuantumScript(in_ops, ms)
                nm = b.model(c["model"], c["mmodel"])
                desc.update(model=repr(nm))
                tapes, fn = qp.add_noise(tape, nm)
                err = None
                if not c["meas"]:
                    if len(tapes) != 1:
                        err = f"{len(tapes)} tapes for a model without readout noise"
                    else:
                        err = match_ops(tapes[0].operations, c["exp"], in_ops, b)
                else:
                    for mi, m in enumerate(ms):
                        holders = [t for t in tapes if any(x is m for x in t.measurements)]
                        if len(holders) != 1:
                            err = f"measurement {m} is in {len(holders)} output tapes"
                            break
                        err = match_ops(holders[0].operations, c["exp"] + c["rexp"][mi], in_ops, b)
                        if err:
                            err = f"tape of {m}: {err}"
                            break
                    if err is None and sum(len(t.measurements) for t in tapes) != len(ms):
                        err = "measurements duplicated over the output tapes"
        except Exception as e:
            viol.append(Violation(key=f"{kind}:exception:{type(e).__name__}", detail=f"{type(e).__name__}: {e} on {desc}", replay={"case": c}))
            continue
        n_eval += 1
        ninserted = sum(1 for e in c["exp"] if e["src"] == 0) + sum(len(r) for r in c["rexp"])
        hits_total += ninserted
        if err:
            tag = c["cfg"]["pos"] + (":before" if c["cfg"]["before"] else "") if kind == "ins" else \
                "+".join(sorted({e["nz"]["k"] for e in c["model"]})) + (":readout" if c["mmodel"] else "")
            viol.append(Violation(key=f"{kind}:wrong-insertion:{tag}", detail=f"{err}; {desc}; expected {[(e['g'], e['w'], e['src']) for e in c['exp']]}",
                                  replay={"case": c}))
            continue
        if ninserted:
            nontriv.add((kind, ci))
            if len(samples) < 3 and len(c["circ"]) >= 4 and ninserted >= 3 and kind not in {s["kind"] for s in samples}:
                o0 = outs[0][0] if kind == "ins" else tapes[0]
                samples.append(dict(desc, output=[str(o) for o in o0.operations]))
        # negative control: the comparator must reject a corrupted expectation (hand-made corruption of the EXPECTED list)
        if neg_done < 3 and ninserted >= 2 and kind != "addm":
            badexp = [dict(e) for e in c["exp"]]
            k0 = next(i for i, e in enumerate(badexp) if e["src"] == 0)
            badexp[k0], badexp[k0 - 1 if k0 else 1] = badexp[k0 - 1 if k0 else 1], badexp[k0]
            o0 = outs[0][0] if kind == "ins" else tapes[0]
            if badexp != c["exp"]:
                if match_ops(o0.operations, badexp, in_ops, b) is None:
                    raise lib.MachineryError("negative control accepted: swapped expected operations still match")
                neg_done += 1
        if kind == "addm" or (ninserted and rng.random() < (0.03 if kind == "add1" else 0.08)) or (kind == "ins" and rng.random() < 0.5):
            zero_jobs.append(ci)
    if neg_done < 3:
        raise lib.MachineryError("negative controls not exercised")
    # ---- zero-strength noise leaves the results unchanged (default.mixed vs exact noiseless values)
    tcases, keymap = [], {}
    for ci in zero_jobs:
        c = cases[ci]
        ms = c["meas"] or [meas_rec("expval", [c["circ"][0]["w"][0]], [3 if w == c["circ"][0]["w"][0] else 0 for w in (1, 2, 3)])]
        key = json.dumps([c["circ"], ms])
        if key not in keymap:
            keymap[key] = len(tcases)
            tcases.append({"n": 3, "ops": gate_records(c["circ"]),
                           "meas": [{"t": "expval", "pw": m["pw"]} if m["g"] == "expval" else {"t": "probs", "w": m["w"]} for m in ms]})
    res, stats = tapeeval.evaluate("C25", tcases, M, name="zero")
    n_zero = 0
    dev = {}
    for ci in zero_jobs:
        c = cases[ci]
        b = Builder(ci, 0.0)
        in_ops = [b.op(o) for o in c["circ"]]
        msr = c["meas"] or [meas_rec("expval", [c["circ"][0]["w"][0]], [3 if w == c["circ"][0]["w"][0] else 0 for w in (1, 2, 3)])]
        ms = [b.meas(m) for m in msr]
        tape = qp.tape.QuantumScript(in_ops, ms)
        exp = res[keymap[json.dumps([c["circ"], msr])]]["meas"]
        try:
            if c["kind"] == "ins":
                op, args = b.ins_op(c["cfg"]["nz"])
                tapes, fn = qp.noise.insert(tape, op, args, position=b.position(c["cfg"]), before=c["cfg"]["before"])
            else:
                tapes, fn = qp.add_noise(tape, b.model(c["model"], c["mmodel"]))
            d = dev.setdefault(tuple(b.labels), qp.device("default.mixed", wires=b.labels))
            got = fn(qp.execute(list(tapes), d, diff_method=None))
        except Exception as e:
            viol.append(Violation(key=f"zero:exception:{type(e).__name__}", detail=f"{type(e).__name__}: {e} on {[str(o) for o in in_ops]}", replay={"case": c}))
            continue
        got = got if isinstance(got, tuple) else (got,)
        n_zero += 1
        if len(got) != len(exp) or not all(devsim.close(gv, ev, 1e-8) for gv, ev in zip(got, exp)):
            viol.append(Violation(key=f"zero:{c['kind']}:result-changed",
                                  detail=f"zero-strength noise changed the result: {[np.asarray(x).round(6).tolist() for x in got]} vs noiseless "
                                         f"{[np.asarray(x).round(6).tolist() for x in exp]} on {[str(o) for o in in_ops]} {[str(m) for m in ms]}",
                                  replay={"case": c}))
    if devsim.close(np.array([0.5, 0.5]), np.array([0.5, 0.5 + 1e-6]), 1e-8):
        raise lib.MachineryError("negative control accepted by the float comparator")
    cov["noise_insertion"] = {"cases_by_kind": kinds, "conditionals": len(P["Conds"]), "circuits": nI + nI * nI + nL, "operations_inserted": hits_total,
                              "zero_strength_executions": n_zero, "negative_controls_rejected": neg_done + 1, "invariants": ["KeepsCircuit"]}
    cov["samples"] += samples
    return g.distinct + stats["distinct"], g.generated + stats["generated"], n_eval, n_eval + n_zero, nontriv, neg_done + 1


# ================================================================================================ (Z) ZNE on a noiseless device
def run_zne(tier, seed, viol, cov):
    rng = random.Random(2570 + seed)
    n_cases = 6 if tier == "quick" else 40
    tcases, jobs = [], []
    for _ in range(n_cases):
        n = rng.choice([2, 3])
        circ = devsim.random_circuit(rng, n, M, rng.randint(3, 6), ["g1", "r1", "g2", "r2"])
        pws = [[rng.randint(1, 3) for _ in range(n)] for _ in range(rng.choice([1, 2]))]
        tcases.append({"n": n, "ops": circ, "meas": [{"t": "expval", "pw": pw} for pw in pws]})
        jobs.append((n, circ, pws))
    res, stats = tapeeval.evaluate("C25", tcases, M, name="zne")
    n_ok = 0
    for (n, circ, pws), r in zip(jobs, res):
        ops = [decode_gate(g, M) for g in circ]
        tape = qp.tape.QuantumScript(ops, [qp.expval(devsim.word_op(pw, list(range(n)))) for pw in pws])
        sfs = rng.choice([[1, 2, 3], [1.0, 1.5, 2.0, 3.0], [1, 3, 5]])
        ext, kw = rng.choice([(qp.noise.richardson_extrapolate, {}), (qp.noise.poly_extrapolate, {"order": 1}), (qp.noise.poly_extrapolate, {"order": 2})])
        desc = {"ops": [str(o) for o in ops], "scale_factors": sfs, "extrapolate": ext.__name__, "kwargs": kw}
        try:
            tapes, fn = qp.noise.mitigate_with_zne(tape, sfs, qp.noise.fold_global, ext, extrapolate_kwargs=kw)
            got = fn(qp.execute(list(tapes), qp.device("default.qubit"), diff_method=None))
        except Exception as e:
            viol.append(Violation(key=f"zne:exception:{type(e).__name__}", detail=f"{type(e).__name__}: {e} on {desc}", replay=desc))
            continue
        got = got if isinstance(got, tuple) else (got,)
        ok = len(tapes) == len(sfs) and len(got) == len(pws) and all(abs(float(gv) - ev) <= 1e-7 for gv, ev in zip(got, r["meas"]))
        for t, s in zip(tapes, sfs):
            [ft], _ = qp.noise.fold_global(tape, s)
            ok = ok and len(ft.operations) == len(t.operations) and all(qp.equal(x, y) for x, y in zip(ft.operations, t.operations))
        if not ok:
            viol.append(Violation(key="zne:noiseless-result-differs", detail=f"mitigate_with_zne on a noiseless device gives {got}, exact {r['meas']} ({len(tapes)} tapes): {desc}",
                                  replay=desc))
        else:
            n_ok += 1
    cov["zne_noiseless"] = {"cases": n_cases, "ok": n_ok}
    return stats["distinct"], stats["generated"], n_cases, n_cases, {("zne", i) for i in range(n_ok)}, 0


# ================================================================================================ (E) extrapolation (bridged)
def run_extrap(tier, seed, viol, cov):
    rng = random.Random(2580 + seed)
    coefs = sorted(rng.sample([-5, -3, -2, -1, 1, 2, 3, 4, 7], 3 if tier == "quick" else 4) + [0])
    consts = {"MaxDeg": 3, "Coefs": "{" + ", ".join(map(str, coefs)) + "}", "Den": 4}
    defs = {"XSets": tla([[4, 8, 12, 16], [4, 6, 8, 12, 20], [4, 12, 20], [5, 8], [4, 5, 6, 7, 9]]),
            "As": "{-3, -1, 2, 5}", "Bs": "{1, 2}", "Cs": "{0, 1, -2}", "EXSets": tla([[1, 2, 3], [1, 3, 5], [1, 2, 3, 4]]), "Coefs": consts.pop("Coefs")}
    wd = lib.workdir("C25", "extrap")
    g = lib.run_tlc_mc("ExtrapGen", defs, wd, constants=consts, invariants=["Lagrange", "ExpModel"], timeout=3000)
    if g.invariant_violated:
        raise lib.MachineryError(f"ExtrapGen violates {g.invariant_violated}")
    lib.require_ok(g, "ExtrapGen")
    rows = sorted(g.json_lines, key=lambda r: json.dumps(r, sort_keys=True))
    if len(rows) < 200:
        raise lib.MachineryError("ExtrapGen emitted too few data sets")
    fl = lambda q: q[0] / q[1]
    n_cmp, worst, nontriv = 0, 0.0, set()
    for ri, r in enumerate(rows):
        x = np.array([fl(q) for q in r["xs"]])
        y = np.array([fl(q) for q in r["ys"]])
        f0 = fl(r["f0"])
        tol = 1e-8 * max(1.0, float(np.max(np.abs(y))))
        calls = []
        if r["kind"] == "poly":
            for order in range(r["deg"], min(len(x) - 1, r["deg"] + 1) + 1):
                calls.append((f"poly_extrapolate(order={order})", lambda order=order: qp.noise.poly_extrapolate(x, y, order)))
            calls.append(("richardson_extrapolate", lambda: qp.noise.richardson_extrapolate(x[:r["deg"] + 1 + ri % 2], y[:r["deg"] + 1 + ri % 2])))
        else:
            asym = fl(r["asym"])
            calls.append((f"exponential_extrapolate(asymptote={asym})", lambda asym=asym: qp.noise.exponential_extrapolate(x, y, asymptote=asym)))
            if asym == 0:
                calls.append(("exponential_extrapolate()", lambda: qp.noise.exponential_extrapolate(x, y)))
        for name, call in calls:
            desc = {"function": name, "x": x.tolist(), "y": y.tolist(), "exact_f0": f0, "generating": {"kind": r["kind"], "c": r["c"], "b": r["b"]}}
            try:
                got = float(call())
            except Exception as e:
                viol.append(Violation(key=f"extrapolate:exception:{type(e).__name__}", detail=f"{type(e).__name__}: {e} on {desc}", replay=desc))
                continue
            n_cmp += 1
            worst = max(worst, abs(got - f0) / max(1.0, float(np.max(np.abs(y)))))
            if not abs(got - f0) <= tol:
                viol.append(Violation(key=f"extrapolate:{name.split('(')[0]}:{r['kind']}-data-not-exact", detail=f"{name} gives {got!r}, data follow the model with f(0) = {f0!r}: {desc}",
                                      replay=desc))
            elif r["deg"] >= 1 or r["kind"] == "exp":
                nontriv.add(("ext", ri, name))
    if abs((1.0 + 1e-6) - 1.0) <= 1e-8:
        raise lib.MachineryError("float comparator negative control accepted")
    cov["extrapolation_bridged"] = {"data_sets": len(rows), "comparisons": n_cmp, "worst_relative_error": worst, "coefficients": coefs,
                                    "invariants": ["Lagrange", "ExpModel"]}
    return g.distinct, g.generated, 0, n_cmp, nontriv, 1


def run(tier, seed):
    viol = []
    cov = {"samples": []}
    tot = [0, 0, 0, 0, set(), 0]
    for part in (run_folding, run_noise, run_zne, run_extrap):
        st, tr, ntr, nev, nt, neg = part(tier, seed, viol, cov)
        tot[0] += st
        tot[1] += tr
        tot[2] += ntr
        tot[3] += nev
        tot[4] |= nt
        tot[5] += neg
    if len(tot[4]) < 200:
        raise lib.MachineryError(f"vacuous: only {len(tot[4])} non-trivial cases")
    cov.update({"states": tot[0], "transitions": tot[1], "traces_validated_against_impl": tot[2], "evaluations": tot[3],
                "distinct_nontrivial": len(tot[4]),
                "rule": "non-trivial = folded circuits longer than the input whose word and unitary were decided; add_noise/insert cases with at "
                        "least one inserted operation whose full output list matched; ZNE cases; extrapolation data of degree >= 1 or exponential",
                "exhaustive": True, "negative_controls_rejected": tot[5], "ring_level_M": M,
                "exhaustive_note": "folding table: all d <= 8 x all grid scale factors; noise: all circuits x models of the pools; circuits/gates seeded"})
    cov["samples"] = cov["samples"][:5]
    return CheckResult(coverage=cov, violations=viol, assumptions=[
        "partial: extrapolation exactness is a float comparison at 1e-8 against TLC-generated exact data (decaying exponentials with the asymptote given)",
        "gate count 'matching the scale factor' = one of the two achievable lengths bracketing lambda*d; the documented floor vs. the implemented "
        "rounding is reported as drift (documented_floor_but_rounded_up)",
        "insert with position='all' is only used with before=False; conditionals are evaluated on the gate alphabet RX RY RZ H X CNOT CZ over 3 wires"])
