"""C33 Device preprocessing yields executable, equivalent circuits.

(M) spec/trace/Trace_Preprocess.tla states the property as the enabling condition of one action per call
    Preprocess(device, configuration, tape): either the call raised one of the documented rejection classes, or every
    operation / observable / measurement of every output tape satisfies the DEVICE'S OWN acceptance predicate (stopping
    condition of its decompose step, observable / measurement validators), acts on device wires only, and the post-processing
    applied to the exact results of the output tapes equals the exact result of the input tape (MeasSplit.Recombine:
    "never silently altered").  The exact values come from spec/trace/TapeEval.tla (mid-circuit measurement = branching).
(R) REPLAY / TRACE: seeded programs (reference-table gates incl. QFT, MultiControlledX, adjoint / pow / controlled wrappers,
    BasisState and StatePrep at the start and mid-circuit, mid-circuit measurements with reset and conditioned operations,
    Hermitian / Projector / sum observables, var, probs, unsupported measurements, wires missing from the device) are preprocessed
    with dev.preprocess_transforms(dev.setup_execution_config(config, tape)) of default.qubit (deferred and tree-traversal),
    default.mixed, reference.qubit (analytic and finite shots), default.clifford and null.qubit.  Every output tape is encoded
    (the device predicates are evaluated on each emitted object), evaluated exactly by TapeEval (numerically with
    harness/bridge.py when an angle leaves the lattice), the REAL post-processing function is applied to these values and compared
    with TLC's exact value of the input; the function is also probed as an affine map and TLC decides the exact identity.
"""
import itertools
import json
import random

import numpy as np

import pennylane as qp
from pennylane.devices import ExecutionConfig, MCMConfig
from pennylane.devices import default_clifford as dcl
from pennylane.devices import default_mixed as dmx
from pennylane.devices import default_qubit as dqb
from pennylane.devices import null_qubit as nqb
from pennylane.devices import reference_qubit as rqb
from pennylane.measurements import SampleMeasurement, StateMeasurement

from .. import bridge, devsim, lib, measalg as ma
from ..codec import OffLattice, decode_gate, rec
from ..lib import CheckResult
from ..paulis import Agg
from . import c20

PID = "C33"
M = 4
DEVICES = [("default.qubit", None), ("default.qubit", "tree-traversal"), ("default.mixed", None), ("reference.qubit", None),
           ("default.clifford", None), ("null.qubit", None)]
CLIFF1 = ["PauliX", "PauliY", "PauliZ", "Hadamard", "S", "SX", "Identity"]
CLIFF2 = ["CNOT", "CY", "CZ", "SWAP", "ISWAP"]
CONDS = [("m", 1, lambda a: a == 1, lambda a: a), ("not m", 1, lambda a: a == 0, lambda a: ~a),
         ("and", 2, lambda a, b: a == 1 and b == 1, lambda a, b: a & b), ("or", 2, lambda a, b: a == 1 or b == 1, lambda a, b: a | b),
         ("sum==1", 2, lambda a, b: a + b == 1, lambda a, b: a + b == 1)]
DOCUMENTED = {"DeviceError", "WireError", "AllocationError", "DecompositionUndefinedError", "QuantumFunctionError", "ValueError",
              "RuntimeError", "NotImplementedError"}


# ------------------------------------------------------------------------------------------------ generator
def _even(g):
    """bias angles to multiples of pi/2 so that halved angles emitted by decompositions stay on the lattice"""
    g = dict(g, p=[a - a % 2 for a in g["p"]])
    return g


def gen_gate(rng, n, clifford):
    if clifford:
        r = rng.random()
        if r < 0.5 or n < 2:
            g = rec(rng.choice(CLIFF1), [rng.randint(1, n)])
        else:
            g = rec(rng.choice(CLIFF2), rng.sample(range(1, n + 1), 2))
        if rng.random() < 0.2 and g["g"] in ("S", "SX", "ISWAP"):
            g["mods"] = [{"t": "adj"}]
        return g
    g = devsim.random_gate(rng, n, M, ["g1", "r1", "g2", "r2", "g3", "p3", "u2", "mrz", "prot", "mcx", "mcx", "adj", "pow", "ctrl", "qft", "qft"])
    return _even(g) if rng.random() < 0.8 else g


def gen_cases(tier, seed):
    rng = random.Random(3300 + seed)
    ncase = 300 if tier == "quick" else 3000
    cases = []
    for i in range(ncase):
        dev, mcm = DEVICES[i % len(DEVICES)]
        n = rng.choice([2, 2, 3, 3, 4])
        clifford = dev == "default.clifford" and rng.random() < 0.8
        dynamic = rng.random() < 0.4
        prog, fresh, nm = [], set(range(1, n + 1)), 0
        r = rng.random()
        if r < 0.2:
            ws = rng.sample(range(1, n + 1), rng.randint(1, n))
            prog.append(("basis", [rng.randint(0, 1) for _ in ws], ws))
            fresh -= set(ws)
        elif r < 0.35:
            ws = rng.sample(range(1, n + 1), rng.randint(1, min(n, 2)))
            prep = [gen_gate(rng, len(ws), False) for _ in range(rng.randint(1, 3))]
            prep = [g for g in prep if not g["mods"] and g["g"] not in ("QFT", "MultiControlledX", "GlobalPhase")] or [rec("Hadamard", [1])]
            prog.append(("stateprep", prep, ws))
            fresh -= set(ws)
        for _ in range(rng.randint(2, 5 if not dynamic else 6)):
            r = rng.random()
            if dynamic and r < 0.35 and nm < 2:
                w = rng.randint(1, n)
                post = rng.choice([1, 2]) if rng.random() < 0.12 else 0
                if rng.random() < 0.75:         # measure a wire that is not in a basis state
                    prog.append(("gate", rec(rng.choice(["Hadamard", "SX"]), [w])))
                prog.append(("measure", w, int(rng.random() < 0.5), post))
                fresh.discard(w)
                nm += 1
                if rng.random() < 0.6:          # reuse the measured wire (deferred measurement then needs an auxiliary wire)
                    prog.append(("gate", rec(rng.choice(["Hadamard", "SX", "PauliX"]), [w])))
            elif dynamic and r < 0.55 and nm >= 1:
                avail = [k for k, c in enumerate(CONDS) if c[1] <= nm]
                ci = rng.choice(avail)
                g = gen_gate(rng, n, clifford)
                if g["mods"] or g["g"] in ("QFT", "MultiControlledX", "GlobalPhase"):
                    g = rec("PauliX", [rng.randint(1, n)])
                prog.append(("cond", ci, rng.sample(range(nm), CONDS[ci][1]), g))
                fresh -= set(g["w"])
            elif r < 0.62 and fresh and not dynamic:
                ws = rng.sample(sorted(fresh), rng.randint(1, min(len(fresh), 2)))
                if rng.random() < 0.5:
                    prog.append(("basis", [rng.randint(0, 1) for _ in ws], ws))
                else:
                    prep = [g for g in (gen_gate(rng, len(ws), False) for _ in range(rng.randint(1, 3)))
                            if not g["mods"] and g["g"] not in ("QFT", "MultiControlledX", "GlobalPhase")] or [rec("Hadamard", [1])]
                    prog.append(("stateprep", prep, ws))
                fresh -= set(ws)
            else:
                g = gen_gate(rng, n, clifford)
                prog.append(("gate", g))
                fresh -= set(g["w"]) if g["g"] != "GlobalPhase" else set()
        # measurements
        shots = 4 if (dev == "reference.qubit" and rng.random() < 0.5) else None
        meas = []
        for _ in range(rng.randint(1, 3)):
            r = rng.random()
            if r < 0.3:
                meas.append({"k": "expval", "terms": [(1.0, c20.rand_word(rng, n))], "style": "word"})
            elif r < 0.5:
                meas.append({"k": "expval", "terms": c20.rand_terms(rng, n), "style": rng.choice(["sum", "ham", "lc", "dot"])})
            elif r < 0.62 and not shots:
                meas.append({"k": "var", "terms": [(1.0, c20.rand_word(rng, n))], "style": "word"})
            elif r < 0.8:
                meas.append({"k": "probs", "w": rng.sample(range(1, n + 1), rng.randint(1, n))})
            elif r < 0.9 and not dynamic:
                q = rng.choice([1, 1, 2]) if n >= 2 else 1
                meas.append({"k": "herm", "w": rng.sample(range(1, n + 1), q), "mat": 2 if q == 2 else rng.randrange(2)})
            elif not dynamic:
                q = rng.randint(1, min(2, n))
                meas.append({"k": "proj", "w": rng.sample(range(1, n + 1), q), "bits": [rng.randint(0, 1) for _ in range(q)]})
        meas = meas or [{"k": "probs", "w": list(range(1, n + 1))}]
        bad_meas = None
        r = rng.random()
        if r < 0.05:
            bad_meas = "sample" if not shots else "state"
        labels = devsim.labels_for(rng, n)
        wmode = rng.choice(["none", "none", "exact", "extra", "extra", "shuffled"] if rng.random() < 0.93 else ["missing"])
        if dynamic and rng.random() < 0.7:
            labels = list(range(n))
        if all(isinstance(l, int) for l in labels) and wmode in ("extra", "shuffled"):
            spare = [max(labels) + 1 + k for k in range(3)]
        else:
            spare = ["s1", "s2", "s3"]
        if wmode == "none":
            devwires = None
        elif wmode == "exact":
            devwires = list(labels)
        elif wmode == "extra":
            devwires = list(labels) + spare
        elif wmode == "shuffled":
            devwires = list(labels) + spare
            rng.shuffle(devwires)
        else:
            devwires = list(labels[:-1]) + spare[:1]
        cases.append({"id": i, "dev": dev, "mcm": mcm, "n": n, "labels": labels, "prog": prog, "meas": meas, "bad_meas": bad_meas,
                      "shots": shots, "devwires": devwires, "wmode": wmode, "idstyle": "wire", "dynamic": nm > 0})
    return cases


# ------------------------------------------------------------------------------------------------ input program
def input_records(c):
    """exact reference semantics of the input program as TapeEval instructions (state preparation on fresh wires = its circuit)"""
    ops, k = [], 0
    for st in c["prog"]:
        if st[0] == "gate":
            ops.append(st[1])
        elif st[0] == "basis":
            ops += [rec("PauliX", [w]) for b, w in zip(st[1], st[2]) if b]
        elif st[0] == "stateprep":
            ops += [dict(g, w=[st[2][x - 1] for x in g["w"]]) for g in st[1]]
        elif st[0] == "measure":
            ops.append({"g": "MEASURE", "w": [st[1]], "x": [st[2], st[3]]})
            k += 1
        else:
            _, ci, args, g = st
            pred = CONDS[ci][2]
            tt = [list(o) for o in itertools.product([0, 1], repeat=k) if pred(*[o[a] for a in args])]
            ops.append({"g": "COND", "tt": tt, "op": g})
    return ops


def build_tape(c):
    labels = c["labels"]
    preps = []
    with qp.QueuingManager.stop_recording():
        built = {k: decode_gate(st[1] if st[0] == "gate" else st[3], M, labels) for k, st in enumerate(c["prog"]) if st[0] in ("gate", "cond")}
        mps = [c20.build_meas(m, labels, c["idstyle"]) for m in c["meas"]]

    def qfunc():
        ms = []
        for k, st in enumerate(c["prog"]):
            if st[0] == "gate":
                qp.apply(built[k])
            elif st[0] == "basis":
                qp.BasisState(np.array(st[1]), wires=[labels[w - 1] for w in st[2]])
            elif st[0] == "stateprep":
                vec = ma.bridge_state(st[1], len(st[2]), M)
                preps.append((vec, [labels[w - 1] for w in st[2]], st))
                qp.StatePrep(vec, wires=[labels[w - 1] for w in st[2]])
            elif st[0] == "measure":
                ms.append(qp.measure(labels[st[1] - 1], reset=bool(st[2]), postselect=None if st[3] == 0 else st[3] - 1))
            else:
                _, ci, args, g = st
                qp.cond(CONDS[ci][3](*[ms[a] for a in args]), lambda op=built[k]: qp.apply(op))()
        out = [qp.apply(m) for m in mps]
        if c["bad_meas"] == "sample":
            out.append(qp.sample(wires=[labels[0]]))
        elif c["bad_meas"] == "state":
            out.append(qp.state())
        return out

    tape = qp.tape.make_qscript(qfunc, shots=c["shots"])()
    return tape, preps


# ------------------------------------------------------------------------------------------------ device predicates
def predicates(dev, mcm_method, shots):
    """(operation ok, observable ok, measurement ok): the acceptance predicates the device itself defines"""
    if dev in ("default.qubit", "null.qubit"):
        base = lambda op: dqb.stopping_condition(op, allow_mcms=mcm_method != "deferred")
        op_ok = base if dev == "default.qubit" else (lambda op: (not nqb._op_has_decomp(op)) or base(op))
        return op_ok, (lambda o: True), (dqb.accepted_sample_measurement if shots else dqb.accepted_analytic_measurement)
    if dev == "default.mixed":
        return dmx.stopping_condition, dmx.observable_stopping_condition, \
            (dqb.accepted_sample_measurement if shots else dqb.accepted_analytic_measurement)
    if dev == "reference.qubit":
        return rqb.supports_operation, (lambda o: True), \
            (lambda m: isinstance(m, SampleMeasurement)) if shots else (lambda m: isinstance(m, StateMeasurement))
    if dev == "default.clifford":
        return dcl.operation_stopping_condition, dcl.observable_stopping_condition, \
            (dqb.accepted_sample_measurement if shots else (lambda m: isinstance(m, StateMeasurement)))
    raise KeyError(dev)


# ------------------------------------------------------------------------------------------------ output encoding
class WirePos(dict):
    """label -> position; labels introduced by the pipeline (auxiliary wires) get the next positions"""

    def __missing__(self, k):
        self[k] = len(self) + 1
        return self[k]


def encode_output(tape, wpos, preps, first_fresh=True):
    """-> (exact instructions | None, bridge records | None, has_mcm).  Mid-circuit measurements and conditionals become MEASURE /
    COND instructions, Projector (postselection of deferred measurements) PROJ, state preparations their circuits."""
    exact, flt, ok, mcms, has_mcm = [], [], True, [], False
    for op in tape.operations:
        name = type(op).__name__
        if name in ("MidMeasure", "MidMeasureMP"):
            has_mcm = True
            post = 0 if op.postselect is None else int(op.postselect) + 1
            ins = {"g": "MEASURE", "w": [wpos[op.wires[0]]], "x": [int(bool(op.reset)), post]}
            mcms.append(op)
            exact.append(ins)
            flt = None
            continue
        if name == "Conditional":
            has_mcm = True
            mv = op.meas_val
            idx = [next(k for k, m in enumerate(mcms) if m is mm or m.meas_uid == mm.meas_uid) for mm in mv.measurements]
            tt = [list(o) for o in itertools.product([0, 1], repeat=len(mcms)) if bool(mv.processing_fn(*[o[k] for k in idx]))]
            exact.append({"g": "COND", "tt": tt, "op": ma.encode_one(op.base, wpos, M)})
            flt = None
            continue
        if name == "BasisState":
            bits = [int(b) for b in np.asarray(op.data[0]).reshape(-1)]
            rs = [rec("PauliX", [wpos[w]]) for b, w in zip(bits, op.wires) if b]
            exact += rs
            if flt is not None:
                flt += rs
            continue
        if name == "StatePrep":
            hit = [p for p in preps if list(op.wires) == p[1] and np.allclose(np.asarray(op.data[0]).reshape(-1), p[0], atol=1e-12)]
            if not hit:
                raise OffLattice("StatePrep with an unknown vector")
            st = hit[0][2]
            rs = [dict(g, w=[wpos[op.wires[x - 1]] for x in g["w"]]) for g in st[1]]
            exact += rs
            if flt is not None:
                flt += rs
            continue
        if name in ("Projector", "BasisStateProjector"):
            bits = [int(b) for b in np.asarray(op.data[0]).reshape(-1)]
            exact.append({"g": "PROJ", "w": [wpos[w] for w in op.wires], "x": bits})
            flt = None
            continue
        if op.name in ("Barrier", "Snapshot"):
            continue
        try:
            r = ma.encode_one(op, wpos, M)
            if r is not None:
                exact.append(r)
                if flt is not None:
                    flt.append(r)
        except OffLattice:
            ok = False
            if flt is not None:
                flt.append(ma.float_record(op, wpos))
    return (exact if ok else None), flt, has_mcm


def op_wires(op, wpos):
    return [wpos[w] for w in op.wires]


# ------------------------------------------------------------------------------------------------ sample post-processing probe
def sample_probe(fn, outs_desc, in_desc):
    """Affine form of a post-processing function that consumes SAMPLES (measurements_from_samples): every output tape carries
    one sample measurement over wires w_t; with all shots of tape t equal to outcome x the function returns G_t(x).  The
    functions are means over the shots, hence for linear statistics E[fn] = G0 + sum_t sum_x p_t(x) (G_t(x) - G0).
    -> (A, b, column layout) or None."""
    nws = [len(d[0]["w"]) for d in outs_desc]
    shots = 4
    zero = [np.zeros((shots, k), dtype=int) for k in nws]

    def call(arrs):
        res = fn(tuple(arrs))
        return ma.flatten(tuple(res) if isinstance(res, (list, tuple)) else res, len(in_desc))[0].real

    try:
        g0 = call(zero)
        cols = []
        for t, k in enumerate(nws):
            for x in range(1 << k):
                bits = [(x >> (k - 1 - j)) & 1 for j in range(k)]
                arrs = list(zero)
                arrs[t] = np.array([bits] * shots, dtype=int)
                cols.append(call(arrs) - g0)
        A = np.array(cols).T if cols else np.zeros((len(g0), 0))
        # affinity in the empirical distribution: half the shots x, half y
        for t, k in enumerate(nws):
            if k == 0:
                continue
            x, y = 0, (1 << k) - 1
            arrs = list(zero)
            arrs[t] = np.array([[0] * k] * (shots // 2) + [[1] * k] * (shots // 2), dtype=int)
            off = sum(1 << q for q in nws[:t])
            pred = g0 + 0.5 * A[:, off + x] + 0.5 * A[:, off + y]
            got = call(arrs)
            lin = np.isclose(got, pred, atol=1e-9)
            return A, g0, lin
        return A, g0, np.ones(len(g0), dtype=bool)
    except Exception:  # noqa: BLE001
        return None


# ------------------------------------------------------------------------------------------------ the check
def run(tier, seed):
    cases = gen_cases(tier, seed)
    agg, pool = Agg(), ma.EvalPool()
    st = {"calls": 0, "accepted": {}, "rejected": {}, "rejection_classes": {}, "out_tapes": 0, "ops_checked": 0, "decomposed_cases": 0,
          "numeric_equivalence": 0, "exact_equivalence_candidates": 0, "dynamic_accepted": 0, "sample_mode": 0, "aux_wire_cases": 0,
          "equivalence_not_evaluable": {}, "templates": {},
          "unsupported_measurement_accepted": {}}
    work, traces, tmeta = [], [], []
    for c in cases:
        n, labels = c["n"], c["labels"]
        key = c["dev"] + (":" + c["mcm"] if c["mcm"] else "") + (":shots" if c["shots"] else "")
        try:
            tape, preps = build_tape(c)
        except Exception as e:  # noqa: BLE001
            raise lib.MachineryError(f"cannot build the input tape of case {c['id']}: {type(e).__name__}: {e}")
        for st_ in c["prog"]:
            nm = st_[0] if st_[0] != "gate" else (st_[1]["g"] + ("+" + "+".join(m["t"] for m in st_[1]["mods"]) if st_[1]["mods"] else ""))
            st["templates"][nm] = st["templates"].get(nm, 0) + 1
        wpos = WirePos({l: i + 1 for i, l in enumerate(labels)})
        for l in (c["devwires"] or []):
            _ = wpos[l]
        devw = [wpos[l] for l in c["devwires"]] if c["devwires"] is not None else []
        in_desc = [c20.spec_desc(m, mp, n) for m, mp in zip(c["meas"], tape.measurements)]
        shown = {"device": key, "device_wires": [str(w) for w in c["devwires"]] if c["devwires"] is not None else None,
                 "ops": c20.mstr(tape.operations), "measurements": c20.mstr(tape.measurements), "shots": c["shots"]}
        st["calls"] += 1
        dev = qp.device(c["dev"], wires=c["devwires"])
        base = {"n": n, "dev": key, "devw": devw, "err": "", "outs": [], "rel": "none", "zonly": False, "exact": False,
                "tin": ma.structure_tape(in_desc), "touts": [], "rows": [], "offs": []}
        try:
            cfg = ExecutionConfig(mcm_config=MCMConfig(mcm_method=c["mcm"]))
            cfg = dev.setup_execution_config(cfg, tape)
            prog = dev.preprocess_transforms(cfg)
            outs, fn_batch = prog((tape,))
            outs = list(outs)
            fn = lambda res, f=fn_batch: f(res)[0]
            mcm_method = cfg.mcm_config.mcm_method
        except Exception as e:  # noqa: BLE001
            cls = type(e).__name__
            st["rejected"][key] = st["rejected"].get(key, 0) + 1
            st["rejection_classes"][cls] = st["rejection_classes"].get(cls, 0) + 1
            traces.append(dict(base, err=cls))
            tmeta.append({"case": c, "shown": dict(shown, error=f"{cls}: {str(e)[:200]}"), "key": key, "control": None, "work": None})
            continue
        st["accepted"][key] = st["accepted"].get(key, 0) + 1
        st["out_tapes"] += len(outs)
        st["dynamic_accepted"] += c["dynamic"]
        op_ok, obs_ok, meas_ok = predicates(c["dev"], mcm_method if c["dev"] in ("default.qubit", "null.qubit") else None, c["shots"])
        orec, o_info, why_not = [], [], None
        for t in outs:
            ops_r = [{"name": op.name, "ok": bool(op_ok(op)), "w": op_wires(op, wpos)} for op in t.operations]
            if t.operations and type(t.operations[0]).__name__ in ("StatePrep", "BasisState") and c["dev"] != "reference.qubit":
                ops_r[0]["ok"] = True          # devices accept one leading state preparation (skip_initial_state_prep)
            meas_r = [{"name": type(mp).__name__, "ok": bool(meas_ok(mp)), "obsok": bool(obs_ok(mp.obs)) if mp.obs is not None else True,
                       "w": [wpos[w] for w in mp.wires]} for mp in t.measurements]
            orec.append({"ops": ops_r, "meas": meas_r})
            st["ops_checked"] += len(ops_r)
            if why_not is None:
                try:
                    ex, flt, has_mcm = encode_output(t, wpos, preps)
                    o_info.append({"tape": t, "exact": ex, "flt": flt, "mcm": has_mcm})
                except (OffLattice, KeyError, StopIteration) as e:
                    why_not = f"{type(e).__name__}: {str(e)[:60]}"
        st["decomposed_cases"] += any(len(t.operations) != len(tape.operations) for t in outs)
        st["aux_wire_cases"] += len(wpos) > n + len([l for l in (c["devwires"] or []) if l not in labels])
        rec_ = dict(base, outs=orec)
        meta = {"case": c, "shown": dict(shown, output_ops=[c20.mstr(t.operations)[:40] for t in outs],
                                         output_measurements=[c20.mstr(t.measurements) for t in outs]),
                "key": key, "control": None, "work": None, "naux0": n + len([l for l in (c["devwires"] or []) if l not in labels])}
        traces.append(rec_)
        tmeta.append(meta)
        if why_not is not None or c["bad_meas"]:
            k_ = (why_not or "unsupported measurement accepted").split(":")[0]
            st["equivalence_not_evaluable"][k_] = st["equivalence_not_evaluable"].get(k_, 0) + 1
            if c["bad_meas"]:       # accepted although the mode cannot produce it: counted (the statement only constrains what IS emitted)
                k2 = f"{key}:{c['bad_meas']}"
                st["unsupported_measurement_accepted"][k2] = st["unsupported_measurement_accepted"].get(k2, 0) + 1
            continue
        nt = len(wpos)
        for o in o_info:
            o["desc"] = [ma.describe_mp(mp, wpos, nt, labels) for mp in o["tape"].measurements]
            ws, ps = ma.requests(o["desc"])
            if o["exact"] is not None:
                o["id"] = pool.add(nt, o["exact"], ws, ps, state=not o["mcm"] and not any(r["g"] == "PROJ" for r in o["exact"]))
            elif o["flt"] is not None:
                o["id"] = None
            else:
                why_not = "off-lattice angles in a dynamic output circuit"
        if why_not:
            st["equivalence_not_evaluable"][why_not] = st["equivalence_not_evaluable"].get(why_not, 0) + 1
            continue
        in_words, in_pws = ma.requests(in_desc)
        in_id = pool.add(n, input_records(c), in_words, in_pws, state=not c["dynamic"])
        meta["work"] = {"in_desc": in_desc, "in_id": in_id, "outs": o_info, "fn": fn, "wpos": dict(wpos), "nt": nt, "rec": rec_}
    stats = pool.run(PID, M)
    # ---- equivalence: real post-processing on the values of the output tapes vs TLC's exact value of the input
    n_cmp, nontriv, samples = 0, set(), []
    for meta in tmeta:
        w = meta["work"]
        if not w:
            continue
        c, key, shown, n, nt, wpos = meta["case"], meta["key"], meta["shown"], meta["case"]["n"], w["nt"], w["wpos"]
        in_ev = pool.ev[w["in_id"]]
        if in_ev.weight < 1e-9:
            continue
        evs = []
        for o in w["outs"]:
            if o["id"] is not None:
                evs.append(pool.ev[o["id"]])
            else:
                evs.append(ma.Numeric(ma.bridge_state(o["flt"], nt, M), nt))
                st["numeric_equivalence"] += 1
        if any(isinstance(e, ma.Exact) and e.weight < 1e-9 for e in evs):
            continue
        in_wpos = {l: i + 1 for i, l in enumerate(c["labels"])}
        try:
            exp = ma.pl_result(w["in_desc"], [in_ev], in_wpos, n, False)
        except ma.NonPauli as e:
            raise lib.MachineryError(f"input measurement not evaluable: {e}")
        sample_mode = any(d["t"] == "sample" for o in w["outs"] for d in o["desc"])
        rec_ = w["rec"]
        if sample_mode:
            st["sample_mode"] += 1
            if not all(len(o["desc"]) == 1 and o["desc"][0]["t"] == "sample" for o in w["outs"]):
                agg.add(f"{key}:mixed-sample-output", f"{key}: sample and other measurements mixed in the outputs: {shown}", {"case": c, **shown})
                continue
            pr = sample_probe(w["fn"], [o["desc"] for o in w["outs"]], w["in_desc"])
            if pr is None:
                st["equivalence_not_evaluable"]["sample post-processing not probeable"] = st["equivalence_not_evaluable"].get("sample post-processing not probeable", 0) + 1
                continue
            A, b, lin = pr
            r = np.concatenate([e.probs(o["desc"][0]["w"]) for e, o in zip(evs, w["outs"])]) if w["outs"] else np.zeros(0)
            got_flat = A @ r + b
            exp_flat, _ = ma.flatten(exp, len(w["in_desc"]))
            sizes = [int(np.asarray(x).size) for x in (exp if len(w["in_desc"]) != 1 else [exp])]
            rowmask, k = [], 0
            for d, sz in zip(w["in_desc"], sizes):
                rowmask += [d["t"] in ("expval", "probs")] * sz
                k += sz
            rowmask = np.array(rowmask, dtype=bool) & lin
            n_cmp += int(rowmask.sum())
            ok = bool(np.allclose(got_flat[rowmask], exp_flat.real[rowmask], atol=1e-8, rtol=0))
            if not ok:
                i = int(np.argmax(np.abs(got_flat - exp_flat.real) * rowmask))
                mi = int(np.searchsorted(np.cumsum(sizes), i, side="right"))
                agg.add(f"{key}:result-value:samples:{c['meas'][mi]['k']}", f"{key}: expected value of the sample post-processing, entry {i}: {got_flat[i]:.6f}, exact result of the "
                        f"input {exp_flat.real[i]:.6f}; {shown}", {"case": c, **shown})
            else:
                nontriv.add(json.dumps([key, shown["ops"], shown["measurements"]]))
            lin_desc = [d for d in w["in_desc"] if d["t"] in ("expval", "probs")]
            keep = np.array([d["t"] in ("expval", "probs") for d, sz in zip(w["in_desc"], sizes) for _ in range(sz)], dtype=bool)
            tin = ma.trace_tape(lin_desc, [in_ev])
            touts = [ma.trace_tape([dict(o["desc"][0], t="probs")], [e]) for e, o in zip(evs, w["outs"])]
            if ok and tin is not None and all(t is not None for t in touts) and bool(lin[keep].all()) and not any(m["t"] == "other" for m in tin["meas"]):
                sp = ma.sparse_rows(A[keep], b[keep])
                if sp is not None:
                    rec_.update(exact=True, tin=tin, touts=touts, rows=sp[0], offs=sp[1])
                    meta["r"] = r.tolist()
            continue
        try:
            results = tuple(ma.pl_result(o["desc"], [e], wpos, nt, False) for e, o in zip(evs, w["outs"]))
        except ma.NonPauli as e:
            st["equivalence_not_evaluable"][str(e)[:40]] = st["equivalence_not_evaluable"].get(str(e)[:40], 0) + 1
            continue
        try:
            got = w["fn"](results)
        except Exception as e:  # noqa: BLE001
            agg.add(f"{key}:postprocessing-exception:{type(e).__name__}", f"post-processing raised {type(e).__name__}: {e}; {shown}", {"case": c, **shown})
            continue
        ok, why, idx = ma.same(got, exp, len(w["in_desc"]))
        n_cmp += len(w["in_desc"])
        if not ok:
            agg.add(f"{key}:{why}:{c['meas'][idx]['k'] if idx < len(c['meas']) else '?'}",
                    f"{key}: measurement {idx}: post(results of the output tapes) = {c20._show(got, idx, len(w['in_desc']))}, exact result of the input = "
                    f"{c20._show(exp, idx, len(w['in_desc']))}; {shown}", {"case": c, **shown})
        else:
            nontriv.add(json.dumps([key, shown["ops"], shown["measurements"]]))
            if len(samples) < 5 and len(samples) == len({s["device"] for s in samples}) and key not in {s["device"] for s in samples} and \
                    any(len(o["tape"].operations) > len(c["prog"]) for o in w["outs"]):
                samples.append(shown)
        if ok and all(isinstance(e, ma.Exact) for e in evs) and in_ev.weight > 1 - 1e-12 and all(e.weight > 1 - 1e-12 for e in evs):
            st["exact_equivalence_candidates"] += 1
            tin = ma.trace_tape(w["in_desc"], [in_ev])
            touts = [ma.trace_tape(o["desc"], [e]) for e, o in zip(evs, w["outs"])]
            if tin is not None and all(t is not None for t in touts) and not any(m["t"] == "other" for t in [tin] + touts for m in t["meas"]):
                pr = ma.linear_probe(w["fn"], results, [len(o["desc"]) for o in w["outs"]], len(w["in_desc"]))
                sp = ma.sparse_rows(pr[0], pr[1]) if pr is not None else None
                if sp is not None:
                    rec_.update(n=nt, exact=True, tin=_widen(tin, nt), touts=touts, rows=sp[0], offs=sp[1])
                    meta["r"] = pr[2].tolist()
    # ---- negative controls + TLC
    controls = _controls(traces, tmeta)
    for r_, m_ in controls:
        traces.append(r_)
        tmeta.append(m_)
    verd, r = ma.validate_traces(PID, "Trace_Preprocess", traces, M)
    vc, rejected_controls = {}, {}
    for i, meta in enumerate(tmeta):
        cl, idx = verd[i + 1]
        if meta["control"]:
            if cl != meta["expect"]:
                raise lib.MachineryError(f"negative control {meta['control']}: TLC said {cl}, expected {meta['expect']}")
            rejected_controls[meta["control"]] = rejected_controls.get(meta["control"], 0) + 1
            continue
        vc[cl] = vc.get(cl, 0) + 1
        if cl == "missing-value":
            raise lib.MachineryError(f"TLC needed a value the driver did not request: {meta['shown']}")
        if cl not in ("ok", "ok-structure", "skip-overflow", "rejected"):
            what = ""
            if cl in ("unsupported-operation", "operation-wire-not-on-device"):
                bad = next((x for t in traces[i]["outs"] for x in t["ops"] if (not x["ok"]) == (cl == "unsupported-operation") and
                            (cl == "unsupported-operation" or not _on(x["w"], traces[i]["devw"]))), None)
                what = ":" + (bad["name"] if bad else "?")
                if bad and cl == "operation-wire-not-on-device":
                    what += ":auxiliary-wire-added-by-the-pipeline" if any(x > meta["naux0"] for x in bad["w"] if x not in traces[i]["devw"]) else ":input-wire"
            agg.add(f"{meta['key']}:{cl}{what}", f"{meta['key']}: TLC clause {cl} (index {idx}) fails: {meta['shown']}", {"case": meta["case"], **meta["shown"]})
    need = {"operation", "wire", "measurement", "error-class", "coefficient"}
    if not need <= set(rejected_controls):
        raise lib.MachineryError(f"negative controls not all exercised: {sorted(rejected_controls)}")
    if vc.get("ok", 0) < 30 or vc.get("rejected", 0) < 10 or st["decomposed_cases"] < 30 or st["dynamic_accepted"] < 5:
        raise lib.MachineryError(f"vacuity: {vc} {st}")
    cov = {"states": stats["distinct"] + r["distinct"], "transitions": stats["generated"] + r["generated"],
           "traces_validated_against_impl": len(traces) - len(controls), "evaluations": n_cmp + st["ops_checked"], "distinct_nontrivial": len(nontriv),
           "rule": "distinct accepted (device configuration, program, measurement list) triples whose preprocessed batch was evaluated and whose "
                   "post-processed result agreed with TLC's exact value of the input",
           "samples": samples, "exhaustive": False, "tlc_verdicts": vc, "exact_equivalences_decided_by_tlc": vc.get("ok", 0),
           "result_entries_compared": n_cmp, "negative_controls_rejected": sum(rejected_controls.values()),
           "negative_control_kinds": rejected_controls, "tapes_evaluated_exactly": len(pool.items), "ring_level_M": M, **st}
    return CheckResult(coverage=cov, violations=agg.violations(), assumptions=[
        "the acceptance predicates are the device modules' own functions (stopping conditions, observable / measurement validators), evaluated on "
        "the emitted objects after the pipeline ran; one leading state preparation is accepted (skip_initial_state_prep)",
        "state preparations are placed on wires still in |0>, where their meaning is the preparing circuit",
        "output circuits with angles outside the lattice 4*pi/16 are evaluated numerically (harness/bridge.py) and compared at 1e-8 with TLC's "
        "exact input value; the exact clause is decided by TLC for the others",
        "finite-shot pipelines (reference.qubit) are checked in expectation: linear statistics (expval, probs) of the sample post-processing "
        "against the exact distribution; var with shots is not checked",
        "circuits, measurement lists, wire configurations are sampled (seeded), not exhaustive; gradient-related preprocessing is not covered"])


def _on(w, devw):
    return not devw or all(x in devw for x in w)


def _widen(tin, nt):
    """input measurement words padded with identities on the auxiliary wires the pipeline added"""
    t = json.loads(json.dumps(tin))
    for m in t["meas"]:
        for tm in m["terms"]:
            tm["w"] = tm["w"] + [0] * (nt - len(tm["w"]))
    for v in t["vars"]:
        for x in v["wv"]:
            x["w"] = x["w"] + [0] * (nt - len(x["w"]))
    return t


def _controls(traces, tmeta):
    out, kinds = [], {"operation": 0, "wire": 0, "measurement": 0, "error-class": 0, "coefficient": 0, "observable": 0}
    cp = lambda x: json.loads(json.dumps(x))
    for rec_, meta in zip(list(traces), list(tmeta)):
        if rec_["err"]:
            if kinds["error-class"] < 2:
                out.append((dict(cp(rec_), err="TypeError"), {"control": "error-class", "expect": "undocumented-error-class"}))
                kinds["error-class"] += 1
            continue
        if not rec_["outs"] or not rec_["outs"][0]["ops"]:
            continue
        if kinds["operation"] < 3:
            r2 = cp(rec_)
            r2["outs"][-1]["ops"][-1]["ok"] = False
            if all(o["ok"] for t in rec_["outs"] for o in t["ops"]) and all(_on(o["w"], rec_["devw"]) for t in rec_["outs"][:-1] for o in t["ops"]) \
                    and all(m["ok"] and m["obsok"] and _on(m["w"], rec_["devw"]) for t in rec_["outs"][:-1] for m in t["meas"]):
                out.append((r2, {"control": "operation", "expect": "unsupported-operation"}))
                kinds["operation"] += 1
        clean = all(o["ok"] and _on(o["w"], rec_["devw"]) for t in rec_["outs"] for o in t["ops"]) and \
            all(m["ok"] and m["obsok"] and _on(m["w"], rec_["devw"]) for t in rec_["outs"] for m in t["meas"])
        if not clean:
            continue
        if kinds["wire"] < 3 and rec_["devw"]:
            r2 = cp(rec_)
            r2["outs"][0]["ops"][0]["w"] = [max(rec_["devw"]) + 7]
            out.append((r2, {"control": "wire", "expect": "operation-wire-not-on-device"}))
            kinds["wire"] += 1
        if kinds["measurement"] < 3 and rec_["outs"][0]["meas"]:
            r2 = cp(rec_)
            r2["outs"][0]["meas"][0]["ok"] = False
            out.append((r2, {"control": "measurement", "expect": "unsupported-measurement"}))
            kinds["measurement"] += 1
        if kinds["observable"] < 2 and rec_["outs"][0]["meas"]:
            r2 = cp(rec_)
            r2["outs"][0]["meas"][0]["obsok"] = False
            out.append((r2, {"control": "observable", "expect": "unsupported-observable"}))
            kinds["observable"] += 1
        hit = [(i, t) for i, row in enumerate(rec_["rows"]) for t, e in enumerate(row) if abs(meta["r"][e["j"] - 1]) > 1e-6] if rec_["exact"] else []
        if hit and kinds["coefficient"] < 3:
            i, t = hit[-1]
            r2 = cp(rec_)
            r2["rows"][i][t]["c"][0] += 1 if r2["rows"][i][t]["c"][2] == 0 else 2
            out.append((r2, {"control": "coefficient", "expect": "recombination-mismatch"}))
            kinds["coefficient"] += 1
    return [(r_, dict(case=None, shown=None, key="control", work=None, **m)) for r_, m in out]
