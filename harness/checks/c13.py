"""C13 Measurement-based decomposition rules act deterministically.

TRACE + REPLAY.  The driver discovers live every (operator instance, registered rule) whose emitted circuit contains a
mid-circuit measurement / Pauli-product measurement / classically controlled operation, records the circuit (the truth
table of every condition is obtained from PennyLane's own MeasurementValue API), and BranchEval.tla decides the statement:
outcome nondeterminism is TLA+ nondeterminism, so TLC enumerates every outcome branch with a non-null state and checks,
exactly in Z[zeta_8][1/2] and on ALL basis inputs at once (hence for every input state), that the branch's Kraus operator
is  c * U_target (x) |aux>  with one scalar per branch.  Each branch is then REPLAYED through default.qubit
(mcm_method='tree-traversal', postselected on the branch, seeded random input state) against TLC's exact branch operator,
and the outcome distribution of the un-postselected program against TLC's exact branch weights."""
import itertools
import random
from unittest import mock

import numpy as np

import pennylane as qp
from pennylane.decomposition import list_decomps
from pennylane.ops.mid_measure.measurement_value import MeasurementValue

from .. import decomp, lib
from ..codec import OffLattice, encode_op, matrix_to_ring, rec
from ..lib import CheckResult, Violation

M = 3                     # everything emitted by these rules is Clifford(+T): exact at level 3
MEAS_TYPES = ("MidMeasure", "MidMeasureMP", "PauliMeasure", "Conditional")
TOL = 1e-9
PW = {"X": 1, "Y": 2, "Z": 3}


def _tname(o):
    return type(o).__name__


def contains_measurement(ops):
    return any(_tname(o) in MEAS_TYPES or o.name in MEAS_TYPES for o in ops)


# ------------------------------------------------------------------------------------------ instances
def extra_instances(rng, tier):
    """Operators outside the gate table that own measurement-based rules at this commit (uncompute of an AND; QROM)."""
    out = []
    for cv in itertools.product([1, 0], repeat=2):
        ws = rng.sample(decomp.LABELS, 3)
        out.append(qp.adjoint(qp.TemporaryAND(ws, control_values=list(cv))))
        out.append(qp.TemporaryAND(ws, control_values=list(cv)))
    # QROM: (bitstrings, #control, #target, #work)
    shapes = [(3, 2, 1, 1), (4, 2, 2, 1), (2, 2, 1, 1), (4, 2, 1, 1)]
    if tier != "quick":
        shapes += [(3, 2, 2, 1), (4, 2, 2, 2), (2, 2, 2, 1), (4, 3, 1, 2), (2, 3, 1, 2), (5, 3, 1, 2), (8, 3, 1, 2)]
    for (L, nc, nt, nw) in shapes:
        for rep in range(1 if tier == "quick" else 2):
            bits = [[rng.randint(0, 1) for _ in range(nt)] for _ in range(L)]
            if not any(any(b) for b in bits):
                bits[-1][0] = 1
            lab = list(range(20, 20 + nc + nt + nw))
            rng.shuffle(lab)
            op = qp.QROM(bits, control_wires=lab[:nc], target_wires=lab[nc:nc + nt], work_wires=lab[nc + nt:])
            out.append(op)
            out.append(qp.adjoint(op))
    return out


# ------------------------------------------------------------------------------------------ reference semantics
def reference(op, wpos):
    """-> (prep records, ref records, input wires, zero wires) from the DOCUMENTED semantics of the operator
    (reference table Gates.tla; AND / table lookup written out as multi-controlled X), or None if no exact image."""
    base, adj = (op.base, True) if op.name.startswith("Adjoint(") and hasattr(op, "base") else (op, False)
    if base.name == "TemporaryAND":
        w = [wpos[x] for x in base.wires]
        cv = [int(bool(v)) for v in base.control_values]
        land = rec("MultiControlledX", w, [], cv)          # documented: a reversible AND (Toffoli) given target |0>
        if adj:       # Adjoint(TemporaryAND) "assumes the target output to be |0>": inputs are AND|a b 0>
            return [land], [dict(land, mods=[{"t": "adj"}])], list(base.wires[:2]), [base.wires[2]]
        return [], [land], list(base.wires[:2]), [base.wires[2]]
    if base.name == "QROM":
        cw, tw = list(base.control_wires), list(base.target_wires)
        bits = np.asarray(base.bitstrings).astype(int)
        recs = []
        for i, row in enumerate(bits):                     # |i>|t> -> |i>|t xor b_i>, identity for addresses >= L
            cv = [int(c) for c in format(i, f"0{len(cw)}b")]
            for j, b in enumerate(row):
                if b:
                    recs.append(rec("MultiControlledX", [wpos[x] for x in cw] + [wpos[tw[j]]], [], cv))
        if adj:
            recs = [dict(r, mods=[{"t": "adj"}]) for r in reversed(recs)]
        return [], recs, cw + tw, list(base.work_wires)
    try:
        a = encode_op(op, wpos, M)
    except (OffLattice, KeyError, AttributeError):
        return None
    if a is None:
        return None
    work = decomp.work_wires_of(op)
    if work and decomp.work_type_of(op) not in ("zeroed", "WorkWireType.ZEROED"):
        return [], [a], list(op.wires), []
    return [], [a], [w for w in op.wires if w not in work], list(work)


# ------------------------------------------------------------------------------------------ recording a rule circuit
class Unsupported(Exception):
    pass


def _plain(o, wpos):
    try:
        r = encode_op(o, wpos, M)
        return [r] if r is not None else []
    except (OffLattice, KeyError, AttributeError):
        pass
    if o.name == "BasisState":
        st = np.asarray(o.parameters[0]).astype(int).ravel()
        return [rec("PauliX", [wpos[w]]) for w, b in zip(o.wires, st) if b]
    try:
        mat = qp.matrix(o)
        return [rec("MAT", [wpos[w] for w in o.wires], m=matrix_to_ring(mat, M))]
    except Exception as e:
        raise Unsupported(f"{o.name}: {type(e).__name__}")


def _find(meas, m):
    for i, x in enumerate(meas):
        if x is m:
            return i
    for i, x in enumerate(meas):
        for attr in ("meas_uid", "id"):
            a, b = getattr(x, attr, None), getattr(m, attr, None)
            if a is not None and a == b and type(x) is type(m):
                return i
    raise Unsupported("condition on an unknown measurement")


def record_circuit(ops, wpos):
    """-> (instructions for BranchEval, list of measurement ops, dyn {wire: (state, restored)}).
    The truth table of a Conditional is PennyLane's own: MeasurementValue.branches over the measurements it depends on."""
    ins, meas, dyn = [], [], {}
    for o in ops:
        t = _tname(o)
        if o.name == "Allocate":
            for w in o.wires:
                wpos[w] = len(wpos) + 1
                dyn[w] = (str(o.hyperparameters.get("state", "zero")), bool(o.hyperparameters.get("restored", False)))
        elif o.name == "Deallocate":
            continue
        elif t == "PauliMeasure":
            meas.append(o)
            ins.append({"g": "PPM", "w": [wpos[w] for w in o.wires], "x": [PW[c] for c in o.pauli_word],
                        "p": [0 if o.postselect is None else int(o.postselect) + 1]})
        elif t in ("MidMeasure", "MidMeasureMP"):
            meas.append(o)
            ins.append({"g": "MEASURE", "w": [wpos[w] for w in o.wires],
                        "x": [int(bool(o.reset)), 0 if o.postselect is None else int(o.postselect) + 1]})
        elif t == "Conditional":
            mv = o.meas_val
            ix = [_find(meas, m) for m in mv.measurements]
            tt = [list(b) for b, val in mv.branches.items() if bool(val)]
            for r in _plain(o.base, wpos):
                ins.append({"g": "COND", "ix": [i + 1 for i in ix], "tt": tt, "op": r})
        else:
            ins += _plain(o, wpos)
    return ins, meas, dyn


def collect(tier, seed):
    rng = random.Random(1300 + seed)
    bases = decomp.base_instances(rng, per_gate=2 if tier == "quick" else 4)
    insts = bases + decomp.symbolic_instances(rng, bases, tier) + extra_instances(rng, tier)
    stats = {"instances": len(insts), "rules_seen": 0, "rules_applicable": 0, "rules_applicable_only_under_compiler": 0,
             "measurement_rules": 0, "skipped": {}}
    events, viol = [], []

    def skip(why):
        stats["skipped"][why] = stats["skipped"].get(why, 0) + 1
    for op in insts:
        try:
            rules = list_decomps(op)
            rp = decomp._get_decomp_args(op)[0]
        except Exception as e:
            skip("list_decomps:" + type(e).__name__)
            continue
        for rule in rules:
            stats["rules_seen"] += 1
            gated = False
            try:
                ok = bool(rule.is_applicable(**rp))
            except Exception:
                ok = False
            if not ok:
                # rules made of Pauli-product measurements are registered for compiled execution only: they report
                # themselves applicable iff a compiler is active.  Ask again as the compiler would.
                try:
                    with mock.patch("pennylane.compiler.active", lambda: True):
                        ok = gated = bool(rule.is_applicable(**rp))
                except Exception:
                    ok = False
            if not ok:
                continue
            stats["rules_applicable"] += 1
            try:
                ops, _ = decomp.emitted_ops(op, rule)
            except Exception:
                continue                      # C10 reports rules that raise
            if not contains_measurement(ops):
                continue
            stats["measurement_rules"] += 1
            stats["rules_applicable_only_under_compiler"] += int(gated)
            key = f"{op.name}:{rule.name}"
            wpos = {}
            work = decomp.work_wires_of(op)
            for w in [w for w in op.wires if w not in work] + list(work):
                wpos[w] = len(wpos) + 1
            ref = reference(op, dict(wpos))
            if ref is None:
                skip("no exact reference for " + op.name)
                continue
            prep, refc, inputs, zero = ref
            try:
                ins, meas, dyn = record_circuit(ops, wpos)
            except Unsupported as e:
                skip(f"unsupported emitted op {e}")
                continue
            aux = []
            for w, (state, restored) in dyn.items():
                if "zero" not in state:
                    inputs = inputs + [w]            # borrowed in any state: part of the input, the reference leaves it alone
                elif not restored:
                    aux.append(w)                    # burnable: may end in any known pure state
            n = len(wpos)
            ipos = sorted(wpos[w] for w in inputs)
            cs = sorted(sum(((c >> (len(ipos) - 1 - t)) & 1) << (n - ipos[t]) for t in range(len(ipos))) for c in range(1 << len(ipos)))
            events.append({"key": key, "op": repr(op), "opname": op.name, "rule": rule.name, "gated": gated, "n": n, "cs": cs,
                           "prep": prep, "ref": refc, "ops": ins, "aux": sorted(wpos[w] for w in aux), "ipos": ipos,
                           "k": len(meas), "emitted": [repr(o) for o in ops][:60], "pl_ops": ops, "wpos": dict(wpos), "meas": meas})
    return events, viol, stats


def registry_scan():
    """(operator, rule) pairs of the live registry whose source mentions a measurement: completeness cross-check of the instance set."""
    import re
    from pennylane.decomposition import decomposition_rule as dr
    out = set()
    for opname, coll in getattr(dr, "_decompositions_private", {}).items():
        for rule in coll:
            if re.search(r"ppm|measure", (getattr(rule, "_source", "") or "") + rule.name, re.I):
                out.add(f"{opname}:{rule.name}")
    return out


# ------------------------------------------------------------------------------------------ TLC
def tlc_case(ev, emit=1, ops=None):
    return {"n": ev["n"], "cs": ev["cs"], "prep": ev["prep"], "ref": ev["ref"], "ops": ops if ops is not None else ev["ops"],
            "aux": ev["aux"], "emit": emit}


def fix_fields(case):
    """every instruction carries every field BranchEval may read for its kind (absent JSON fields are errors in TLC)"""
    for i in case["ops"]:
        if i["g"] == "COND":
            i.setdefault("ix", [])
    return case


def run_branch_eval(cases, name, timeout):
    import json
    wd = lib.workdir("C13", name)
    (wd / "cases.json").write_text(json.dumps([fix_fields(c) for c in cases]))
    r = lib.run_tlc("BranchEval", lib.cfg(constants={"M": M, "NCASES": len(cases)}), wd,
                    env={"TRACE_FILE": str(wd / "cases.json")}, timeout=timeout)
    lib.require_ok(r, f"BranchEval {name}")
    br, refs = {}, {}
    for j in r.json_lines:
        if "ref" in j:
            refs[j["tid"] - 1] = j["ref"]
        else:
            br.setdefault(j["tid"] - 1, []).append(j)
    return br, refs, r


def weight(j):
    return float(lib.ring_to_complex(j["w"]["c"], j["w"]["k"], M).real)


def gadget_ops(ins):
    """A Pauli-product measurement rewritten with unitaries and ONE computational measurement: rotate every letter to Z,
    fold the parity onto the last wire, measure it, undo.  Used (a) as an independent second encoding inside TLC and
    (b) to execute the branch on default.qubit, which has no PauliMeasure."""
    out = []
    for i in ins:
        if i["g"] != "PPM":
            out.append(i)
            continue
        pre = []
        for c, w in zip(i["x"], i["w"]):
            if c == 2:
                pre.append(rec("S", [w], mods=[{"t": "adj"}]))
            if c in (1, 2):
                pre.append(rec("Hadamard", [w]))
        cn = [rec("CNOT", [w, i["w"][-1]]) for w in i["w"][:-1]]
        post = []
        for c, w in zip(i["x"], i["w"]):
            if c in (1, 2):
                post.append(rec("Hadamard", [w]))
            if c == 2:
                post.append(rec("S", [w]))
        out += pre + cn + [{"g": "MEASURE", "w": [i["w"][-1]], "x": [0, i["p"][0]]}] + cn[::-1] + post
    return out


# ------------------------------------------------------------------------------------------ replay on default.qubit
def _apply_gadget(word, wires, post):
    for c, w in zip(word, wires):
        if c == "Y":
            qp.adjoint(qp.S(w))
        if c in "XY":
            qp.Hadamard(w)
    for w in wires[:-1]:
        qp.CNOT([w, wires[-1]])
    m = qp.measure(wires[-1], postselect=post)
    for w in reversed(wires[:-1]):
        qp.CNOT([w, wires[-1]])
    for c, w in zip(word, wires):
        if c in "XY":
            qp.Hadamard(w)
        if c == "Y":
            qp.S(w)
    return m


def make_qfunc(ev, psi, branch, ret):
    """The recorded PennyLane operators themselves (wires mapped to 0..n-1); conditions are rebuilt from the rule's own
    MeasurementValue processing function over the executable measurements."""
    wmap = {w: p - 1 for w, p in ev["wpos"].items()}
    from ..codec import decode_gate

    def f():
        qp.StatePrep(psi, wires=[p - 1 for p in ev["ipos"]])
        for w in range(ev["n"]):      # touch every wire up front: tree-traversal sizes its state from the first segment's wires
            qp.Identity(w)
        for r in ev["prep"]:
            decode_gate(r, M)
        new, k = {}, 0
        for o in ev["pl_ops"]:
            t = _tname(o)
            if o.name in ("Allocate", "Deallocate"):
                continue
            if t == "PauliMeasure":
                post = branch[k] if branch is not None else o.postselect
                new[id(o)] = _apply_gadget(o.pauli_word, [wmap[w] for w in o.wires], post)
                k += 1
            elif t in ("MidMeasure", "MidMeasureMP"):
                post = branch[k] if branch is not None else o.postselect
                new[id(o)] = qp.measure(wmap[o.wires[0]], reset=bool(o.reset), postselect=post)
                k += 1
            elif t == "Conditional":
                mv = o.meas_val
                ms = [new[id(ev["meas"][_find(ev["meas"], m)])].measurements[0] for m in mv.measurements]
                with qp.QueuingManager.stop_recording():
                    cop = qp.ops.Conditional(MeasurementValue(ms, mv._processing_fn), o.base.map_wires(wmap))
                qp.apply(cop)
            else:
                with qp.QueuingManager.stop_recording():
                    mo = o.map_wires(wmap)
                qp.apply(mo)
        mvs = [new[id(m)] for m in ev["meas"]]
        return ret(mvs)
    return f


def replay_on_device(ev, branches, Rnp, rng, viol, counts):
    n, nin = ev["n"], len(ev["ipos"])
    psi = np.array([complex(rng.gauss(0, 1), rng.gauss(0, 1)) for _ in range(1 << nin)])
    psi /= np.linalg.norm(psi)
    dev = qp.device("default.qubit", wires=n)
    allw = list(range(n))
    C = len(ev["cs"])
    # outcome distribution of the un-postselected program against TLC's exact weights (independent of the input)
    try:
        pr = qp.QNode(make_qfunc(ev, psi, None, lambda mvs: qp.probs(op=mvs)), dev, mcm_method="tree-traversal")()
        exp = np.zeros(1 << ev["k"])
        for b in branches:
            exp[int("".join(map(str, b["o"])), 2)] = weight(b) / C
        counts["weight_comparisons"] += 1
        if not np.allclose(np.asarray(pr), exp, atol=TOL):
            viol.append(Violation(key=f"{ev['key']}:replay:branch-weights", detail=f"default.qubit outcome distribution {np.round(pr, 6).tolist()} vs "
                                  f"exact branch weights {exp.round(6).tolist()} for {ev['op']} / {ev['rule']}", replay=_rp(ev)))
    except Exception as e:
        counts["replay_errors"][f"{type(e).__name__}: {str(e)[:80]}"] = counts["replay_errors"].get(f"{type(e).__name__}: {str(e)[:80]}", 0) + 1
    todo = branches if len(branches) <= 128 else rng.sample(branches, 128)
    counts["branches_attempted"] += len(todo)
    for b in todo:
        Kb = lib.ring_matrix_to_numpy(b["km"], M)
        v = Kb @ psi
        nv = np.linalg.norm(v)
        if nv < 1e-9:
            continue
        v = v / nv
        try:
            fid, probs = qp.QNode(make_qfunc(ev, psi, list(b["o"]), lambda mvs: (qp.expval(qp.Projector(v, wires=allw)), qp.probs(wires=allw))),
                                  dev, mcm_method="tree-traversal")()
        except Exception as e:
            counts["replay_errors"][f"{type(e).__name__}: {str(e)[:80]}"] = counts["replay_errors"].get(f"{type(e).__name__}: {str(e)[:80]}", 0) + 1
            continue
        counts["branches_replayed"] += 1
        if abs(float(fid) - 1.0) > 1e-8 or not np.allclose(probs, np.abs(v) ** 2, atol=1e-8):
            viol.append(Violation(key=f"{ev['key']}:replay:branch-state", detail=f"branch {b['o']} of {ev['rule']} on {ev['op']}: default.qubit state has "
                                  f"fidelity {float(fid):.6f} with the spec's branch state", replay=_rp(ev)))
        # the statement itself, on this random input, numerically: the simulator's state is U|psi> (x) aux up to a phase
        if b["verdict"] == "ok" and Rnp is not None:
            tgt = Rnp @ psi
            counts["statement_checked_numerically"] += 1
            if not _factor_ok(v, tgt, ev):
                viol.append(Violation(key=f"{ev['key']}:replay:not-target", detail=f"branch {b['o']}: K|psi> is not U|psi> (x) aux", replay=_rp(ev)))


def _factor_ok(v, tgt, ev):
    """v ~ tgt|nonaux (x) x : compare the reduced state on the non-aux wires"""
    n = ev["n"]
    aux0 = [a - 1 for a in ev["aux"]]
    keep = [i for i in range(n) if i not in aux0]
    V = np.moveaxis(v.reshape([2] * n), keep, range(len(keep))).reshape(1 << len(keep), -1)
    T = np.moveaxis(tgt.reshape([2] * n), keep, range(len(keep))).reshape(1 << len(keep), -1)[:, 0]
    rho = V @ V.conj().T
    return np.allclose(rho, np.outer(T, T.conj()), atol=1e-8)


def _rp(ev):
    return {k: ev[k] for k in ("op", "rule", "emitted", "n", "cs", "prep", "ref", "ops", "aux")}


def replay(path, tier="quick", seed=0):
    """Re-decide one recorded violation: the recorded circuit goes through BranchEval again."""
    import json
    doc = json.loads(open(path).read())
    rp = doc["replay"]
    if isinstance(rp, str):
        import ast
        rp = ast.literal_eval(rp)
    case = {"n": rp["n"], "cs": rp["cs"], "prep": rp["prep"], "ref": rp["ref"], "ops": rp["ops"], "aux": rp["aux"], "emit": 0}
    br, _, r = run_branch_eval([case], "replay", 900)
    bad = [b for b in br.get(0, []) if b["verdict"] != "ok"]
    viol = [Violation(key=doc.get("key", "replay"), detail=f"branches {[b['o'] for b in bad][:8]}: {sorted({b['verdict'] for b in bad})}", replay=rp)] if bad else []
    return CheckResult(coverage={"states": r.distinct, "transitions": r.generated, "traces_validated_against_impl": 0, "evaluations": len(br.get(0, [])),
                                 "distinct_nontrivial": 0, "rule": "replay of one recorded rule circuit", "samples": [], "exhaustive": True},
                       violations=viol, assumptions=["replay of a recorded circuit (the code is not re-run)"])


# ------------------------------------------------------------------------------------------ the check
def run(tier, seed):
    rng = random.Random(1313 + seed)
    # 0. the measurement semantics of the spec satisfies its own laws (all Pauli words up to length 3)
    from concurrent.futures import ThreadPoolExecutor
    wd = lib.workdir("C13", "ppmself")
    pool = ThreadPoolExecutor(1)
    fut = pool.submit(lib.run_tlc, "PpmSelf", lib.cfg(constants={"M": M}, invariants=["ProjLaws"]), wd, timeout=900, workers=2)
    events, viol, stats = collect(tier, seed)
    if not events:
        raise lib.MachineryError("no measurement-based rule discovered (vacuous)")
    max_k = 6 if tier == "quick" else 12
    max_n = 6 if tier == "quick" else 7
    sel, seen, big = [], {}, 0
    for ev in events:
        if ev["k"] > max_k or ev["n"] > max_n:
            stats["skipped"]["too many branches / wires for this tier"] = stats["skipped"].get("too many branches / wires for this tier", 0) + 1
            continue
        if ev["k"] >= 8:
            big += 1
            if big > 3:
                stats["skipped"]["more than 3 circuits with >= 256 branches"] = stats["skipped"].get("more than 3 circuits with >= 256 branches", 0) + 1
                continue
        seen[ev["key"]] = seen.get(ev["key"], 0) + 1
        if tier == "quick" and seen[ev["key"]] > 3:
            stats["skipped"]["quick tier: more than 3 instances of one (operator, rule)"] = \
                stats["skipped"].get("quick tier: more than 3 instances of one (operator, rule)", 0) + 1
            continue
        sel.append(ev)
    cases = [tlc_case(ev) for ev in sel]
    # second, independent encoding of every Pauli-product measurement (unitaries + one computational measurement)
    gsel, gseen = [], {}
    for i, ev in enumerate(sel):
        if any(x["g"] == "PPM" for x in ev["ops"]) and ev["k"] <= 6:
            gseen[ev["key"]] = gseen.get(ev["key"], 0) + 1
            if tier != "quick" or gseen[ev["key"]] <= 1:
                gsel.append(i)
    gcases = [tlc_case(sel[i], emit=1, ops=gadget_ops(sel[i]["ops"])) for i in gsel]
    # negative controls: (a) drop the last conditional correction, (b) flip one truth table, (c) wrong reference
    neg, neg_kind = [], []
    for i, ev in enumerate(sel):
        conds = [j for j, x in enumerate(ev["ops"]) if x["g"] == "COND" and x["op"]["g"] != "GlobalPhase" and
                 not (set(x["op"]["w"]) <= set(ev["aux"]))]
        if not conds or len(neg) >= (9 if tier == "quick" else 36):
            continue
        j = conds[len(neg) % len(conds)]
        ops_a = [x for t, x in enumerate(ev["ops"]) if t != j]
        allb = [list(b) for b in itertools.product([0, 1], repeat=len(ev["ops"][j]["ix"]))]
        ops_b = [dict(x, tt=[b for b in allb if b not in x["tt"]]) if t == j else x for t, x in enumerate(ev["ops"])]
        neg += [tlc_case(ev, 0, ops_a), tlc_case(ev, 0, ops_b), dict(tlc_case(ev, 0), ref=ev["ref"] + [rec("S", [ev["ipos"][0]])])]
        neg_kind += ["dropped-correction", "negated-condition", "wrong-reference"]
    br, refs, r1 = run_branch_eval(cases + gcases + neg, "branches", 1200 if tier == "quick" else 3000)
    rs = fut.result()
    pool.shutdown()
    lib.require_ok(rs, "PpmSelf")
    if rs.distinct != 39:
        raise lib.MachineryError(f"PpmSelf checked {rs.distinct} Pauli words, expected 39")
    states, trans = rs.distinct + r1.distinct, rs.generated + r1.generated
    # ---- verdicts
    counts = {"weight_comparisons": 0, "branches_attempted": 0, "branches_replayed": 0, "statement_checked_numerically": 0, "replay_errors": {}}
    n_br, n_ok, samples, nontriv, hist = 0, 0, [], set(), {}
    aux_varies, phase_varies = 0, 0
    for i, ev in enumerate(sel):
        bs = sorted(br.get(i, []), key=lambda b: b["o"])
        if not bs:
            raise lib.MachineryError(f"no branch emitted for {ev['key']}")
        C = len(ev["cs"])
        W = sum(weight(b) for b in bs) / C
        if abs(W - 1) > 1e-9:
            raise lib.MachineryError(f"branch weights of {ev['key']} sum to {W}")
        hist[len(bs)] = hist.get(len(bs), 0) + 1
        bad = {}
        for b in bs:
            n_br += 1
            if b["verdict"] == "overflow" or b["verdict"] == "bad-reference":
                raise lib.MachineryError(f"{b['verdict']} in {ev['key']}")
            if b["verdict"] != "ok":
                bad.setdefault(b["verdict"], []).append(b["o"])
            else:
                n_ok += 1
        for clause, outs in bad.items():
            viol.append(Violation(key=f"{ev['key']}:{clause}", detail=f"rule {ev['rule']} on {ev['op']}: outcome branches {outs[:8]} "
                                  f"({len(outs)} of {len(bs)}) do not apply the target operator: {clause}; emitted {ev['emitted']}", replay=_rp(ev)))
        if not bad and len(bs) >= 2:
            nontriv.add(ev["key"])
        # evidence only (mechanism, not the statement): does the aux state / the global scalar vary with the outcome?
        Rnp = lib.ring_matrix_to_numpy(refs[i], M) if i in refs else None
        if not bad and Rnp is not None:
            sc = []
            for b in bs:
                Kb = lib.ring_matrix_to_numpy(b["km"], M)
                p = np.unravel_index(np.argmax(np.abs(Rnp)), Rnp.shape)
                sc.append(Kb[:, p[1]])
            ph = [s / np.linalg.norm(s) for s in sc]
            if any(abs(abs(np.vdot(ph[0], x)) - 1) > 1e-8 for x in ph[1:]):
                aux_varies += 1
            elif any(abs(np.vdot(ph[0], x) - 1) > 1e-8 for x in ph[1:]):
                phase_varies += 1
        if len(samples) < 4 and not bad and ev["key"] not in [s["key"] for s in samples]:
            samples.append({"key": ev["key"], "op": ev["op"], "rule": ev["rule"], "emitted": ev["emitted"][:14],
                            "branches": [{"outcomes": b["o"], "weight": round(weight(b) / C, 6), "verdict": b["verdict"]} for b in bs[:8]]})
        replay_on_device(ev, bs, Rnp, rng, viol, counts)
    # ---- both encodings of the Pauli-product measurement agree branch by branch
    agree = 0
    for t, i in enumerate(gsel):
        a = {tuple(b["o"]): b for b in br.get(i, [])}
        g = {tuple(b["o"]): b for b in br.get(len(cases) + t, [])}
        if set(a) != set(g):
            raise lib.MachineryError(f"PPM and gadget encodings enumerate different branches for {sel[i]['key']}")
        for o_ in a:
            if a[o_]["verdict"] != g[o_]["verdict"] or not np.allclose(lib.ring_matrix_to_numpy(a[o_]["km"], M),
                                                                      lib.ring_matrix_to_numpy(g[o_]["km"], M), atol=1e-12):
                raise lib.MachineryError(f"PPM projector and its gadget disagree on {sel[i]['key']} branch {o_}")
            agree += 1
    # ---- negative controls must be rejected on at least one branch
    off = len(cases) + len(gcases)
    rejected = {}
    for t, kind in enumerate(neg_kind):
        if any(b["verdict"] != "ok" for b in br.get(off + t, [])):
            rejected[kind] = rejected.get(kind, 0) + 1
    if not neg_kind or any(rejected.get(kd, 0) != neg_kind.count(kd) for kd in set(neg_kind)):
        raise lib.MachineryError(f"negative controls: rejected {rejected} of {len(neg_kind)} ({ {kd: neg_kind.count(kd) for kd in set(neg_kind)} })")
    if counts["branches_replayed"] < 0.8 * counts["branches_attempted"]:
        raise lib.MachineryError(f"only {counts['branches_replayed']} of {counts['branches_attempted']} branches could be replayed on "
                                 f"default.qubit: {counts['replay_errors']}")
    scan = registry_scan()
    cov = {"states": states, "transitions": trans, "traces_validated_against_impl": len(sel), "evaluations": n_br,
           "distinct_nontrivial": len(nontriv),
           "rule": "every (operator instance, registered rule) whose emitted circuit contains a measurement or a classically controlled "
                   "operation; non-trivial = distinct (operator, rule) pairs with >= 2 non-null outcome branches, all decided 'ok' by TLC",
           "samples": samples, "exhaustive": True, "branches_decided": n_br, "branches_ok": n_ok, "branch_count_histogram": hist,
           "measurement_rules_found": sorted({ev["key"] for ev in events}), "rules_gated_by_compiler": sorted({ev["key"] for ev in events if ev["gated"]}),
           "registry_rules_mentioning_measurement": sorted(scan),
           "registry_measurement_rules_not_exercised": sorted(scan - {ev["key"] for ev in sel}),
           "ppm_vs_gadget_branches_agree": agree, "negative_controls_rejected": sum(rejected.values()),
           "aux_state_varies_with_outcome(evidence only)": aux_varies, "global_phase_varies_with_outcome(evidence only)": phase_varies,
           "ppm_law_states": rs.distinct, **counts, **stats}
    return CheckResult(coverage=cov, violations=viol, assumptions=[
        "a Pauli-product measurement is the documented eigenprojector pair (outcome 0 <-> +1); PennyLane has no executable PauliMeasure, so the "
        "default.qubit replay executes it as basis change + parity CNOTs + one measurement (shown equal to the projector inside TLC)",
        "'known state' of an auxiliary (burnable, not restored) wire = a pure state determined by the outcomes, unentangled with the targets; "
        "declared zeroed work wires and the AND target must end in |0> exactly",
        "operator semantics from the reference table / documented definition (AND = Toffoli on target |0>, QROM = table lookup XOR); "
        "rules registered for compiled execution only (is_applicable requires an active compiler) are included"])
