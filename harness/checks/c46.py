"""C46 Resource counts report what the circuit contains (qp.specs, tape.specs, pennylane.resource).

(M) SpecsModel.tla defines the summary of a circuit directly from the circuit: counts by type, number of wires (operations and
    measurements), depth = longest path of the dependency DAG (shared wire or classical control), plus an independent as-soon-as-possible
    schedule; and the algebra of symbolic counts (integer polynomials: +, *, scaling, substitution, evaluation).  SpecsGen.tla enumerates
    every circuit up to the bound x every measurement kind and polynomial cases; TLC checks the model's own laws (both depth definitions
    agree, counts partition the operations, append laws, operations commute with evaluation) and emits the expected values.
(R) spec -> code: every emitted circuit is built as a QuantumScript (tape.specs, resources_from_tape) and, for a sample, as a QNode
    (qp.specs at level "top"); every polynomial case is run on pennylane.resource.Expression / SpecsResources.
(T) code -> spec: seeded larger circuits (templates, controlled / adjoint / pow operators, wireless global phases, mid-circuit
    measurements with conditionals, mixed wire labels) and QNodes with transform pipelines at every level (the circuit at level i is
    obtained by applying the first i transforms by hand) are summarised by the real code; each (circuit, reported summary) record is
    recomputed by Trace_Specs.tla which prints a verdict per record."""
import collections
import functools
import json
import os
import random
import time

import numpy as np

import pennylane as qp
from pennylane.resource import Expression, SpecsResources, resources_from_tape

from .. import lib
from ..lib import CheckResult, Violation

VARNAMES = {1: "a", 2: "b", 3: "c"}


# ------------------------------------------------------------------------------------------------ circuits from TLC
def build_ops(spec_ops, in_qnode=False):
    """TLC circuit -> operators (fresh objects); inside a QNode the same calls queue them"""
    ops, mvs = [], []
    for i, o in enumerate(spec_ops):
        g, w = o["g"], o["w"]
        if g == "H":
            ops.append(qp.Hadamard(w[0]))
        elif g == "RX":
            ops.append(qp.RX(0.1 * (i + 1), w[0]))
        elif g == "CNOT":
            ops.append(qp.CNOT(w))
        elif g == "Toffoli":
            ops.append(qp.Toffoli(w))
        elif g == "GP":
            ops.append(qp.GlobalPhase(0.3))
        elif g == "M":
            mv = qp.measure(w[0])
            mvs.append(mv)
            ops.append(mv.measurements[0])
        elif g == "Cond":
            if in_qnode:
                qp.cond(mvs[-1], qp.X)(w[0])
                ops.append(None)
            else:
                ops.append(qp.ops.Conditional(mvs[-1], qp.X(w[0])))
        else:
            raise lib.MachineryError(f"unknown gate {g}")
    return ops


def build_meas(kind, W):
    return {"z0": lambda: qp.expval(qp.Z(0)), "all": lambda: qp.probs(), "extra": lambda: qp.probs(wires=[W])}[kind]()


def type_names():
    """reported name of each alphabet type = the name attribute of an instance (codec, not part of the property)"""
    sp = [{"g": "H", "w": [0]}, {"g": "RX", "w": [0]}, {"g": "CNOT", "w": [0, 1]}, {"g": "Toffoli", "w": [0, 1, 2]}, {"g": "GP", "w": []},
          {"g": "M", "w": [0]}, {"g": "Cond", "w": [1]}]
    return {s["g"]: op.name for s, op in zip(sp, build_ops(sp))}


def observe(res):
    d = res.depth
    return {"counts": {k: int(v) for k, v in res.quantum_operations.items()}, "total": int(res.total_quantum_operations),
            "wires": int(res.num_wires), "depth": -1 if d is None else int(d)}


def compare(obs, exp, with_depth=True):
    for f in ("counts", "total", "wires") + (("depth",) if with_depth else ()):
        if obs[f] != exp[f]:
            return {"counts": "gate-counts", "total": "total-operations", "wires": "num-wires", "depth": "depth"}[f]
    return None


# ------------------------------------------------------------------------------------------------ encoding tapes for Trace_Specs
def encode_tape(tape, wire_ids):
    """tape -> (ops, mw): names, integer wires, classical dependencies (by identity of the measurement operations)"""
    ops = []
    mp_pos = {}
    for i, op in enumerate(tape.operations):
        if isinstance(op, qp.ops.MidMeasure):
            mp_pos[id(op)] = i + 1
    for op in tape.operations:
        dep = []
        if isinstance(op, qp.ops.Conditional):
            for m in op.meas_val.measurements:
                if id(m) not in mp_pos:
                    raise lib.MachineryError("conditional on a measurement that is not in the tape")
                dep.append(mp_pos[id(m)])
        ops.append({"g": op.name, "w": [wire_ids.setdefault(w, len(wire_ids)) for w in op.wires], "dep": sorted(set(dep))})
    mw = sorted({wire_ids.setdefault(w, len(wire_ids)) for mp in tape.measurements for w in mp.wires})
    return ops, mw


def record(tape, res, where):
    wire_ids = {}
    ops, mw = encode_tape(tape, wire_ids)
    o = observe(res)
    return {"ops": ops, "mw": mw, "rep": {"counts": [[k, v] for k, v in sorted(o["counts"].items())], "total": o["total"], "wires": o["wires"],
                                          "depth": o["depth"]}, "where": where}


# ------------------------------------------------------------------------------------------------ seeded circuits
LABELS = [0, 1, 2, 3, "a", "b", 7]


def rand_ops(rng, n, nw, allow_mcm=True, simple=False):
    """-> list of thunks producing operators (fresh on every call, so QNodes can queue them)"""
    ws = LABELS[:nw]
    out, mcm_slots = [], []

    def pick(k):
        return rng.sample(ws, k)
    for _ in range(n):
        if simple:
            kinds = ["H", "X", "S", "RX", "RZ", "CNOT", "CZ", "SWAP", "RXpair", "Xpair", "Hpair", "CNOTpair", "Rot", "Toffoli"]
        else:
            kinds = ["H", "X", "S", "T", "RX", "RY", "RZ", "Rot", "CNOT", "CZ", "SWAP", "CRX", "Toffoli", "MCX", "QFT", "ctrl2", "ctrl1", "adj", "pow",
                     "GP", "GPw", "I", "M", "M", "Cond", "Cond", "Barrier", "BasisState", "IsingXX"]
        k = rng.choice(kinds)
        th = rng.uniform(0.1, 3.0)
        if k in ("H", "X", "S", "T", "I"):
            w = pick(1)
            cls = {"H": qp.Hadamard, "X": qp.X, "S": qp.S, "T": qp.T, "I": qp.Identity}[k]
            out.append(lambda cls=cls, w=w: [cls(w[0])])
        elif k in ("RX", "RY", "RZ"):
            w = pick(1)
            out.append(lambda k=k, w=w, th=th: [getattr(qp, k)(th, w[0])])
        elif k == "Rot":
            w = pick(1)
            out.append(lambda w=w, th=th: [qp.Rot(th, 0.2, 0.3, w[0])])
        elif k in ("CNOT", "CZ", "SWAP", "IsingXX") and nw >= 2:
            w = pick(2)
            if k == "IsingXX":
                out.append(lambda w=w, th=th: [qp.IsingXX(th, w)])
            else:
                out.append(lambda k=k, w=w: [getattr(qp, k)(w)])
        elif k == "CRX" and nw >= 2:
            w = pick(2)
            out.append(lambda w=w, th=th: [qp.CRX(th, w)])
        elif k == "Toffoli" and nw >= 3:
            w = pick(3)
            out.append(lambda w=w: [qp.Toffoli(w)])
        elif k == "MCX" and nw >= 4:
            w = pick(4)
            out.append(lambda w=w: [qp.MultiControlledX(wires=w)])
        elif k == "QFT" and nw >= 2:
            w = pick(rng.randint(2, min(nw, 4)))
            out.append(lambda w=w: [qp.QFT(wires=w)])
        elif k == "ctrl2" and nw >= 3:
            w = pick(3)
            out.append(lambda w=w, th=th: [qp.ctrl(qp.RY(th, w[2]), control=w[:2])])
        elif k == "ctrl1" and nw >= 3:
            w = pick(3)
            out.append(lambda w=w: [qp.ctrl(qp.SWAP(w[1:]), control=w[0])])
        elif k == "adj":
            w = pick(1)
            out.append(lambda w=w: [qp.adjoint(qp.S(w[0]))])
        elif k == "pow":
            w = pick(1)
            out.append(lambda w=w: [qp.pow(qp.T(w[0]), 3, lazy=True)])
        elif k == "GP":
            out.append(lambda th=th: [qp.GlobalPhase(th)])
        elif k == "GPw":
            w = pick(1)
            out.append(lambda w=w, th=th: [qp.GlobalPhase(th, wires=w)])
        elif k == "Barrier" and nw >= 2:
            w = pick(2)
            out.append(lambda w=w: [qp.Barrier(wires=w)])
        elif k == "BasisState" and nw >= 2:
            w = pick(2)
            out.append(lambda w=w: [qp.BasisState(np.array([1, 0]), wires=w)])
        elif k == "M" and allow_mcm:
            w = pick(1)
            mcm_slots.append(len(out))
            out.append(("M", w[0]))
        elif k == "Cond" and allow_mcm and mcm_slots:
            w = pick(1)
            out.append(("Cond", w[0], rng.choice(mcm_slots), rng.choice(mcm_slots)))
        elif k == "RXpair":
            w = pick(1)
            out.append(lambda w=w, th=th: [qp.RX(th, w[0]), qp.RX(0.5, w[0])])
        elif k == "Xpair":
            w = pick(1)
            out.append(lambda w=w: [qp.X(w[0]), qp.X(w[0])])
        elif k == "Hpair":
            w = pick(1)
            out.append(lambda w=w: [qp.Hadamard(w[0]), qp.Hadamard(w[0])])
        elif k == "CNOTpair" and nw >= 2:
            w = pick(2)
            out.append(lambda w=w: [qp.CNOT(w), qp.CNOT(w)])
        else:
            w = pick(1)
            out.append(lambda w=w: [qp.Hadamard(w[0])])
    return out


def realise(thunks, in_qnode=False):
    """run the thunks: list of operators (outside a QNode) / queue them (inside)"""
    ops, mvs = [], {}
    for i, t in enumerate(thunks):
        if isinstance(t, tuple):
            if t[0] == "M":
                mv = qp.measure(t[1])
                mvs[i] = mv
                ops.append(mv.measurements[0])
            else:
                m1, m2 = mvs[t[2]], mvs[t[3]]
                cond = m1 if t[2] == t[3] else (m1 & m2)
                if in_qnode:
                    qp.cond(cond, qp.X)(t[1])
                else:
                    ops.append(qp.ops.Conditional(cond, qp.X(t[1])))
        else:
            ops.extend(t())
    return ops


def rand_meas(rng, nw):
    ws = LABELS[:nw]
    r = rng.random()
    if r < 0.3:
        return lambda: [qp.expval(qp.Z(ws[0]))]
    if r < 0.5:
        return lambda: [qp.probs()]
    if r < 0.7:
        return lambda: [qp.probs(wires=["aux"])]
    if r < 0.85 and nw >= 2:
        return lambda: [qp.expval(qp.X(ws[0]) @ qp.Z(ws[1])), qp.var(qp.Z("m"))]
    return lambda: [qp.expval(qp.Z(ws[0])), qp.expval(qp.X(ws[0]))]


TRANSFORMS = {
    "cancel_inverses": qp.transforms.cancel_inverses,
    "merge_rotations": qp.transforms.merge_rotations,
    "commute_controlled": qp.transforms.commute_controlled,
    "undo_swaps": qp.transforms.undo_swaps,
    "single_qubit_fusion": qp.transforms.single_qubit_fusion,
    "decompose": functools.partial(qp.transforms.decompose, gate_set={"RX", "RY", "RZ", "CNOT", "Hadamard", "GlobalPhase", "PhaseShift"}),
    "split_non_commuting": qp.transforms.split_non_commuting,
}


def apply_by_hand(tape, names):
    batch = [tape]
    for n in names:
        nxt = []
        for t in batch:
            out, _ = TRANSFORMS[n](t)
            nxt.extend(out)
        batch = nxt
    return batch


# ------------------------------------------------------------------------------------------------ polynomials
def to_obj(pairs):
    """[[mono, coeff], ...] -> int (constant) or Expression"""
    d = {tuple(VARNAMES[v] for v in m): k for m, k in pairs}
    if not d:
        return 0
    if set(d) == {()}:
        return d[()]
    return Expression(d)


def poly_outcomes(case):
    """run one polynomial case on the real class -> list of (how, result)"""
    P, Q = to_obj(case["p"]), to_obj(case["q"])
    op = case["op"]
    if op == "add":
        return [("p + q", P + Q), ("q + p", Q + P)]
    if op == "mul":
        return [("p * q", P * Q), ("q * p", Q * P)]
    if op == "scale":
        return [("p * k", P * case["k"]), ("k * p", case["k"] * P)]
    v = VARNAMES[case["v"]]
    if isinstance(P, int):
        return []
    return [("p.subs({v: val})", P.subs({v: case["val"]})), ("p.subs(v=val)", P.subs(**{v: case["val"]}))]


def poly_compare(res, case):
    exp = to_obj(case["res"])
    if not (res == exp and exp == res):
        return "result"
    if hash(res) != hash(exp):
        return "hash"
    for env, val in zip(case["envs"], case["vals"]):
        got = res if isinstance(res, int) else res.subs({VARNAMES[i + 1]: x for i, x in enumerate(env) if VARNAMES[i + 1] in res.vars})
        if not isinstance(got, int) or got != val:
            return "evaluation"
    return None


# ------------------------------------------------------------------------------------------------ the check
def run(tier, seed):
    quick = tier == "quick"
    rng = random.Random(seed)
    t_start = time.time()

    def tick(what):
        if os.environ.get("VERIF_TIMING"):
            print(f"[C46 {time.time() - t_start:6.1f}s] {what}")
    viol, seen = [], collections.Counter()

    def flag(key, detail, replay):
        seen[key] += 1
        if seen[key] <= 3:
            viol.append(Violation(key=key, detail=detail, replay=replay))
    W, maxops = (3, 3) if quick else (3, 4)
    alphabet = [("H", 1, "FALSE"), ("RX", 1, "FALSE"), ("CNOT", 2, "FALSE"), ("Toffoli", 3, "TRUE"), ("GP", 0, "FALSE"), ("M", 1, "FALSE"),
                ("Cond", 1, "FALSE")]
    alphabet = [a for a in alphabet if a[0] != "RX"]          # one single-wire type keeps the enumeration small; types differ by arity anyway
    defs = {"Alphabet": "{" + ", ".join(f'[g |-> "{g}", k |-> {k}, sym |-> {s}]' for g, k, s in alphabet) + "}",
            "Coefs": "{-1, 1, 2}" if quick else "{-2, -1, 1, 3}", "Scalars": "{-1, 0, 3}", "SubVals": "{0, 2}" if quick else "{-1, 0, 2}",
            "Envs": "{<<2, 3>>, <<-1, 2>>, <<0, 1>>, <<1, 0>>}"}
    g = lib.run_tlc_mc("SpecsGen", defs, lib.workdir("C46", "gen"), constants={"W": W, "MaxOps": maxops, "NV": 2, "SpreadKinds": "TRUE"}, init="InitAll", next_="NextAll",
                       invariants=["LawsC", "LawsP"], timeout=3000)
    if g.invariant_violated:
        raise lib.MachineryError(f"SpecsModel violates its own law {g.invariant_violated} (oracle error): " + g.out[-1500:])
    lib.require_ok(g, "SpecsGen")
    circ = [x for x in g.json_lines if x["kind"] == "circ"]
    poly = [x for x in g.json_lines if x["kind"] == "poly"]
    tick(f"generator done: {len(circ)} circuits, {len(poly)} polynomial cases")
    if len(circ) < 3000 or len(poly) < 1000:
        raise lib.MachineryError(f"generator produced too few cases ({len(circ)}, {len(poly)})")
    names = type_names()
    st = collections.Counter()
    nontriv, samples = set(), []
    n_eval = 0
    dev = qp.device("default.qubit")
    # ---------------------------------------------------------------- (R1) circuits
    for case in circ:
        if not case["exp"]["counts"]:
            case["exp"]["counts"] = {}                      # TLC prints the empty function as []
    for ci, case in enumerate(circ):
        exp = dict(case["exp"], counts={names[k]: v for k, v in case["exp"]["counts"].items()})
        label = " ".join(f"{o['g']}{o['w']}" for o in case["ops"]) + " | " + case["meas"]
        if exp["wires"] == 0 and exp["total"] > 0:
            st["degenerate_circuits_without_any_wire"] += 1          # only wire-less operations and a measurement of "all" (= no) wires
            continue
        ops = build_ops(case["ops"])
        tape = qp.tape.QuantumScript(ops, [build_meas(case["meas"], W)])
        outs = [("tape.specs", observe(tape.specs["resources"]), True)]
        if ci % 3 == 0:
            outs.append(("resources_from_tape(compute_depth=False)", observe(resources_from_tape(tape, compute_depth=False)), False))
        if ci % (6 if quick else 12) == 0:
            def f(case=case):
                build_ops(case["ops"], in_qnode=True)
                return build_meas(case["meas"], W)
            s = qp.specs(qp.QNode(f, dev), level="top")()
            outs.append(("qp.specs(qnode, level='top')", observe(s.resources), True))
            st["replayed_as_qnode"] += 1
        bad = False
        for how, o, wd in outs:
            n_eval += 1
            cl = compare(o, exp, wd)
            if not wd and o["depth"] != -1:
                cl = cl or "depth-computed-although-disabled"
            if cl:
                bad = True
                flag(f"{how.split('(')[0]}:{cl}", f"{how}: {cl} for circuit [{label}]: reported {o}, computed from the circuit {exp}",
                     {"case": case, "observed": o, "call": how})
        par = exp["depth"] < exp["total"]
        seq = any(o["g"] in ("GP", "Cond") for o in case["ops"])
        st["circuits_with_parallel_ops"] += par and exp["depth"] > 1
        st["circuits_with_wireless_op"] += any(o["g"] == "GP" for o in case["ops"])
        st["circuits_with_classical_dependency"] += any(o["g"] == "Cond" for o in case["ops"])
        st["circuits_with_measurement_only_wire"] += case["meas"] == "extra"
        if not bad and exp["total"] >= 2 and 1 < exp["depth"] < exp["total"]:
            nontriv.add(label)
            if len(samples) < 2 and seq and ci % 11 == 0:
                samples.append({"circuit": label, "expected": exp})
    # negative control of the comparator (synthetic: the expectation against a corrupted copy of itself)
    probe = next(x for x in circ if x["exp"]["total"] == 3 and x["exp"]["depth"] == 2)
    pexp = dict(probe["exp"], counts={names[k]: v for k, v in probe["exp"]["counts"].items()})
    if compare(dict(pexp), pexp) is not None or compare(dict(pexp, depth=3), pexp) != "depth" or \
            compare(dict(pexp, wires=pexp["wires"] + 1), pexp) != "num-wires":
        raise lib.MachineryError("negative control accepted by the summary comparator")
    neg_cmp = 2
    tick("circuits replayed")
    # ---------------------------------------------------------------- (R2) polynomials
    for pi, case in enumerate(poly):
        try:
            outs = poly_outcomes(case)
        except Exception as e:  # noqa: BLE001
            flag(f"Expression.{case['op']}:exception:{type(e).__name__}", f"{case['op']} raised {e!r} for {case}", {"case": case})
            continue
        if isinstance(to_obj(case["p"]), int) and (case["op"] in ("scale", "subs") or isinstance(to_obj(case["q"]), int)):
            st["poly_cases_int_only"] += 1
            continue
        for how, res in outs:
            n_eval += 1
            cl = poly_compare(res, case)
            if cl:
                flag(f"Expression.{case['op']}:{cl}", f"{how} with p={to_obj(case['p'])!r} q={to_obj(case['q'])!r} k={case['k']} v={VARNAMES[case['v']]} "
                                                       f"val={case['val']}: got {res!r}, expected {to_obj(case['res'])!r} (values {case['vals']} at {case['envs']})",
                     {"case": case, "call": how, "got": repr(res)})
        st["poly_cases"] += 1
        st["poly_cancellations"] += len(case["res"]) < max(len(case["p"]), len(case["q"])) and case["op"] == "add"
        st["poly_results_constant"] += all(m == [] for m, _ in case["res"])
        if case["op"] == "mul" and len(case["res"]) >= 2:
            nontriv.add("poly:" + json.dumps([case["p"], case["q"]]))
        # the same algebra through SpecsResources: the total is the sum of the counts, substitution acts on every count
        if case["op"] == "add" and pi % 4 == 0:
            P, Q = to_obj(case["p"]), to_obj(case["q"])
            r = SpecsResources(counts={"A": P, "B": Q}, measurement_processes={}, num_wires=1)
            n_eval += 1
            st["specsresources_totals"] += 1
            if poly_compare(r.total_quantum_operations, case):
                flag("SpecsResources:total_quantum_operations", f"counts A={P!r} B={Q!r}: total {r.total_quantum_operations!r}, expected {to_obj(case['res'])!r}",
                     {"case": case})
            env = {VARNAMES[i + 1]: x for i, x in enumerate(case["envs"][0])}
            sub = {k: v for k, v in env.items() if k in r.vars}
            if sub:
                r2 = r.subs(sub)
                tot = r2.total_quantum_operations
                full = tot if isinstance(tot, int) else tot.subs({k: v for k, v in env.items() if k in tot.vars})
                if full != case["vals"][0]:
                    flag("SpecsResources.subs:total", f"counts A={P!r} B={Q!r} subs {sub}: total {tot!r}, expected value {case['vals'][0]}", {"case": case})
        if case["op"] == "subs" and VARNAMES[case["v"]] in {VARNAMES[v] for m, _ in case["p"] for v in m} and pi % 3 == 0:
            P = to_obj(case["p"])
            r2 = SpecsResources(counts={"A": P, "B": 2}, measurement_processes={}, num_wires=1).subs({VARNAMES[case["v"]]: case["val"]})
            n_eval += 1
            st["specsresources_subs"] += 1
            if poly_compare(r2.counts["A"], case) or r2.counts["B"] != 2:
                flag("SpecsResources.subs:counts", f"counts A={P!r} subs {VARNAMES[case['v']]}={case['val']}: {r2.counts!r}, expected A={to_obj(case['res'])!r}",
                     {"case": case})
    probe = next(x for x in poly if x["op"] == "mul" and len(x["res"]) >= 2)
    badp = dict(probe, res=[[m, k + 1] for m, k in probe["res"]])
    res0 = to_obj(probe["res"])                                   # synthetic: the expected object against a corrupted expectation
    if poly_compare(res0, probe) is not None or poly_compare(res0, badp) is None:
        raise lib.MachineryError("negative control accepted by the polynomial comparator")
    neg_cmp += 1
    tick("polynomials replayed")
    # ---------------------------------------------------------------- (T) seeded circuits and QNode pipelines
    recs = []
    n_t = 500 if quick else 6000
    for it in range(n_t):
        nw = rng.randint(1, 6)
        thunks = rand_ops(rng, rng.randint(1, 14), nw)
        meas = rand_meas(rng, nw)
        tape = qp.tape.QuantumScript(realise(thunks), meas())
        if it % 2:
            recs.append(record(tape, tape.specs["resources"], "tape.specs"))
        else:
            cd = it % 4 == 0
            recs.append(record(tape, resources_from_tape(tape, compute_depth=cd), f"resources_from_tape(compute_depth={cd})"))
        st["recorded_tapes"] += 1
    n_q = 70 if quick else 700
    tnames = [k for k in TRANSFORMS if k != "split_non_commuting"]
    for it in range(n_q):
        nw = rng.randint(2, 4)
        thunks = rand_ops(rng, rng.randint(3, 9), nw, allow_mcm=False, simple=True)
        pipeline = [rng.choice(tnames) for _ in range(rng.randint(1, 3))]
        split = rng.random() < 0.25
        ws = LABELS[:nw]
        if split:
            pipeline.append("split_non_commuting")

            def meas(ws=ws):
                return [qp.expval(qp.Z(ws[0])), qp.expval(qp.X(ws[0])), qp.expval(qp.Z(ws[1]))]
        else:
            def meas(ws=ws):
                return [qp.expval(qp.Z(ws[0]) @ qp.Z(ws[1]))]

        def f(x, thunks=thunks, meas=meas, ws=ws):
            qp.RY(x, ws[0])
            realise(thunks, in_qnode=True)
            ms = meas()
            return tuple(ms) if len(ms) > 1 else ms[0]
        qn = qp.QNode(f, dev)
        for n in pipeline:
            qn = TRANSFORMS[n](qn)
        x = 0.37

        def fresh_base(thunks=thunks, meas=meas, ws=ws):
            # a new tape for every use: some transforms modify the tape they are given
            return qp.tape.QuantumScript([qp.RY(x, ws[0])] + realise(thunks), meas())
        n_base = len(fresh_base().operations)
        levels = list(range(len(pipeline) + 1)) + ["top", "user"]
        for lvl in levels:
            k = {"top": 0, "user": len(pipeline)}.get(lvl, lvl)
            try:
                expected = apply_by_hand(fresh_base(), pipeline[:k])
            except Exception:  # noqa: BLE001 - a transform that rejects the circuit is not a statement about specs
                st["pipeline_levels_skipped"] += 1
                continue
            try:
                s = qp.specs(qn, level=lvl)(x)
            except Exception as e:  # noqa: BLE001
                flag(f"qp.specs:exception:{type(e).__name__}", f"qp.specs(qnode, level={lvl!r}) raised {e!r} for pipeline {pipeline}; the transforms "
                                                               f"applied by hand give {len(expected)} tape(s)", {"pipeline": pipeline, "level": lvl})
                continue
            rep = s.resources if isinstance(s.resources, list) else [s.resources]
            st["recorded_qnode_levels"] += 1
            if len(rep) != len(expected):
                flag("qp.specs:number-of-tapes", f"level {lvl} of pipeline {pipeline}: {len(rep)} summaries for {len(expected)} tapes",
                     {"pipeline": pipeline, "level": lvl})
                continue
            st["recorded_batched_levels"] += len(rep) > 1
            for bi, (tp, rs) in enumerate(zip(expected, rep)):
                recs.append(record(tp, rs, f"qp.specs(qnode, level={lvl!r}) pipeline={pipeline} tape {bi}"))
                st["levels_that_changed_the_circuit"] += k > 0 and len(tp.operations) != n_base
        # device / gradient level: the circuit is the one the workflow constructs for that level
        for lvl in ("gradient", "device"):
            try:
                batch, _ = qp.workflow.construct_batch(qn, level=lvl)(x)
                s = qp.specs(qn, level=lvl)(x)
            except Exception:  # noqa: BLE001
                st["pipeline_levels_skipped"] += 1
                continue
            rep = s.resources if isinstance(s.resources, list) else [s.resources]
            if len(rep) == len(batch):
                for tp, rs in zip(batch, rep):
                    recs.append(record(tp, rs, f"qp.specs(qnode, level={lvl!r}) pipeline={pipeline}"))
                st["recorded_qnode_levels"] += 1
    tick(f"recorded {len(recs)} summaries")
    # negative controls: one field of a correct record corrupted -> Trace_Specs must name that field
    neg = []
    src = {"ops": [{"g": "Hadamard", "w": [0], "dep": []}, {"g": "CNOT", "w": [0, 1], "dep": []}, {"g": "Hadamard", "w": [1], "dep": []},
                   {"g": "PauliX", "w": [2], "dep": []}], "mw": [0, 3], "where": "synthetic",
           "rep": {"counts": [["CNOT", 1], ["Hadamard", 2], ["PauliX", 1]], "total": 4, "wires": 4, "depth": 3}}      # hand-written, correct
    neg.append((len(recs), "ok", src))
    for fld, expect in (("depth", "depth"), ("wires", "num-wires"), ("total", "total-operations")):
        neg.append((len(recs) + len(neg), expect, dict(src, rep=dict(src["rep"], **{fld: src["rep"][fld] + 1}))))
    c2 = [list(x) for x in src["rep"]["counts"]]
    c2[0][1] += 1
    neg.append((len(recs) + len(neg), "gate-counts", dict(src, rep=dict(src["rep"], counts=c2))))
    neg.append((len(recs) + len(neg), "gate-counts", dict(src, rep=dict(src["rep"], counts=src["rep"]["counts"][:2]))))
    allrecs = recs + [n[2] for n in neg]
    wd = lib.workdir("C46", "trace")
    (wd / "traces.json").write_text(json.dumps([{k: v for k, v in r.items() if k != "where"} for r in allrecs]))
    r = lib.run_tlc("Trace_Specs", lib.cfg(init="TInit", next_="TNext", constants={"NTRACES": len(allrecs)}), wd,
                    env={"TRACE_FILE": str(wd / "traces.json")}, timeout=3000)
    lib.require_ok(r, "Trace_Specs")
    tick("trace validation done")
    verd = {t[1] - 1: t[2] for t in r.tuples if t[0] == "V"}
    if len(verd) != len(allrecs):
        raise lib.MachineryError(f"verdicts not total: {len(verd)} of {len(allrecs)}")
    for i, expect, _ in neg:
        if verd[i] != expect:
            raise lib.MachineryError(f"negative control '{expect}' not rejected by Trace_Specs (verdict {verd[i]})")
    for i, rc in enumerate(recs):
        v = verd[i]
        if v == "oracle-definitions-disagree":
            raise lib.MachineryError(f"SpecsModel's two depth definitions disagree on {rc['ops']}")
        rep = rc["rep"]
        if rc["ops"] and not rc["mw"] and not any(o["w"] for o in rc["ops"]):
            st["degenerate_circuits_without_any_wire"] += 1
            continue
        if v != "ok":
            flag(f"{rc['where'].split('(')[0]}:{v}", f"{rc['where']}: {v}: reported {rep} for circuit {rc['ops']} measured wires {rc['mw']}",
                 {"record": rc})
        elif rep["total"] >= 3 and 1 < rep["depth"] < rep["total"]:
            nontriv.add("rec:" + json.dumps(rc["ops"]))
            if len(samples) < 5 and "pipeline" in rc["where"] and "level=2" in rc["where"]:
                samples.append({"recorded": rc["where"], "reported": rep, "operations": len(rc["ops"]), "verdict": v})
        st["recorded_with_classical_dependency"] += any(o["dep"] for o in rc["ops"])
        st["recorded_with_wireless_op"] += any(not o["w"] for o in rc["ops"])
        st["recorded_with_depth"] += rep["depth"] >= 0
    need = {"circuits_with_parallel_ops": 500, "circuits_with_wireless_op": 200, "circuits_with_classical_dependency": 100,
            "circuits_with_measurement_only_wire": 500, "replayed_as_qnode": 200, "poly_cases": 1000, "poly_cancellations": 5,
            "poly_results_constant": 20, "specsresources_totals": 50, "specsresources_subs": 20, "recorded_tapes": 300,
            "recorded_qnode_levels": 150, "recorded_batched_levels": 5, "levels_that_changed_the_circuit": 30,
            "recorded_with_classical_dependency": 15, "recorded_with_wireless_op": 30}
    for k, v in need.items():
        if st[k] < v and not viol:
            raise lib.MachineryError(f"vacuous: '{k}' = {st[k]} < {v}")
    cov = {"states": g.distinct + r.distinct, "transitions": g.generated + r.generated,
           "traces_validated_against_impl": len(recs), "evaluations": n_eval + len(recs), "distinct_nontrivial": len(nontriv),
           "rule": "SpecsGen.tla enumerates every circuit of <= MaxOps operations over the alphabet (all placements on W wires, wireless global "
                   "phase, mid-circuit measurement + conditional) x 3 measurement kinds, and the polynomial cases; non-trivial = distinct "
                   "circuit (replayed or recorded) with >= 2 operations whose depth is > 1 and < the number of operations and whose summary "
                   "agreed, plus distinct polynomial products with >= 2 result terms",
           "samples": samples, "exhaustive": True,
           "model": {"module": "SpecsModel / SpecsGen", "invariants": ["LawsC", "LawsP"], "circuits": len(circ), "polynomial_cases": len(poly),
                     "W": W, "MaxOps": maxops, "alphabet": [a[0] for a in alphabet]},
           "negative_controls_rejected": neg_cmp + len(neg) - 1, "tlc_wall_s": [round(g.wall_s, 1), round(r.wall_s, 1)],
           **{k: int(v) for k, v in st.items()}}
    return CheckResult(coverage=cov, violations=viol, assumptions=[
        "the reported name of an operation type is the name attribute of its instances (codec); measurement-process strings are not judged",
        "this version of qp.specs / SpecsResources does not report trainable parameters or gate sizes: not checked (see C40 for parameters)",
        "Resources objects have no + / * in this version; 'add and scale' is decided for resource Expression (+, *, subs) and for "
        "SpecsResources totals / substitution",
        "the circuit at an integer / 'top' / 'user' level is obtained by applying the transforms by hand; at 'gradient' / 'device' it is the "
        "batch construct_batch returns (C23 covers level routing)"])
