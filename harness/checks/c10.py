"""C10 Every registered decomposition rule implements its operator exactly (and C11 shares the traces).

TRACE/REL: for every operator instance of the generator and every rule of the live registry that reports itself
applicable, the driver records ApplyRule(instance, rule, emitted ops).  TLC (CircuitEq.tla) computes Sem(instance) from the
reference table (Gates.tla, independent of PennyLane) and the exact unitary of the emitted circuit and decides equality
INCLUDING global phase; with zeroed work wires: on the clean-work-wire columns (work wires must return to |0>)."""
import random

import numpy as np

import pennylane as qp
from pennylane.decomposition import list_decomps

from .. import bridge, decomp, lib, rel
from ..codec import OffLattice, encode_op, wire_positions
from ..lib import CheckResult, Violation

M = decomp.M
BRIDGE_TOL = 1e-7


def collect(tier, seed):
    rng = random.Random(77 + seed)
    bases = decomp.base_instances(rng, per_gate=2 if tier == "quick" else 5)
    insts = bases + decomp.symbolic_instances(rng, bases, tier)
    events, viol, stats = [], [], {"instances": len(insts), "rules_applicable": 0, "rules_not_applicable": 0, "skipped": {}}
    for op in insts:
        try:
            rules = list_decomps(op)
            rp = decomp._get_decomp_args(op)[0]
        except Exception as e:
            stats["skipped"]["list_decomps:" + type(e).__name__] = stats["skipped"].get("list_decomps:" + type(e).__name__, 0) + 1
            continue
        work = decomp.work_wires_of(op)
        active = [w for w in op.wires if w not in work]
        wires = active + work
        for rule in rules:
            try:
                ok = rule.is_applicable(**rp)
            except Exception as e:
                ok = False
            if not ok:
                stats["rules_not_applicable"] += 1
                continue
            stats["rules_applicable"] += 1
            key = f"{op.name}:{rule.name}"
            try:
                ops, _ = decomp.emitted_ops(op, rule)
            except Exception as e:
                viol.append(Violation(key=f"{key}:raises:{type(e).__name__}", detail=f"applicable rule raised {type(e).__name__}: {e} on {op!r}",
                                      replay={"op": repr(op), "rule": rule.name}))
                continue
            lvl = None
            for lv in (4, 5):                 # coarsest ring level that holds the instance and everything emitted exactly
                wpos = wire_positions(wires)
                try:
                    a = encode_op(op, dict(wpos), lv)
                    if a is None:
                        raise OffLattice("no image")
                except (OffLattice, KeyError, AttributeError) as e:
                    a = None
                    continue
                try:
                    recs, flt, info = decomp.flatten(ops, wpos, lv)
                except decomp.Skip as e:
                    k = str(e).split(" ")[0:3]
                    stats["skipped"][" ".join(k)] = stats["skipped"].get(" ".join(k), 0) + 1
                    a = "skip"
                    break
                lvl = lv
                if recs is not None:
                    break
            if a is None:
                stats["skipped"]["instance-not-encodable"] = stats["skipped"].get("instance-not-encodable", 0) + 1
                continue
            if a == "skip":
                continue
            extra = [w for w in wpos if w not in wires]          # dynamically allocated work wires
            dyn = info.get("dyn", {})
            n = max(1, len(wpos))
            nwork = len(work) + len(extra)
            # relation: zeroed work wires -> clean-column restriction; borrowed (any state, restored) -> all columns
            zero_like = (work and decomp.work_type_of(op) in ("zeroed", "WorkWireType.ZEROED")) or any(
                st.endswith("zero") or st == "zero" for st, _ in dyn.values())
            if any(not restored for _, restored in dyn.values()):
                stats["skipped"]["garbage work wires"] = stats["skipped"].get("garbage work wires", 0) + 1
                continue
            relname = "exact0" if (nwork and zero_like) else "exact"
            events.append({"key": key, "op": repr(op), "rule": rule.name, "n": n, "a": [a], "b": recs, "flt": flt,
                           "rel": relname, "nw": nwork if relname == "exact0" else 0, "expanded": info["expanded"],
                           "emitted": [repr(o) for o in ops][:40], "opname": op.name, "M": lvl})
    return events, viol, stats


def _cols(ev):
    """columns to evaluate: with zeroed work wires only the inputs whose work wires are |0>"""
    if ev["rel"] == "exact0" and ev["nw"]:
        return [c for c in range(1 << ev["n"]) if c % (1 << ev["nw"]) == 0]
    return []


def run(tier, seed):
    events, viol, stats = collect(tier, seed)
    if tier == "quick":
        # quick tier: one (the narrowest) event per distinct (operator name, rule) pair plus every 7th of the rest
        best = {}
        for i, ev in enumerate(events):
            if ev["key"] not in best or ev["n"] < events[best[ev["key"]]]["n"]:
                best[ev["key"]] = i
        keep = set(best.values()) | {i for i in range(len(events)) if i % 7 == 0 and events[i]["n"] <= 4}
        stats["quick_tier_events_dropped"] = len(events) - len(keep)
        events = [ev for i, ev in enumerate(events) if i in keep]
    cases, idx = [], []
    for i, ev in enumerate(events):
        if ev["n"] > (4 if tier == "quick" else 5) + (1 if ev["M"] == 4 else 0):
            stats["skipped"]["too wide"] = stats["skipped"].get("too wide", 0) + 1
            continue
        if ev["b"] is not None:
            cases.append({"n": ev["n"], "a": ev["a"], "cs": _cols(ev), "bs": [{"b": ev["b"], "rel": "exact"}]})
        else:
            cases.append({"n": ev["n"], "a": ev["a"], "cs": _cols(ev), "bs": [{"b": [], "rel": "emit"}]})
        idx.append(i)
    # negative controls: drop the last emitted gate of some exact cases
    neg, neg_src = [], []
    for k in range(0, len(cases), max(1, len(cases) // 30)):
        c = cases[k]
        if c["bs"][0]["rel"] != "emit" and len(c["bs"][0]["b"]) >= 1 and c["bs"][0]["b"][-1]["g"] not in ("Identity",):
            bad = {"n": c["n"], "a": c["a"], "cs": c["cs"], "bs": [dict(c["bs"][0], b=c["bs"][0]["b"] + [{"g": "T", "w": [1], "p": [], "x": [], "m": [], "mods": []}])]}
            neg.append(len(cases))
            neg_src.append(k)
            cases.append(bad)
            idx.append(None)
    # wide cases are slow: order by width so TLC's workers balance
    verdicts, emitted = {}, {}
    tstats = {"distinct": 0, "generated": 0}
    lv_of = [events[i]["M"] if i is not None else None for i in idx]
    for k, ti in enumerate(neg):
        lv_of[ti] = lv_of[neg_src[k]]
    for lv in (4, 5):
        sel = [t for t in range(len(cases)) if lv_of[t] == lv]
        if not sel:
            continue
        v, e, st = rel.validate("C10", [cases[t] for t in sel], lv, name=f"rel{lv}")
        for (j, s_), cl in v.items():
            verdicts[(sel[j], s_)] = cl
        for j, u in e.items():
            emitted[sel[j]] = u
        tstats["distinct"] += st["distinct"]
        tstats["generated"] += st["generated"]
    n_exact = n_bridge = 0
    rules_seen, samples = set(), []
    for (ti, _), clause in verdicts.items():
        if idx[ti] is None:
            continue
        ev = events[idx[ti]]
        rules_seen.add(ev["key"])
        if cases[ti]["bs"][0]["rel"] == "emit":
            n_bridge += 1
            Uexp = lib.ring_matrix_to_numpy(emitted[ti], ev["M"])
            try:
                Uout = bridge.circuit_unitary(ev["flt"], ev["n"], ev["M"])
            except (KeyError, ValueError) as e:
                stats["skipped"][f"bridge {type(e).__name__} {e}"] = stats["skipped"].get(f"bridge {type(e).__name__} {e}", 0) + 1
                continue
            cols = _cols(ev) or list(range(Uout.shape[1]))
            okk = np.allclose(Uout[:, cols], Uexp, atol=BRIDGE_TOL)
            if not okk:
                viol.append(Violation(key=f"{ev['key']}:not-equal(bridged)", detail=f"rule {ev['rule']} on {ev['op']} emits {ev['emitted']}",
                                      replay={k: ev[k] for k in ("op", "rule", "emitted")}))
            continue
        n_exact += 1
        if clause == "overflow":
            raise lib.MachineryError("ring overflow")
        if clause != "ok":
            viol.append(Violation(key=f"{ev['key']}:{clause}", detail=f"rule {ev['rule']} on {ev['op']}: TLC verdict {clause}; emitted {ev['emitted']}",
                                  replay={k: ev[k] for k in ("op", "rule", "emitted", "a", "b", "n", "rel", "nw")}))
        elif len(samples) < 4 and len(ev["b"]) >= 3:
            samples.append({"op": ev["op"], "rule": ev["rule"], "emitted": ev["emitted"], "relation": ev["rel"], "verdict": clause})
    nneg = sum(1 for ti in neg if verdicts[(ti, 0)] != "ok")
    if not neg or nneg != len(neg):
        raise lib.MachineryError(f"negative controls rejected {nneg}/{len(neg)}")
    cov = {"states": tstats["distinct"], "transitions": tstats["generated"], "traces_validated_against_impl": n_exact + n_bridge,
           "evaluations": n_exact + n_bridge, "distinct_nontrivial": len(rules_seen),
           "rule": "instances of every table operator and its Adjoint/Pow/Controlled variants x every rule of the live registry reporting "
                   "itself applicable; non-trivial = distinct (operator name, rule name) pairs validated",
           "samples": samples, "exact_by_tlc": n_exact, "bridged_float": n_bridge, "ring_levels": {"M=4": lv_of.count(4), "M=5": lv_of.count(5)},
           "negative_controls_rejected": nneg, **{k: v for k, v in stats.items()}}
    return CheckResult(coverage=cov, violations=viol, assumptions=[
        "operator semantics = reference table Gates.tla + adjoint/power/controlled matrix arithmetic (independent of PennyLane)",
        "template operators without a table entry are not covered by this check yet (listed under skipped)",
        "emitted operators without a table entry are expanded through their own decomposition (counted in 'expanded')"])
