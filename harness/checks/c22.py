"""C22 Dynamic wire allocation never aliases live wires.

(M) WireAlloc.tla is model-checked exhaustively (all allocate/deallocate histories up to the bound, all register
    configurations): NoAlias, NoStatic, zero-requests-get-clean-wires, register sanity.
(C) spec -> code: every maximal history TLC generated is replayed through resolve_dynamic_wires and
    device_resolve_dynamic_wires as a tape of Allocate/Deallocate + marker gates; the implementation's own wire map is
    read off the output tape.  code -> spec: those recorded traces are validated by Trace_WireAlloc.tla, which evolves
    the ghost state with the implementation's choices and decides conjuncts (A) (B) (C) at every step.
(D) result equivalence: resolved tape on default.qubit vs the fresh-wire version evaluated by the bridge."""
import random

import numpy as np

import pennylane as qp
from pennylane.allocation import Allocate, Deallocate, DynamicWire
from pennylane.exceptions import AllocationError

from .. import bridge, lib
from ..codec import rec
from ..lib import CheckResult, Violation

LIVE_STATIC = (7, 9)        # used throughout the circuit, never handed to the allocator
PRE_STATIC = (8,)           # used by the static circuit before any allocation; handed over in some configurations
MEASURED_ONLY = 6            # a static wire that is only measured, never gated (device wrappers must not treat it as free)
STATIC = "{6,7,8,9}"
PI4 = np.pi / 4


def configs(tier):
    zs = ["<<>>", "<<1>>", "<<1,2>>"]
    as_ = ["<<>>", "<<3>>", "<<3,8>>"]
    return "{" + ", ".join(f"[z |-> {z}, a |-> {a}, mi |-> {mi}, ar |-> {ar}, static |-> {STATIC}]"
                           for z in zs for a in as_ for mi in (-1, 20) for ar in ("TRUE", "FALSE")) + "}"


def build_tape(cfg, hist):
    """history -> (tape, per-op tags).  tags[i] = ("alloc", d) | ("dealloc", d) | ("use", d, pos) | ("static",)"""
    ops, tags = [], []

    def add(op, tag):
        ops.append(op)
        tags.append(tag)
    add(qp.H(7), ("static",))
    add(qp.RY(PI4, 9), ("static",))
    add(qp.X(8), ("static",))
    for w in cfg["a"]:
        if w != 8:
            add(qp.X(w), ("static",))       # junk in the any-state register
    dyn = {}
    for ev in hist:
        d = ev["d"]
        if ev["e"] == "alloc":
            dw = dyn[d] = DynamicWire()
            add(Allocate([dw], state=ev["st"], restored=ev["r"]), ("alloc", d))
            if ev["st"] == "zero" and ev["r"]:
                add(qp.CNOT([7, dw]), ("use", d, 1)); add(qp.CZ([dw, 9]), ("use", d, 0)); add(qp.CNOT([7, dw]), ("use", d, 1))
            elif ev["st"] == "zero":
                add(qp.RY(PI4, dw), ("use", d, 0)); add(qp.CNOT([dw, 9]), ("use", d, 0))
            else:
                add(qp.X(dw), ("use", d, 0))
        else:
            dw = dyn[d]
            al = next(e for e in hist if e["e"] == "alloc" and e["d"] == d)
            if al["st"] == "any" and al["r"]:
                add(qp.X(dw), ("use", d, 0))
            add(Deallocate([dw]), ("dealloc", d))
    return qp.tape.QuantumScript(ops, [qp.probs(wires=list(LIVE_STATIC) + [MEASURED_ONLY])]), tags


def read_trace(tape, tags, out):
    """Walk input and output ops in parallel -> {d: (concrete wire, reset emitted)}."""
    res, j, outops = {}, 0, out.operations
    pending_reset = None
    i = 0
    for op, tag in zip(tape.operations, tags):
        if tag[0] == "alloc":
            if j < len(outops) and type(outops[j]).__name__ in ("MidMeasure", "MidMeasureMP") or (
                    j < len(outops) and outops[j].name in ("MidMeasure", "MidMeasureMP")):
                pending_reset = outops[j].wires[0]
                j += 1
            else:
                pending_reset = None
            res[tag[1]] = [None, pending_reset is not None, pending_reset]
        elif tag[0] == "dealloc":
            continue
        else:
            o = outops[j]
            j += 1
            if tag[0] == "use" and res[tag[1]][0] is None:
                res[tag[1]][0] = o.wires[tag[2]]
    if j != len(outops):
        raise lib.MachineryError("could not align input and output operations")
    for d, (w, rs, rw) in res.items():
        if rs and rw != w:
            raise lib.MachineryError("reset wire differs from the wire granted")
    return res


def run_impl(cfg, hist, fn):
    """Replay one history; returns the recorded trace (events with the implementation's wires) and the output tape."""
    tape, tags = build_tape(cfg, hist)
    try:
        (out,), _ = fn(tape)
    except AllocationError:
        # locate the failing allocation by replaying prefixes
        for k in range(1, len(hist) + 1):
            t2, tg2 = build_tape(cfg, hist[:k])
            try:
                (o2,), _ = fn(t2)
            except AllocationError:
                good = read_trace(*build_tape(cfg, hist[:k - 1])[:2], fn(build_tape(cfg, hist[:k - 1])[0])[0][0]) if k > 1 else {}
                tr = []
                for ev in hist[:k - 1]:
                    tr.append(dict(ev, w=good[ev["d"]][0], reset=good[ev["d"]][1]) if ev["e"] == "alloc" else dict(ev, w=good[ev["d"]][0]))
                tr.append(dict(hist[k - 1], w=-1, reset=False))
                return tr, None
        raise lib.MachineryError("AllocationError not reproducible on prefixes")
    m = read_trace(tape, tags, out)
    tr = [dict(ev, w=m[ev["d"]][0], reset=m[ev["d"]][1]) if ev["e"] == "alloc" else dict(ev, w=m[ev["d"]][0]) for ev in hist]
    return tr, out


def fresh_expected(cfg, hist):
    """probs(7,9) of the fresh-wire version, evaluated by the bridge (independent of PennyLane)."""
    wires = [7, 9, 8] + [w for w in cfg["a"] if w != 8]
    nd = sum(1 for e in hist if e["e"] == "alloc")
    n = len(wires) + nd
    pos = {w: i + 1 for i, w in enumerate(wires)}
    psi = np.zeros((1 << n, 1), dtype=complex)
    psi[0, 0] = 1

    def ap(g, ws, th=None):
        nonlocal psi
        psi = bridge.apply(psi, bridge.base_matrix(g, th or [], [], len(ws)), ws, n)
    ap("Hadamard", [pos[7]]); ap("RY", [pos[9]], [PI4]); ap("PauliX", [pos[8]])
    for w in cfg["a"]:
        if w != 8:
            ap("PauliX", [pos[w]])
    k = len(wires)
    dpos = {}
    for ev in hist:
        d = ev["d"]
        if ev["e"] == "alloc":
            k += 1
            dpos[d] = k
            if ev["st"] == "zero" and ev["r"]:
                ap("CNOT", [pos[7], k]); ap("CZ", [k, pos[9]]); ap("CNOT", [pos[7], k])
            elif ev["st"] == "zero":
                ap("RY", [k], [PI4]); ap("CNOT", [k, pos[9]])
            else:
                ap("PauliX", [k])
        else:
            al = next(e for e in hist if e["e"] == "alloc" and e["d"] == d)
            if al["st"] == "any" and al["r"]:
                ap("PauliX", [dpos[d]])
    p = np.abs(psi[:, 0]) ** 2
    p = p.reshape([2] * n)
    p79 = p.sum(axis=tuple(range(2, n))).reshape(-1)
    return np.kron(p79, np.array([1.0, 0.0]))          # the measured-only wire stays in |0>


def run(tier, seed):
    maxev, maxdyn = (4, 3) if tier == "quick" else (6, 4)
    wd = lib.workdir("C22", "gen")
    g = lib.run_tlc_mc("WireAllocGen", {"Configs": configs(tier)}, wd, constants={"MaxEvents": maxev, "MaxDyn": maxdyn},
                       invariants=["NoAlias", "NoStatic", "PropertyOK", "RegsDisjoint", "ZeroedRegClean"], constraints=["Emit"],
                       coverage=False, timeout=3000)
    viol = []
    if g.invariant_violated:
        # the MODEL of what the code does admits a bad state: a design-level counterexample; confirm on the code below
        print(f"note: WireAlloc model violates {g.invariant_violated}")
    elif not g.ok():
        lib.require_ok(g, "WireAllocGen")
    hists = g.json_lines
    if len(hists) < 50:
        raise lib.MachineryError("generator produced too few histories")
    rng = random.Random(seed)
    if tier == "thorough" and len(hists) > 60000:
        hists = rng.sample(hists, 60000)
    traces, meta = [], []
    dev = qp.device("default.qubit")
    n_d, drift_exc = 0, 0
    d_budget = 250 if tier == "quick" else 3000
    d_pick = set(rng.sample(range(len(hists)), min(d_budget, len(hists))))
    for hi, h in enumerate(hists):
        cfg, hist = h["cfg"], h["hist"]
        fns = [("resolve_dynamic_wires", cfg, lambda t, c=cfg: qp.transforms.resolve_dynamic_wires(
            t, zeroed=tuple(c["z"]), any_state=tuple(c["a"]), min_int=None if c["mi"] < 0 else c["mi"], allow_resets=c["ar"]))]
        if hi % 4 == 0:
            # the device wrapper computes registers / min_int itself from the device wires
            from pennylane.devices.preprocess import device_resolve_dynamic_wires
            used = {MEASURED_ONLY, 7, 8, 9} | {w for w in cfg["a"] if w != 8}
            if cfg["mi"] < 0:
                dw = (MEASURED_ONLY,) + tuple(sorted(used - {MEASURED_ONLY})) + (1, 2, 4)     # measured-only wire first in device order
                c2 = dict(cfg, z=[4, 2, 1], a=[], mi=-1)
            else:
                dw = None
                c2 = dict(cfg, z=[], a=[], mi=0)
            c2["static"] = sorted(used)
            fns.append(("device_resolve_dynamic_wires", c2, lambda t, w=dw, c=cfg: device_resolve_dynamic_wires(t, wires=w, allow_resets=c["ar"])))
        for fname, tcfg, fn in fns:
            try:
                tr, out = run_impl(cfg, hist, fn)
            except lib.MachineryError:
                raise
            except Exception as e:            # crash other than AllocationError: recorded, not a property verdict
                drift_exc += 1
                continue
            traces.append({"cfg": {"z": tcfg["z"], "a": tcfg["a"], "mi": tcfg["mi"], "ar": tcfg["ar"], "static": tcfg["static"]}, "hist": tr})
            meta.append((fname, cfg, hist))
            if out is not None and hi in d_pick and fname == "resolve_dynamic_wires":
                n_d += 1
                try:
                    got = np.asarray(qp.execute([out], dev, mcm_method="deferred" if False else None)[0]).reshape(-1)
                except TypeError:
                    got = np.asarray(qp.execute([out], dev)[0]).reshape(-1)
                exp = fresh_expected(cfg, hist)
                if not np.allclose(got, exp, atol=1e-8):
                    viol.append(Violation(key=f"{fname}:result-differs-from-fresh-wires",
                                          detail=f"probs {got} vs fresh-wire {exp} for cfg={cfg} hist={hist}",
                                          replay={"cfg": cfg, "hist": hist}))
    # negative controls: corrupt recorded wires -> the trace spec must reject
    neg = []
    for k in range(0, len(traces), max(1, len(traces) // 20)):
        t = traces[k]
        al = [i for i, e in enumerate(t["hist"]) if e["e"] == "alloc" and e["w"] >= 0]
        if len(al) >= 2 and not any(e["e"] == "dealloc" for e in t["hist"][:al[1]]):
            h2 = [dict(e) for e in t["hist"]]
            h2[al[1]]["w"] = h2[al[0]]["w"]          # alias the second allocation onto the first (still live)
            h2 = h2[:al[1] + 1]
            neg.append(len(traces))
            traces.append({"cfg": t["cfg"], "hist": h2})
            meta.append(("NEG", None, None))
    wd2 = lib.workdir("C22", "trace")
    import json
    (wd2 / "traces.json").write_text(json.dumps(traces))
    r = lib.run_tlc("Trace_WireAlloc", lib.cfg(init="TInit", next_="TNext", constants={
        "NTRACES": len(traces), "Configs": "{}", "MaxEvents": 99, "MaxDyn": 99}), wd2, env={"TRACE_FILE": str(wd2 / "traces.json")}, timeout=3000)
    lib.require_ok(r, "Trace_WireAlloc")
    verd = {t[1] - 1: (t[2], t[3]) for t in r.tuples if t[0] == "V"}
    if len(verd) != len(traces):
        raise lib.MachineryError(f"verdicts not total: {len(verd)} of {len(traces)}")
    nneg = sum(1 for i in neg if verd[i][0] != "ok")
    if not neg or nneg != len(neg):
        raise lib.MachineryError(f"negative controls rejected: {nneg}/{len(neg)}")
    drift = 0
    nontriv = set()
    samples = []
    for i, (fname, cfg, hist) in enumerate(meta):
        if fname == "NEG":
            continue
        v, dr = verd[i]
        drift += dr == "drift" and fname == "resolve_dynamic_wires"
        if v != "ok":
            viol.append(Violation(key=f"{fname}:{v}", detail=f"{v}: cfg={traces[i]['cfg']} trace={traces[i]['hist']}",
                                  replay={"fn": fname, "cfg": cfg, "hist": hist, "trace": traces[i]["hist"]}))
        live, mx = 0, 0
        for e in hist:
            live += 1 if e["e"] == "alloc" else -1
            mx = max(mx, live)
        if mx >= 2:
            nontriv.add((fname, str(cfg), str(hist)))
            if len(samples) < 3 and any(e["e"] == "dealloc" for e in hist):
                samples.append({"fn": fname, "cfg": traces[i]["cfg"], "trace": traces[i]["hist"], "verdict": v})
    cov = {"states": g.distinct + r.distinct, "transitions": g.generated + r.generated,
           "traces_validated_against_impl": len(traces) - len(neg), "evaluations": len(traces) - len(neg),
           "distinct_nontrivial": len(nontriv),
           "rule": "TLC enumerates every allocate/deallocate history up to MaxEvents over all register configurations; non-trivial = "
                   "distinct (entry point, configuration, history) with at least two simultaneously live dynamic wires",
           "samples": samples, "exhaustive": tier == "quick" or len(g.json_lines) == len(hists),
           "model": {"module": "WireAlloc", "states": g.distinct, "invariants": ["NoAlias", "NoStatic", "PropertyOK", "RegsDisjoint", "ZeroedRegClean"],
                     "MaxEvents": maxev, "MaxDyn": maxdyn, "configurations": 36, "violated": g.invariant_violated},
           "histories": len(hists), "result_equivalence_executions": n_d, "model_drift_traces": drift,
           "non_allocation_exceptions": drift_exc, "negative_controls_rejected": nneg}
    return CheckResult(coverage=cov, violations=viol, assumptions=[
        "programs honour their `restored` promises; a dynamic wire is dirtied right after allocation",
        "integer pool labels >= min_int passed by the caller count as handed over (the device wrapper gets no such allowance)"])
