"""C03 Operator arithmetic agrees with matrix arithmetic.

Model: spec/ir/Ops.tla gives the denotation of a nested operator term as MATRIX ARITHMETIC on the operands' denotations (the
right-hand side of the property) - a post-order stack machine over exact matrices in Z[zeta_16][1/2] whose leaves come from the
reference table Gates.tla.  spec/trace/TermEval.tla runs it one instruction per TLC step.

Binding, per generated term t (systematic depth 1-2 + systematic ctrl-of-ctrl over arithmetic operands with every inner x outer
control-value combination (OpsSelf law ctrlnest fixes which value belongs to which wire) + seeded random nesting to depth 3/4, scalars {+-1, +-1/2, +-i, 2},
exponents {-2..3} and 1/2 under the eigenphase guard, control values, work wires, mixed int/str labels, shuffled wire_order):
  REPLAY  qp.matrix(build(t), wire_order) is compared (1e-8) with the exact Sem(t) TLC emits;
  TRACE   the expression PennyLane actually built (eager dispatch to specialised classes), qp.simplify(expr) and
          qp.map_wires(expr, pi) are re-encoded from the objects PennyLane returned and TLC decides
          Sem(built) = Sem(t), Sem(simplify(expr)) = Sem(t), Sem(map_wires(expr, pi)) = Relabel(Sem(t), pi) exactly
          (outputs with no exact ring image are evaluated by the numeric program evaluator and compared with TLC's Sem(t))."""
import random

import numpy as np

import pennylane as qp

from .. import lib
from .. import opterms as ot
from ..codec import OffLattice
from ..lib import CheckResult, Violation

M = 4
TOL = 1e-8
LABELS = ["a", 3, "c", 0, "e"]
NEWLABELS = ["q", 7, "a", 0, "zz", 3, 11, "c"]
G = ot.G


def _gate(name, npar, ws, a):
    return G(name, ws, [a] * npar)


def gen_terms(tier, rng):
    quick = tier == "quick"
    out = []
    L4 = LABELS[:4]
    angs = [1, 3, 6, 13] if quick else list(range(16))
    alpha = ot.ONE_Q + ot.TWO_Q
    # (1) depth 1, systematic: every unary kind on every alphabet gate
    for gi, (name, npar) in enumerate(alpha):
        ar = ot.NARGS[name]
        for a in ([angs[gi % len(angs)]] if quick or not npar else angs):
            ws = rng.sample(L4, ar)
            free = [l for l in L4 if l not in ws]
            g = _gate(name, npar, ws, a)
            out.append(({"t": "adj", "a": g}, "d1"))
            for z in (-2, -1, 0, 1, 2, 3):
                out.append(({"t": "pow", "a": g, "z": z}, "d1"))
            for cv in ([1], [0], [1, 0], [0, 1, 1]):
                if len(cv) > len(free):
                    continue
                cw = rng.sample(free, len(cv))
                rest = [l for l in free if l not in cw]
                out.append(({"t": "ctrl", "a": g, "cw": cw, "cv": cv, "ww": []}, "d1"))
                if rest and len(cv) < 3:
                    out.append(({"t": "ctrl", "a": g, "cw": cw, "cv": cv, "ww": rest[:1]}, "d1"))
            for c in ot.SCALARS:
                if quick and (gi + len(c)) % 2:
                    continue
                out.append(({"t": "sprod", "c": c, "a": g}, "d1"))
    # exp of involutory bases over the lattice
    bases = [G("PauliX", ["a"]), G("PauliY", [3]), G("PauliZ", ["c"]), G("Hadamard", [0]), G("CNOT", ["a", 3]), G("CZ", [0, "c"]),
             G("SWAP", [3, 0]), {"t": "prod", "as": [G("PauliX", ["a"]), G("PauliZ", [3])]},
             {"t": "prod", "as": [G("PauliY", [0]), G("PauliX", ["c"]), G("PauliZ", ["a"])]},
             {"t": "sprod", "c": "-1", "a": G("PauliY", ["c"])}]
    for bi, b in enumerate(bases):
        for e in (range(-3, 16, 3) if quick else range(-8, 24)):
            out.append(({"t": "exp", "a": b, "e": e + (bi % 3 if quick else 0)}, "exp"))
    # fractional powers under the eigenphase guard
    N = 1 << M
    for g_ in ("RX", "RY", "RZ", "IsingXX", "IsingZZ", "CRX", "CRZ"):
        ar = 1 if g_ in ("RX", "RY", "RZ") else 2
        for a in range(-(N // 2) + 2, N // 2, 2):
            out.append(({"t": "root", "a": G(g_, rng.sample(L4, ar), [a])}, "root"))
    for g_ in ot.PROJ_KIND:
        ar = 1 if g_ in ("PhaseShift", "U1") else 2
        for a in range(-(N // 4) + 1, N // 4):
            out.append(({"t": "root", "a": G(g_, rng.sample(L4, ar), [a])}, "root"))
    for g_ in ("S", "T", "SX"):
        out.append(({"t": "root", "a": G(g_, [rng.choice(L4)])}, "root"))
    # binary: products / sums of pairs, change of basis
    pairs = [(x, y) for x in alpha for y in alpha]
    rng.shuffle(pairs)
    for (x, y) in pairs[:(70 if quick else len(pairs))]:
        gx = _gate(x[0], x[1], rng.sample(L4, ot.NARGS[x[0]]), rng.choice(angs))
        gy = _gate(y[0], y[1], rng.sample(L4, ot.NARGS[y[0]]), rng.choice(angs))
        out.append(({"t": "prod", "as": [gx, gy]}, "d1"))
        out.append(({"t": "sum", "as": [gx, gy]}, "d1"))
        gz = ot.leaf(rng, L4, angs)
        out.append(({"t": "cob", "as": [gx, gy, None if rng.random() < 0.5 else gz]}, "d1"))
    # (2) depth 2, systematic: unary o unary on a few gates
    def unary(k, sub, rest):
        if k == "adj":
            return {"t": "adj", "a": sub}
        if k == "pow":
            return {"t": "pow", "a": sub, "z": rng.choice([-2, -1, 0, 2, 3] if ot.is_unitary(sub) else [0, 2, 3])}
        if k == "ctrl":
            nc = rng.choice([1, 2]) if len(rest) >= 2 else 1
            return {"t": "ctrl", "a": sub, "cw": rest[:nc], "cv": [rng.choice([0, 1]) for _ in range(nc)], "ww": []}
        if k == "sprod":
            return {"t": "sprod", "c": rng.choice(list(ot.SCALARS)), "a": sub}
        raise ValueError(k)
    un = ["adj", "pow", "ctrl", "sprod"]
    for (name, npar) in ([("PauliX", 0), ("S", 0), ("RX", 1), ("PhaseShift", 1), ("CNOT", 0), ("IsingXX", 1), ("Hadamard", 0)] if quick else alpha):
        for k1 in un:
            for k2 in un:
                for rep in range(1 if quick else 3):
                    ws = rng.sample(L4, ot.NARGS[name])
                    rest = [l for l in LABELS if l not in ws]
                    rng.shuffle(rest)
                    g = _gate(name, npar, ws, rng.choice(angs))
                    inner = unary(k1, g, rest[:2] if len(ws) == 1 else rest[:1])
                    used = ot.wires_of(inner)
                    rest2 = [l for l in LABELS if l not in used]
                    if k2 == "ctrl" and len(used) >= 4:
                        continue
                    out.append((unary(k2, inner, rest2[:max(1, 4 - len(used))]), "d2"))
        for k2 in un:
            ws = rng.sample(L4, 1)
            rest = [l for l in L4 if l not in ws]
            out.append((unary(k2, {"t": "exp", "a": G(rng.choice(["PauliX", "PauliY", "PauliZ", "Hadamard"]), ws), "e": rng.choice(range(1, 16))}, rest), "d2"))
            out.append((unary(k2, {"t": "root", "a": ot.root_leaf(rng, ws, M)}, rest), "d2"))
    # (2b) controlled versions OF controlled operators: every inner x outer control-value combination (values that differ between
    # the levels included), over arithmetic operands (Prod / Sum / SProd / Exp / Adjoint / Pow / root / ChangeOpBasis, i.e. the
    # old-style wrapper that flattens nested controls) and plain gates, with work wires, three levels, and a wrapper in between
    def arith_bases(ws):
        w = ws[0]
        a1, a2 = rng.choice(angs), rng.choice(angs)
        bs = [G("RY", [w], [a1]),
              {"t": "prod", "as": [G("S", [w]), G("RX", [w], [a1])]},
              {"t": "sum", "as": [G("PauliX", [w]), G("Hadamard", [w])]},
              {"t": "sprod", "c": rng.choice(["i", "-1", "1/2", "-i"]), "a": G(rng.choice(["PauliX", "RY", "T"]), [w], [])},
              {"t": "exp", "a": G(rng.choice(["PauliX", "PauliY", "Hadamard"]), [w]), "e": rng.choice(range(1, 16))},
              {"t": "adj", "a": {"t": "prod", "as": [G("T", [w]), G("RY", [w], [a2])]}},
              {"t": "pow", "a": {"t": "prod", "as": [G("SX", [w]), G("PhaseShift", [w], [a2])]}, "z": rng.choice([-1, 2, 3])},
              {"t": "root", "a": ot.root_leaf(rng, [w], M)},
              {"t": "cob", "as": [G("Hadamard", [w]), G("RZ", [w], [a1]), None]}]
        for b in bs:
            if b["t"] == "sprod" and b["a"]["g"] == "RY":
                b["a"]["p"] = [a2]
        if len(ws) > 1:
            v = ws[1]
            bs = [{"t": "prod", "as": [G("CNOT", [w, v]), G("RX", [v], [a1])]},
                  {"t": "sum", "as": [G("PauliZ", [w]), G("IsingXX", [v, w], [a2])]},
                  {"t": "sprod", "c": rng.choice(["i", "-1"]), "a": G("SWAP", [v, w])},
                  {"t": "exp", "a": {"t": "prod", "as": [G("PauliX", [w]), G("PauliY", [v])]}, "e": rng.choice(range(1, 16))},
                  {"t": "prod", "as": [G("T", [v]), G("PauliY", [w])]}]
        return bs

    def cvs(n):
        return [[(i >> j) & 1 for j in range(n)] for i in range(1 << n)]

    def nest(base, cw1, cv1, cw2, cv2, ww1=(), ww2=(), mid=None):
        inner = {"t": "ctrl", "a": base, "cw": list(cw1), "cv": list(cv1), "ww": list(ww1)}
        if mid == "adj":
            inner = {"t": "adj", "a": inner}
        elif mid == "pow":
            inner = {"t": "pow", "a": inner, "z": rng.choice([-1, 2, 3]) if ot.is_unitary(base) else rng.choice([2, 3])}
        elif mid == "sprod":
            inner = {"t": "sprod", "c": rng.choice(["i", "-1", "-i"]), "a": inner}
        return {"t": "ctrl", "a": inner, "cw": list(cw2), "cv": list(cv2), "ww": list(ww2)}

    for (nb, n1, n2) in ((1, 1, 1), (1, 1, 2), (1, 2, 1), (2, 1, 1)) + (() if quick else ((1, 2, 2), (2, 1, 2), (2, 2, 1))):
        for rep in range(1 if quick else 3):
            ls = rng.sample(LABELS, min(len(LABELS), nb + n1 + n2 + 1))
            ws, cw1, cw2, spare = ls[:nb], ls[nb:nb + n1], ls[nb + n1:nb + n1 + n2], ls[nb + n1 + n2:]
            for b in arith_bases(ws):
                combos = [(c1, c2) for c1 in cvs(n1) for c2 in cvs(n2)]
                if quick and len(combos) > 4:       # keep the level-distinguishing combinations, sample the rest
                    mixed = [c for c in combos if set(c[0]) != set(c[1]) or len(set(c[0] + c[1])) > 1]
                    combos = rng.sample(mixed, 4)
                for (c1, c2) in combos:
                    out.append((nest(b, cw1, c1, cw2, c2), "nest"))
                if nb + n1 + n2 == 2 + nb and spare:
                    for (c1, c2) in ([0], [1]), ([1], [0]):
                        side = rng.random() < 0.5
                        out.append((nest(b, cw1, c1, cw2, c2, ww1=spare[:1] if side else (), ww2=() if side else spare[:1]), "nest"))
                if n1 == 1 and n2 == 1:
                    for mid in ("adj", "pow") + (() if "cob" in ot.kinds(b) else ("sprod",)):
                        c1 = [rng.choice([0, 1])]
                        out.append((nest(b, cw1, c1, cw2, [1 - c1[0]], mid=mid), "nest"))
                    if nb == 1 and spare:           # three levels
                        for c3 in ([0], [1]):
                            c1 = [rng.choice([0, 1])]
                            out.append(({"t": "ctrl", "a": nest(b, cw1, c1, cw2, [1 - c1[0]]), "cw": spare[:1], "cv": c3, "ww": []}, "nest"))
    # (3) seeded random nesting
    nrand = 420 if quick else 9000
    for i in range(nrand):
        d = rng.choice([2, 2, 3] if quick else [2, 3, 3, 4])
        nl = rng.choice([2, 3, 3, 4, 4]) if quick else rng.choice([2, 3, 4, 4, 5])
        if d >= 4:
            nl = min(nl, 4)
        t = ot.rand_term(rng, d, rng.sample(LABELS, nl), list(range(16)), M)
        out.append((t, "rand"))
    return out


def _perm_case(rng, W):
    """a relabelling pi of the wires of W onto fresh / permuted labels and an independent order W2 of the new labels."""
    new = rng.sample(NEWLABELS, len(W))
    pi = dict(zip(W, new))
    W2 = list(new)
    rng.shuffle(W2)
    return pi, W2


def _cmp(viol, key, what, got, exp, term, extra=None):
    got = np.asarray(got)
    if got.shape != exp.shape or not np.allclose(got, exp, atol=TOL, rtol=0):
        err = float(np.max(np.abs(got - exp))) if got.shape == exp.shape else -1.0
        viol.append(Violation(key=f"{what}:differs:{key}", detail=f"{what} differs from matrix arithmetic on the operands (max err {err:.3g}) for {ot.show(term)}",
                              replay=dict({"term": term}, **(extra or {}))))
        return False
    return True


def _shape_key(t):
    """stable signature of a term: the nesting of kinds with gate names (no wires / angles)."""
    k = t["t"]
    if k == "gate":
        return t["g"]
    if "a" in t:
        return f"{k}({_shape_key(t['a'])})"
    return k + "(" + ",".join("None" if s is None else _shape_key(s) for s in t["as"]) + ")"


def run(tier, seed):
    rng = random.Random(3000 + seed)
    return _run(gen_terms(tier, rng), tier, rng, full=True)


def replay(path, tier="quick", seed=0):
    """re-run one recorded violation: the replay file carries the abstract term."""
    import json
    t = json.loads(open(path).read())["replay"]["term"]
    return _run([(t, "replay")], tier, random.Random(3000 + seed), full=False)


def _run(terms, tier, rng, full):
    maxn = 4 if tier == "quick" else 5
    viol, cases, meta = [], [], []
    stats = {"terms": 0, "construct_raised": {}, "matrix_undefined": 0, "simplify_raised": {}, "map_wires_raised": {},
             "built": {"exact": 0, "bridged": 0, "unencodable": 0}, "simplify": {"exact": 0, "bridged": 0, "unencodable": 0},
             "map_wires": {"exact": 0, "bridged": 0, "unencodable": 0}, "simplify_changed": 0, "built_classes": {},
             "kinds": {}, "depths": {}, "dunder_style": 0, "nested_ctrl": 0, "nested_ctrl_values_differ": 0,
             "nested_ctrl_flattened_by_impl": 0}
    seen = set()
    for (t, origin) in terms:
        W = ot.wires_of(t)
        if len(W) > maxn:
            continue
        sig = ot.show(t)
        if sig in seen:
            continue
        seen.add(sig)
        idle = [l for l in LABELS if l not in W]
        if idle and len(W) < maxn and rng.random() < 0.2:
            W = W + [rng.choice(idle)]            # wire_order may contain wires the operator does not touch
        rng.shuffle(W)
        wpos = {w: i + 1 for i, w in enumerate(W)}
        style = 1 if rng.random() < 0.3 else 0
        try:
            expr = ot.build(t, M, style)
        except Exception as e:       # construction is not part of the statement: counted, not judged
            k = f"{type(e).__name__}"
            stats["construct_raised"][k] = stats["construct_raised"].get(k, 0) + 1
            continue
        stats["terms"] += 1
        stats["dunder_style"] += style
        for k in set(ot.kinds(t)):
            stats["kinds"][k] = stats["kinds"].get(k, 0) + 1
        stats["depths"][ot.depth(t)] = stats["depths"].get(ot.depth(t), 0) + 1
        cn = type(expr).__name__
        if t["t"] == "ctrl" and t["a"]["t"] == "ctrl":
            stats["nested_ctrl"] += 1
            if set(t["cv"]) != set(t["a"]["cv"]) or len(set(t["cv"])) > 1:
                stats["nested_ctrl_values_differ"] += 1
                if ot.is_ctrl(expr) and not ot.is_ctrl(getattr(expr, "base", None)) and len(getattr(expr, "control_wires", [])) == len(t["cw"]) + len(t["a"]["cw"]):
                    stats["nested_ctrl_flattened_by_impl"] += 1
        stats["built_classes"][cn] = stats["built_classes"].get(cn, 0) + 1
        case = {"n": len(W), "emit": 1, "a": ot.prog(t, wpos, M), "bs": []}
        m = {"term": t, "origin": origin, "W": W, "outs": [], "float": [], "matrix": None, "expr": repr(expr)[:300]}
        # REPLAY observation: the implementation's matrix
        try:
            m["matrix"] = np.asarray(qp.matrix(expr, wire_order=W))
        except qp.exceptions.MatrixUndefinedError:
            if expr.has_matrix:
                viol.append(Violation(key=f"qp.matrix:reported-but-undefined:{_shape_key(t)}", detail=f"has_matrix but qp.matrix raises for {sig}",
                                      replay={"term": t}))
            stats["matrix_undefined"] += 1
        except Exception as e:
            viol.append(Violation(key=f"qp.matrix:raises:{type(e).__name__}:{_shape_key(t)}", detail=f"qp.matrix raised {type(e).__name__}: {e} for {sig}",
                                  replay={"term": t, "wire_order": W}))
        # TRACE observations: the objects PennyLane returned
        outs = [("built", expr, wpos, None)]
        try:
            simp = qp.simplify(expr)
            outs.append(("simplify", simp, wpos, None))
            if repr(simp) != repr(expr):
                stats["simplify_changed"] += 1
        except Exception as e:
            k = type(e).__name__
            stats["simplify_raised"][k] = stats["simplify_raised"].get(k, 0) + 1
        pi, W2 = _perm_case(rng, W)
        try:
            mp = qp.map_wires(expr, pi)
            wpos2 = {w: i + 1 for i, w in enumerate(W2)}
            outs.append(("map_wires", mp, wpos2, [wpos2[pi[w]] for w in W]))
        except Exception as e:
            k = type(e).__name__
            stats["map_wires_raised"][k] = stats["map_wires_raised"].get(k, 0) + 1
        for (what, obj, wp, perm) in outs:
            try:
                p, exact = ot.encode_any(obj, wp, M)
            except Exception as e:       # no image in the spec's term language: counted, never guessed
                stats[what]["unencodable"] += 1
                continue
            if exact:
                case["bs"].append({"b": p, "rel": "relabel" if perm else "exact", "perm": perm or []})
                m["outs"].append((what, repr(obj)[:300]))
            else:
                m["float"].append((what, p, perm, wp, repr(obj)[:300]))
        cases.append(case)
        meta.append(m)
    # negative controls: corrupt one recorded output program (extra T gate on wire 1 / wrong relabelling) -> TLC must reject
    neg = []
    for ci in range(0, len(cases), max(1, len(cases) // 40)):
        c, m = cases[ci], meta[ci]
        if not c["bs"] or not ot.is_unitary(m["term"]):
            continue
        o = c["bs"][0]
        bad = dict(o, b=o["b"] + [{"op": "PUSH", "g": ot.rec("T", [1])}, {"op": "PROD", "k": 2}])
        neg.append(len(cases))
        cases.append({"n": c["n"], "emit": 0, "a": c["a"], "bs": [bad]})
        meta.append(None)
    # the oracle first: Ops.tla must satisfy its own laws against the independent definitions of Gates.tla (exhaustive, small)
    rs = lib.run_tlc("OpsSelf", lib.cfg(constants={"M": M}, invariants=["LawsHold"]), lib.workdir("C03", "self"), timeout=3000)
    if rs.invariant_violated:
        raise lib.MachineryError("Ops.tla violates one of its own laws (oracle error): " + rs.out[-1500:])
    lib.require_ok(rs, "OpsSelf")
    if rs.distinct < 1000:
        raise lib.MachineryError(f"OpsSelf explored too few law instances ({rs.distinct})")
    verdicts, emitted, tstats = ot.evaluate("C03", cases, M)
    n_exact = n_bridge = n_matrix = 0
    nontriv, samples = set(), []
    for ci, m in enumerate(meta):
        if m is None:
            continue
        t = m["term"]
        key = _shape_key(t)
        good = True
        for si, (what, rp) in enumerate(m["outs"]):
            clause, ea, eb = verdicts[(ci, si)]
            if ea == "overflow":
                break
            if clause == "a-not-evaluated":
                raise lib.MachineryError(f"generated term not evaluated by the spec ({ea}): {ot.show(t)}")
            if clause == "b-not-evaluated":
                if eb == "overflow":
                    raise lib.MachineryError(f"ring overflow on {rp}")
                # the produced expression leaves the fragment the spec evaluates (guard eb): numeric route
                p = cases[ci]["bs"][si]
                m["float"].append((what, p["b"], p["perm"] or None, None, rp))
                continue
            stats[what]["exact"] += 1
            n_exact += 1
            if clause != "ok":
                good = False
                viol.append(Violation(key=f"{what}:{clause}:{key}", detail=f"{what} of {ot.show(t)} is {rp}: TLC verdict {clause}",
                                      replay={"term": t, "output": rp, "program_a": cases[ci]["a"], "program_b": cases[ci]["bs"][si]}))
        if ci not in emitted:
            # only a ring-coefficient overflow of the generated term itself may leave a case without its exact matrix
            if all(verdicts[(ci, si)][1] == "overflow" for si in range(len(m["outs"]))) and m["outs"]:
                stats["skipped_overflow"] = stats.get("skipped_overflow", 0) + 1
                continue
            raise lib.MachineryError(f"no exact matrix emitted for {ot.show(t)}")
        U = lib.ring_matrix_to_numpy(emitted[ci], M)
        if m["matrix"] is not None:
            n_matrix += 1
            good &= _cmp(viol, key, "qp.matrix", m["matrix"], U, t, {"wire_order": m["W"], "expr": m["expr"]})
        for (what, p, perm, wp, rp) in m["float"]:
            try:
                V = ot.num_eval(p, len(m["W"]), M)
            except Exception as e:
                stats[what]["unencodable"] += 1
                continue
            if perm:           # undo the relabelling numerically: index bits of wire perm[t] back to wire t
                n = len(perm)
                idx = [sum(((i >> (n - perm[tt])) & 1) << (n - 1 - tt) for tt in range(n)) for i in range(1 << n)]
                Vb = np.zeros_like(V)
                for r in range(1 << n):
                    for c_ in range(1 << n):
                        Vb[idx[r], idx[c_]] = V[r, c_]
                V = Vb
            stats[what]["bridged"] += 1
            n_bridge += 1
            good &= _cmp(viol, key, f"{what}(bridged)", V, U, t, {"output": rp})
        if good and ot.depth(t) >= 2:
            nontriv.add(ot.show(t))
        if good and len(samples) < 5 and ot.depth(t) >= 2 and m["origin"] == "rand" and len(m["outs"]) == 3:
            samples.append({"term": ot.show(t), "wire_order": [str(w) for w in m["W"]], "built": m["outs"][0][1], "simplified": m["outs"][1][1],
                            "mapped": m["outs"][2][1], "verdicts": "ok"})
    nneg = sum(1 for ti in neg if verdicts[(ti, 0)][0] not in ("ok",))
    if (full and not neg) or nneg != len(neg):
        raise lib.MachineryError(f"negative controls rejected {nneg}/{len(neg)}")
    # comparator negative control
    tmp = []
    badm = np.eye(2, dtype=complex)
    badm[0, 0] += 1e-3
    _cmp(tmp, "neg", "qp.matrix", badm, np.eye(2, dtype=complex), G("Identity", [0]))
    if not tmp:
        raise lib.MachineryError("comparator negative control accepted")
    if full and not all(stats["kinds"].get(x, 0) > 0 for x in ("adj", "pow", "root", "ctrl", "prod", "sum", "sprod", "exp", "cob")):
        raise lib.MachineryError(f"vacuity: some term kind never generated: {stats['kinds']}")
    if full and (stats["nested_ctrl_values_differ"] < 40 or stats["nested_ctrl_flattened_by_impl"] < 20):
        raise lib.MachineryError(f"vacuity: too few nested controlled operators with level-distinguishing control values: {stats}")
    if full and (stats["simplify"]["exact"] < 50 or stats["map_wires"]["exact"] < 50 or n_matrix < 100):
        raise lib.MachineryError(f"vacuity: too few validated outputs {stats}")
    cov = {"states": tstats["distinct"] + rs.distinct, "transitions": tstats["generated"] + rs.generated,
           "oracle_law_instances_model_checked": rs.distinct // 2, "traces_validated_against_impl": n_exact + n_bridge,
           "evaluations": n_matrix + n_exact + n_bridge, "distinct_nontrivial": len(nontriv),
           "rule": "terms: systematic depth-1/2 wrappers over a 17-gate alphabet, exp over the lattice, fractional powers under the "
                   "eigenphase guard, seeded random nesting; non-trivial = distinct terms of nesting depth >= 2 for which qp.matrix, the built "
                   "expression, simplify and map_wires were all validated",
           "samples": samples, "exhaustive": False, "ring_level_M": M, "matrix_compared": n_matrix, "exact_by_tlc": n_exact,
           "bridged_float": n_bridge, "negative_controls_rejected": nneg + 1, "tlc_runs": tstats["runs"], **stats}
    vk = {}
    for v in viol:                      # complete list of violation keys with multiplicities (the runner prints only the first 20)
        vk[v.key] = vk.get(v.key, 0) + 1
    cov["violation_keys"] = dict(sorted(vk.items()))
    return CheckResult(coverage=cov, violations=viol, assumptions=[
        "leaf gates denote the reference table Gates.tla (checked against the implementation by C02); angles on the lattice pi/4, "
        "exp coefficients i*a*pi/8, scalars in {+-1, +-1/2, +-i, 2}",
        "fractional powers only z = 1/2 on table gates whose eigenphases lie strictly inside (-pi, pi) and whose principal root is a ring matrix",
        "negative exponents only on unitary operands (inverse = adjoint); ChangeOpBasis is not placed under Sum / SProd (no matrix documented)",
        "outputs PennyLane produced with parameters outside the ring are compared numerically (1e-8) with TLC's exact Sem(t)"])
