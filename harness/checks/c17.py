"""C17 Optimisation passes preserve semantics and accept all valid circuits.

REL pattern: the driver generates circuits over each pass's documented alphabet (exhaustive short circuits + seeded
biased random longer ones), encodes the INPUT before the call, applies the real pass, encodes the OUTPUT, and TLC
(CircuitEq.tla) recomputes both unitaries exactly in Z[zeta_N][1/2] and decides the documented equivalence.
Outputs with off-lattice angles (single_qubit_fusion, unitary_to_rot, Rot merging) go through the float bridge:
TLC emits the exact U_in, the bridge evaluates the output circuit."""
import itertools
import random

import numpy as np

import pennylane as qp

from .. import bridge, lib, rel
from ..codec import ARITY, OffLattice, decode_gate, encode_op, rec, wire_positions
from ..lib import CheckResult, Violation

M = 4
# angles extracted with arccos/arctan2 lose half the mantissa at singular points (theta ~ 0): sqrt(eps) ~ 1.5e-8
BRIDGE_TOL = 1e-6
ROT1 = [("RX", 1), ("RY", 1), ("RZ", 1), ("PhaseShift", 1)]
FIX1 = [("PauliX", 0), ("PauliY", 0), ("PauliZ", 0), ("Hadamard", 0), ("S", 0), ("T", 0), ("SX", 0)]
FIX2 = [("CNOT", 0), ("CZ", 0), ("CY", 0), ("SWAP", 0), ("CH", 0)]
ROT2 = [("CRX", 1), ("CRY", 1), ("CRZ", 1), ("ControlledPhaseShift", 1), ("IsingXX", 1), ("IsingYY", 1), ("IsingZZ", 1)]
FIX3 = [("Toffoli", 0), ("CCZ", 0), ("CSWAP", 0)]
ALPHA = ROT1 + FIX1 + FIX2 + ROT2 + FIX3


def _tape(circ, n, extra_ops=()):
    ops = [decode_gate(r, M) for r in circ]
    return qp.tape.QuantumScript(list(ops) + list(extra_ops), [qp.probs(wires=list(range(n)))])


def _encode_out(tape, n):
    """-> (records|None, float circuit) ; records None when some angle is off-lattice."""
    wpos = wire_positions(list(range(n)))
    recs, exact = [], True
    flt = []
    for op in tape.operations:
        if op.name in ("Barrier",):
            continue
        try:
            r = encode_op(op, wpos, M)
            recs.append(r)
            flt.append(r)
        except OffLattice:
            exact = False
            flt.append(_float_record(op, wpos))
    return (recs if exact else None), flt


def _float_record(op, wpos):
    """bridge record for an operator with off-lattice parameters (same table names)."""
    from ..codec import is_adjoint, is_ctrl, is_pow, KNOWN
    if is_adjoint(op):
        r = _float_record(op.base, wpos)
        r["mods"] = r["mods"] + [{"t": "adj"}]
        return r
    if is_pow(op) and float(op.z).is_integer():
        r = _float_record(op.base, wpos)
        r["mods"] = r["mods"] + [{"t": "pow", "z": int(op.z)}]
        return r
    if is_ctrl(op) and op.name not in KNOWN:
        r = _float_record(op.base, wpos)
        r["w"] = [wpos[w] for w in op.control_wires] + r["w"]
        r["mods"] = r["mods"] + [{"t": "ctrl", "cv": [int(bool(v)) for v in op.control_values]}]
        return r
    w = [wpos[x] for x in op.wires]
    if op.name == "QubitUnitary":
        return dict(rec("MAT", w), fm=np.asarray(op.data[0], dtype=complex))
    x = [{"I": 0, "X": 1, "Y": 2, "Z": 3}[c] for c in op.hyperparameters.get("pauli_word", "")] if op.name == "PauliRot" else []
    if op.name == "MultiControlledX":
        x = [int(bool(v)) for v in op.control_values]
    if op.name not in KNOWN:
        raise OffLattice(f"bridge has no entry for {op.name}")
    return dict(rec(op.name, w, [], x), fp=[float(np.real(qp.math.unwrap([d])[0])) for d in op.data])


def _swaps_first(circ):
    # exactly the gates undo_swaps removes (plain SWAPs); U_out * (these swaps, in order) = U_in
    return [g for g in circ if g["g"] == "SWAP" and not g["mods"]]


PASSES = {
    # name: (callable, option dicts, alphabet filter, relation builder)
    "cancel_inverses": (qp.transforms.cancel_inverses, [{}, {"recursive": False}], None),
    "merge_rotations": (qp.transforms.merge_rotations, [{}, {"include_gates": ["RX", "CRX"]}, {"atol": 1e-3}], None),
    "commute_controlled": (qp.transforms.commute_controlled, [{"direction": "right"}, {"direction": "left"}], None),
    "undo_swaps": (qp.transforms.undo_swaps, [{}], None),
    "remove_barrier": (qp.transforms.remove_barrier, [{}], None),
    "combine_global_phases": (qp.transforms.combine_global_phases, [{}], None),
    "single_qubit_fusion": (qp.transforms.single_qubit_fusion, [{}, {"exclude_gates": ["RX", "Hadamard"]}], None),
    "compile": (qp.compile, [{}, {"num_passes": 2},
                             {"pipeline": [qp.transforms.merge_rotations, qp.transforms.cancel_inverses,
                                           qp.transforms.commute_controlled]},
                             {"pipeline": [qp.transforms.cancel_inverses, qp.transforms.single_qubit_fusion]},
                             {"basis_set": ["CNOT", "RX", "RY", "RZ"]}], None),
}


def gen_circuits(tier, seed):
    rng = random.Random(1000 + seed)
    circs = []
    angles_small = [0, 1, 4, 8, 15]           # 0, pi/4, pi, 2pi, 4pi - pi/4
    # (1) exhaustive: all 2-gate circuits on 2 wires over the alphabet with the special-angle set
    i2 = rel.instances([a for a in ALPHA if a[0] not in ("Toffoli", "CCZ", "CSWAP")], 2, angles_small)
    pairs = list(itertools.product(i2, repeat=2))
    if tier == "quick":
        rng.shuffle(pairs)
        pairs = pairs[:450]
    circs += [(2, list(p)) for p in pairs]
    # (2) seeded random, biased, 3..8 gates on 2..4 wires over the full lattice
    allang = list(range(16))
    nrand = 550 if tier == "quick" else 20000
    inst = {n: rel.instances(ALPHA, n, allang) for n in (2, 3, 4)}
    for _ in range(nrand):
        n = rng.choice([2, 3, 3, 3, 4])
        L = rng.randint(3, 8 if n < 4 else 6)
        circs.append((n, rel.random_circuit(rng, inst[n], L)))
    # (3) hand-shaped families the statement names: inverse pairs, mergeable rotations summing to 0 / 2pi / 4pi,
    #     commuting controlled gates, nested cancellation A B B^-1 A^-1
    for g in rel.instances(ALPHA, 3, [1, 8]):
        inv = dict(g, mods=[{"t": "adj"}])
        other = rng.choice(inst[3])
        circs.append((3, [other, g, inv, other]))
        circs.append((3, [g, other, inv]))
        if g["p"]:
            for tot in (0, 16, 32):
                g2 = dict(g, p=[(tot - g["p"][0]) % 32 if tot else -g["p"][0] % 16])
                circs.append((3, [g, g2, other]))
    # (4) every pair of placements of the same multi-qubit gate kind on 3 wires (all control/target orderings,
    #     same and partially overlapping wire sets) between a generic prefix and suffix
    multi = [a for a in ALPHA if ARITY[a[0]] >= 2]
    for name, npar in multi:
        pl = rel.placements(ARITY[name], 3)
        for w1 in pl:
            for w2 in pl:
                if tier == "quick" and rng.random() < 0.5 and set(w1) != set(w2):
                    continue
                g1 = rec(name, w1, [5] * npar)
                g2 = rec(name, w2, [11] * npar)
                circs.append((3, [rec("RY", [w1[0]], [3]), rec("Hadamard", [w1[-1]]), g1, g2, rec("RX", [w2[-1]], [5])]))
    # (5) SWAP-heavy circuits (chains of SWAPs sharing wires) with distinguishable single-qubit gates in between
    sw = {n: rel.instances([("SWAP", 0)], n, [0]) for n in (3, 4)}
    oneq = {n: rel.instances([("RX", 1), ("RY", 1), ("T", 0), ("Hadamard", 0)], n, [3, 5]) + rel.instances([("CNOT", 0)], n, [0]) for n in (3, 4)}
    for _ in range(250 if tier == "quick" else 4000):
        n = rng.choice([3, 3, 4])
        c = [rng.choice(oneq[n]) for _ in range(n)]
        for _ in range(rng.randint(2, 4)):
            c.append(rng.choice(sw[n]))
            if rng.random() < 0.6:
                c.append(rng.choice(oneq[n]))
        circs.append((n, c))
    return circs


def run(tier, seed):
    circs = gen_circuits(tier, seed)
    viol, cases, meta = [], [], []
    bridged = []          # (case index, pass tag, float circuit)
    changed = set()
    n_apply = 0
    per_pass = {}
    for ci, (n, circ) in enumerate(circs):
        a = [dict(g) for g in circ]
        bs, tags = [], []
        for pname, (fn, optlist, _) in PASSES.items():
            for oi, opts in enumerate(optlist):
                if tier == "quick" and oi > 0 and (ci + oi) % 3:
                    continue            # quick tier: non-default options on a third of the circuits
                extra = []
                if pname == "remove_barrier":
                    extra = []
                tape = _tape(circ, n)
                if pname == "remove_barrier":
                    ops = list(tape.operations)
                    ops.insert(len(ops) // 2, qp.Barrier(wires=list(range(n))))
                    tape = qp.tape.QuantumScript(ops, tape.measurements)
                if pname == "combine_global_phases":
                    ops = list(tape.operations)
                    ops.insert(0, qp.GlobalPhase(lib.angle_of(3, M)))
                    ops.append(qp.GlobalPhase(lib.angle_of(5, M)))
                    tape = qp.tape.QuantumScript(ops, tape.measurements)
                    a_here = [rec("GlobalPhase", [1], [3])] + a + [rec("GlobalPhase", [1], [5])]
                else:
                    a_here = a
                tag = f"{pname}{opts if opts else ''}"
                key = f"{pname}|{ci}"
                n_apply += 1
                try:
                    (out,), post = fn(tape, **opts)
                except Exception as e:  # "accepts every valid circuit ... without raising"
                    viol.append(Violation(key=f"{pname}:raises:{type(e).__name__}",
                                          detail=f"{tag} raised {type(e).__name__}: {e} on {circ}",
                                          replay={"pass": tag, "n": n, "circuit": circ}))
                    continue
                per_pass[pname] = per_pass.get(pname, 0) + 1
                try:
                    recs, flt = _encode_out(out, n)
                except OffLattice as e:
                    raise lib.MachineryError(f"cannot encode output of {tag}: {e}")
                if [str(o) for o in out.operations] != [str(o) for o in tape.operations]:
                    changed.add((pname, ci))
                relname = "exact" if pname == "combine_global_phases" else "phase"
                pre = _swaps_first(a_here) if pname == "undo_swaps" else []
                if pname == "combine_global_phases" or a_here is not a:
                    # different input for this pass: its own case
                    cases.append({"n": n, "a": a_here, "bs": [{"b": pre + recs, "rel": relname, "perm": []}] if recs is not None else
                                  [{"b": [], "rel": "emit", "perm": []}]})
                    meta.append([(tag, circ, flt if recs is None else None, pre)])
                    continue
                if recs is not None:
                    bs.append({"b": pre + recs, "rel": relname, "perm": []})
                    tags.append((tag, circ, None, pre))
                else:
                    bridged.append((n, a_here, tag, circ, flt, pre))
        if bs:
            cases.append({"n": n, "a": a, "bs": bs})
            meta.append(tags)
    # bridged outputs: one emit case each
    for (n, a_here, tag, circ, flt, pre) in bridged:
        cases.append({"n": n, "a": a_here, "bs": [{"b": [], "rel": "emit", "perm": []}]})
        meta.append([(tag, circ, flt, pre)])
    # negative controls: corrupt one recorded output (drop its last gate / append an X) -> TLC must reject
    neg = []
    for k in range(0, len(cases), max(1, len(cases) // 25)):
        c = cases[k]
        if c["bs"][0]["rel"] == "emit":
            continue
        bad = dict(c, bs=[dict(c["bs"][0], b=c["bs"][0]["b"] + [rec("T", [1])])])
        neg.append(len(cases))
        cases.append(bad)
        meta.append([("NEGATIVE-CONTROL", None, None, [])])
    import time as _t
    t_apply = _t.time()
    verdicts, emitted, stats = rel.validate("C17", cases, M)
    n_exact = n_bridge = 0
    samples = []
    for (ti, si), clause in verdicts.items():
        tag, circ, flt, pre = meta[ti][si]
        if tag == "NEGATIVE-CONTROL":
            continue
        if cases[ti]["bs"][si]["rel"] == "emit":
            n_bridge += 1
            Uin = lib.ring_matrix_to_numpy(emitted[ti], M)
            Uout = bridge.circuit_unitary(pre + flt, cases[ti]["n"], M)
            if not bridge.equal_up_to_phase(Uout, Uin, tol=BRIDGE_TOL):
                viol.append(Violation(key=f"{tag.split('{')[0]}:not-equal-up-to-phase(bridged)",
                                      detail=f"{tag} changed the unitary of {circ}",
                                      replay={"pass": tag, "n": cases[ti]["n"], "circuit": circ}))
            continue
        n_exact += 1
        if clause != "ok":
            if clause == "overflow":
                raise lib.MachineryError("ring coefficient overflow in CircuitEq")
            viol.append(Violation(key=f"{tag.split('{')[0]}:{clause}", detail=f"{tag} on {circ}: TLC verdict {clause}",
                                  replay={"pass": tag, "n": cases[ti]["n"], "circuit": circ, "output": cases[ti]["bs"][si]["b"]}))
        elif len(samples) < 4 and len(circ) >= 3:
            samples.append({"pass": tag, "n": cases[ti]["n"], "input": circ, "output": cases[ti]["bs"][si]["b"], "verdict": clause})
    nneg = sum(1 for ti in neg if verdicts[(ti, 0)] != "ok")
    if nneg != len(neg) or not neg:
        raise lib.MachineryError(f"negative controls: {nneg} of {len(neg)} rejected")
    cov = {"states": stats["distinct"], "transitions": stats["generated"],
           "traces_validated_against_impl": n_exact + n_bridge, "evaluations": n_apply,
           "distinct_nontrivial": len(changed),
           "rule": "circuits: sampled/exhaustive 2-gate circuits on 2 wires over the 25-gate alphabet at special angles, seeded biased "
                   "random circuits of 3-8 gates on 2-4 wires over the whole lattice, shaped inverse/merge families; non-trivial = "
                   "distinct (pass, circuit) whose output differs from its input",
           "samples": samples, "exact_by_tlc": n_exact, "bridged_float": n_bridge, "passes": per_pass,
           "negative_controls_rejected": nneg, "ring_level_M": M, "circuits": len(circs)}
    return CheckResult(coverage=cov, violations=viol,
                       assumptions=["angles on the lattice 4*pi/16; off-lattice outputs compared numerically (1e-8) with TLC's exact input unitary",
                                    "tolerance-dependent branches (atol near-zero merges) are exercised only at exact lattice zeros"])
