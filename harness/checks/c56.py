"""C56 Arithmetic templates compute their documented functions.

FN / REPLAY (spec -> code): spec/sys/Arith.tla holds the documented classical function, the documented preconditions and
the documented input domain of every arithmetic template (transcribed from the docstrings).  The driver draws
configurations (template, register sizes, modulus, constant, polynomial, control values, work-wire count, wire layout;
exhaustive for the smallest sizes, seeded random above), ArithGen.tla checks each one against the documented
preconditions, checks the documented function itself (fits its registers, injective, work register restored) and
tabulates EVERY basis input of the documented domain with the expected basis output.
The driver then runs the real template on default.qubit for every tabulated input, through every decomposition path
(device default = compute_decomposition / first rule, each applicable registered rule expanded one level, and the matrix
where has_matrix), and reads the output state off exactly (single basis state with amplitude +1).
TRACE (code -> spec): the recorded observations go back to Trace_Arith.tla, which recomputes the table and decides per
(configuration, path): domain covered, value registers, work wires restored, no stray phase, uniform superposition over
the domain mapped to the permuted uniform state."""
import json
import math
import os
import random
import time
import multiprocessing as mp

import numpy as np

import pennylane as qp            # imported before the fork pool starts: the workers inherit it
from pennylane.core.operator import Operator2

from .. import lib
from ..lib import CheckResult, Violation

TOL = 1e-6
MAX_BATCH_AMPS = 1 << 21          # amplitudes per simulated batch (32 MB complex128)


# ------------------------------------------------------------------------------------------------ configurations
def _layout(sizes, kind, rng):
    """registers -> wire labels 0..N-1.  id: consecutive; rev: last register gets the lowest labels (a work wire is
    label 0); rnd: random permutation."""
    n = sum(sizes)
    if kind == "id":
        labels = list(range(n))
    elif kind == "rev":
        pos = n
        out = []
        for s in sizes:
            pos -= s
            out.append(list(range(pos, pos + s)))
        return out
    else:
        labels = list(range(n))
        rng.shuffle(labels)
    out, p = [], 0
    for s in sizes:
        out.append(labels[p:p + s])
        p += s
    return out


class _Gen:
    def __init__(self, rng, cap):
        self.rng = rng
        self.cfgs = []
        self.kinds = ["id", "rev", "rnd"]
        self.cap = cap                    # bound on (#basis inputs) * 2^N of one configuration
        self.skipped = 0

    def add(self, t, sizes, wk, k=0, mod=0, flag=0, cv=(1, 1), poly=(), nc=0, kind=None):
        if kind is None:
            kind = self.kinds[len(self.cfgs) % 3]
        if nc:
            sizes = [nc] + list(sizes)
            wk = wk + 1 if wk else 0
        free = sum(sz for r, sz in enumerate(sizes) if r + 1 != wk)
        if flag and t in ("OutMultiplier", "SignedOutMultiplier", "OutSquare", "SignedOutSquare"):
            free -= sizes[-2]                                  # zeroed output register: a single value
        if (1 << (free + sum(sizes))) > self.cap:
            self.skipped += 1
            return
        lay = _layout(list(sizes), kind, self.rng)
        self.cfgs.append({"t": t, "k": int(k), "mod": int(mod), "flag": int(flag), "cv": [int(x) for x in cv],
                          "poly": [{"c": int(c), "e": [int(x) for x in e]} for c, e in poly], "nc": nc, "wk": wk,
                          "lay": lay, "N": sum(sizes), "kind": kind})


def _coprimes(mod):
    """invertible constants; those that are not their own inverse first (k and k^-1 must be told apart)"""
    cps = [k for k in range(1, mod) if math.gcd(k, mod) == 1] or [1]
    strong = [k for k in cps if (k * k) % mod != 1]
    return strong or cps


def make_configs(tier, seed):
    rng = random.Random(seed * 7919 + 56)
    thorough = tier == "thorough"
    g = _Gen(rng, 1 << 22)
    B = 4 if thorough else 3                      # largest value register
    # ---- Adder / PhaseAdder
    for n in range(1, B + 1):
        for mod in range(2, 2 ** n + 1):
            if n <= 2:
                ks = list(range(0, mod + 1))
            else:
                ks = rng.sample(range(1, 2 ** n + 2), 3 if thorough else 2) + ([-rng.randrange(1, mod + 1)] if mod % 2 else [])
            for k in ks:
                full = mod == 2 ** n
                g.add("Adder", [n, 0 if (full and k % 2 == 0) else 2], 2, k=k, mod=mod)
    for n in range(1, B + 2):
        mods = [2 ** n] + [m for m in range(2, 2 ** (n - 1) + 1)]
        if n > 3:
            mods = [2 ** n] + rng.sample(mods[1:], 3 if thorough else 2)
        for mod in mods:
            for k in rng.sample(range(0, mod + 2), min(2, mod + 2)):
                full = mod == 2 ** n
                g.add("PhaseAdder", [n, 0 if (full and k % 2 == 0) else 1], 2, k=k, mod=mod)
    # ---- SemiAdder (+ controlled)
    for nx in range(1, B + 1):
        for ny in range(1, B + 1):
            g.add("SemiAdder", [nx, ny, max(ny - 1, 0)], 3)
            if (nx + ny) % 2 == 0 or thorough:
                g.add("SemiAdder", [nx, ny, 0], 3)                      # work wires allocated by the decomposition
            if nx + ny in (3, 5) or thorough:
                g.add("SemiAdder", [nx, ny, ny + 1], 3, nc=1)        # C(SemiAdder): spare base work wires go to ctrl
    g.add("SemiAdder", [2, 3, 2], 3, nc=2)
    # ---- OutAdder
    shapes = [(1, 1, 1), (1, 1, 2), (2, 1, 2), (2, 2, 2), (1, 2, 3), (2, 2, 3)] + ([(3, 3, 3), (3, 2, 4), (2, 2, 4)] if thorough else [])
    for nx, ny, no in shapes:
        g.add("OutAdder", [nx, ny, no, rng.choice([0, 2])], 4, mod=2 ** no)
        if no > 1:
            for mod in rng.sample(range(2, 2 ** no), 2 if thorough else 1):
                g.add("OutAdder", [nx, ny, no, 2], 4, mod=mod)
    # ---- Multiplier
    for n in range(1, B + 1):
        for mod in range(2, 2 ** n + 1):
            cps = _coprimes(mod)
            ks = cps if n <= 2 else rng.sample(cps, min(len(cps), 2 if thorough else 1))
            for k in ks:
                kk = k + mod * rng.choice([0, 0, 1])
                g.add("Multiplier", [n, n if mod == 2 ** n else n + 2], 2, k=kk, mod=mod)
    # ---- OutMultiplier: work-wire counts select the applicable rules
    om = [(1, 1, 1), (1, 2, 2), (2, 1, 2), (2, 2, 2), (2, 2, 3), (2, 1, 3)] + ([(2, 2, 4), (3, 2, 3), (2, 3, 4), (3, 3, 3)] if thorough else [])
    for nx, ny, no in om:
        for zeroed in (0, 1):
            works = {0, no + 1, 2 * no - 1 if not zeroed else min(max(no - 1, 0), ny + 1)}
            for w in sorted(works):
                if no == 4 and not thorough and (w != no + 1 or zeroed):
                    continue
                g.add("OutMultiplier", [nx, ny, no, w], 4, mod=2 ** no, flag=zeroed)
        if no > 1:
            for mod in rng.sample(range(2, 2 ** no), 2 if thorough else 1):
                g.add("OutMultiplier", [nx, ny, no, 2], 4, mod=mod, flag=rng.choice([0, 1]))
    # ---- SignedOutMultiplier
    som = [(1, 1, 2, 1, 2), (2, 2, 4, 1, 2), (2, 2, 4, 1, 5), (2, 1, 3, 1, 2), (2, 3, 5, 1, 3), (2, 2, 3, 1, 2), (3, 2, 4, 1, 2),
           (1, 1, 2, 0, 5), (2, 1, 3, 0, 7), (1, 2, 3, 0, 8)]
    if thorough:
        som += [(3, 3, 6, 1, 2), (2, 2, 4, 0, 9), (3, 2, 5, 1, 4), (2, 2, 2, 1, 2)]
    for nx, ny, k, zeroed, w in som:
        g.add("SignedOutMultiplier", [nx, ny, k, w], 4, flag=zeroed)
    # ---- ModExp
    me = [(1, 1), (1, 2), (2, 2), (2, 3)] + ([(3, 3), (2, 4), (3, 2)] if thorough else [])
    for nx, no in me:
        mods = [2 ** no] + (rng.sample(range(2, 2 ** no), min(2 ** no - 2, 3 if thorough else 2)) if no > 1 else [])
        for mod in mods:
            for base in rng.sample(_coprimes(mod), min(len(_coprimes(mod)), 2 if thorough else 1)):
                g.add("ModExp", [nx, no, no if mod == 2 ** no else no + 2], 3, k=base + mod * rng.choice([0, 1]), mod=mod)
    # ---- OutSquare / SignedOutSquare
    for n in range(1, B + 1):
        for m in range(1, B + 2):
            for zeroed in (0, 1):
                need = min(m, n + 1) if zeroed else m
                g.add("OutSquare", [n, m, need], 3, flag=zeroed)
                if (n + m) % 2 == 1 or thorough:
                    g.add("OutSquare", [n, m, m + 2], 3, flag=zeroed)       # enough for the add/subtract rule
    for n in range(2, B + 1):
        for m in range(1, B + 2 + (1 if thorough else 0)):
            for zeroed in (0, 1):
                need = min(m, n) if zeroed else m
                g.add("SignedOutSquare", [n, m, need + rng.choice([0, 0, 1])], 3, flag=zeroed)
    # ---- OutPoly
    npoly = 16 if thorough else 8
    for j in range(npoly):
        nreg = rng.choice([1, 2, 2, 3]) if thorough else rng.choice([1, 2, 2])
        xs = [rng.randrange(1, (3 if thorough else 2) + 1) for _ in range(nreg)]
        if sum(xs) > (5 if thorough else 4):
            xs = [1] * nreg
        no = rng.randrange(2, B + 1)
        mod = 2 ** no if j % 2 == 0 else rng.randrange(2, 2 ** no)
        nm = rng.randrange(1, 4)
        poly = []
        for _ in range(nm):
            poly.append((rng.choice([-3, -2, -1, 1, 1, 2, 3, 4, 5]), [rng.choice([0, 1, 1, 2]) for _ in range(nreg)]))
        if j % 3 != 2:
            poly.append((rng.randrange(1, 6), [0] * nreg))               # constant term
        g.add("OutPoly", xs + [no, 0 if (mod == 2 ** no and j % 4 == 0) else 2], nreg + 2, mod=mod, poly=poly)
    # fixed polynomials: no constant term / constant term, with the first work wire labelled 0 (layout rev) and not (id)
    for kind in ("rev", "id"):
        g.add("OutPoly", [2, 3, 2], 3, mod=7, poly=[(3, [1])], kind=kind)
        g.add("OutPoly", [2, 3, 2], 3, mod=5, poly=[(2, [1]), (3, [0])], kind=kind)
    # ---- IntegerComparator: exhaustive in value and geq
    for n in range(1, B + 1):
        for value in range(0, 2 ** n + 2):
            for geq in (0, 1):
                g.add("IntegerComparator", [n, 1, (value + geq) % 2], 3, k=value, flag=geq)
    # ---- Incrementer (+ controlled)
    for n in range(1, B + 2):
        for w in sorted({0, max(n - 1, 0), 1}):
            g.add("Incrementer", [n, w], 2)
    for n, nc, w in [(1, 1, 1), (2, 1, 2), (3, 1, 3), (2, 2, 3), (3, 2, 4)] + ([(4, 1, 4), (3, 3, 5)] if thorough else []):
        g.add("Incrementer", [n, w], 2, nc=nc)
    # ---- primitive gates
    for cv in [(1, 1), (0, 1), (1, 0), (0, 0)]:
        g.add("TemporaryAND", [1, 1, 1], 0, cv=cv)
        g.add("AdjTemporaryAND", [1, 1, 1], 0, cv=cv)
    for kind in ("id", "rnd"):
        g.add("QubitSum", [1, 1, 1], 0, kind=kind)
        g.add("QubitCarry", [1, 1, 1, 1], 0, kind=kind)
    make_configs.skipped = g.skipped
    return g.cfgs


# ------------------------------------------------------------------------------------------------ building the real operators
def _poly_fn(poly):
    def f(*xs):
        tot = 0
        for m in poly:
            term = m["c"]
            for x, e in zip(xs, m["e"]):
                term = term * x ** e
            tot += term
        return tot
    return f


def build(c):
    """-> (pre ops, the operator under test, post ops)"""
    lay = c["lay"]
    ctl = None
    if c["nc"]:
        ctl, lay = lay[0], lay[1:]
    t = c["t"]
    pre, post = [], []
    if t == "Adder":
        op = qp.Adder(c["k"], lay[0], c["mod"], lay[1])
    elif t == "PhaseAdder":
        op = qp.PhaseAdder(c["k"], lay[0], c["mod"], lay[1])
        pre, post = [qp.QFT(wires=lay[0])], [qp.adjoint(qp.QFT(wires=lay[0]))]
    elif t == "SemiAdder":
        op = qp.SemiAdder(lay[0], lay[1], lay[2] if lay[2] else None)
    elif t == "OutAdder":
        op = qp.OutAdder(lay[0], lay[1], lay[2], c["mod"], lay[3])
    elif t == "Multiplier":
        op = qp.Multiplier(c["k"], lay[0], c["mod"], lay[1])
    elif t == "OutMultiplier":
        op = qp.OutMultiplier(lay[0], lay[1], lay[2], c["mod"], lay[3], output_wires_zeroed=bool(c["flag"]))
    elif t == "SignedOutMultiplier":
        op = qp.SignedOutMultiplier(lay[0], lay[1], lay[2], lay[3], output_wires_zeroed=bool(c["flag"]))
    elif t == "ModExp":
        op = qp.ModExp(lay[0], lay[1], c["k"], c["mod"], lay[2])
    elif t == "OutSquare":
        op = qp.OutSquare(lay[0], lay[1], lay[2], output_wires_zeroed=bool(c["flag"]))
    elif t == "SignedOutSquare":
        op = qp.SignedOutSquare(lay[0], lay[1], lay[2], output_wires_zeroed=bool(c["flag"]))
    elif t == "OutPoly":
        op = qp.OutPoly(_poly_fn(c["poly"]), lay[:-2], lay[-2], mod=c["mod"], work_wires=lay[-1])
    elif t == "IntegerComparator":
        op = qp.IntegerComparator(c["k"], wires=lay[0] + lay[1], geq=bool(c["flag"]), work_wires=lay[2] or None)
    elif t == "Incrementer":
        op = qp.Incrementer(lay[0], lay[1])
    elif t == "TemporaryAND":
        op = qp.TemporaryAND(wires=lay[0] + lay[1] + lay[2], control_values=tuple(c["cv"]))
    elif t == "AdjTemporaryAND":
        op = qp.adjoint(qp.TemporaryAND(wires=lay[0] + lay[1] + lay[2], control_values=tuple(c["cv"])))
    elif t == "QubitSum":
        op = qp.QubitSum(wires=lay[0] + lay[1] + lay[2])
    elif t == "QubitCarry":
        op = qp.QubitCarry(wires=lay[0] + lay[1] + lay[2] + lay[3])
    else:
        raise lib.MachineryError(f"unknown template {t}")
    if ctl is not None:
        op = qp.ctrl(op, control=ctl)
    return pre, op, post


def _has_mcm(ops):
    def walk(o):
        if type(o).__name__ in ("MidMeasure", "MidMeasureMP", "Conditional"):
            return True
        for attr in ("base",):
            b = getattr(o, attr, None)
            if b is not None and b is not o and walk(b):
                return True
        return False
    return any(walk(o) for o in ops)


def _same_ops(a, b):
    if len(a) != len(b):
        return False
    try:
        return all(qp.equal(x, y) for x, y in zip(a, b))
    except Exception:            # noqa: BLE001 - not comparable: treat as different and run both
        return False


def paths_of(c, only=None):
    """-> list of (path name, operations (the operator itself for the matrix path) or None, error string or None)"""
    pre, op, post = build(c)
    out = [["device", pre + [op] + post, None]]
    seen = []
    try:
        with qp.queuing.QueuingManager.stop_recording():
            dflt = op.decomposition() if op.has_decomposition else None
    except Exception:            # noqa: BLE001 - the device path will show the error
        dflt = None
    has_mat = bool(getattr(op, "has_matrix", False))
    if dflt is not None and not has_mat:
        seen.append(list(dflt))
    if dflt is not None and has_mat:
        # default.qubit applies an operator with a matrix directly: run its decomposition() explicitly
        out.append(["decomposition()", pre + list(dflt) + post, None])
        seen.append(list(dflt))
    try:
        rules = list(qp.list_decomps(op))
    except Exception:            # noqa: BLE001
        rules = []
    for r in rules:
        kw = op.arguments if isinstance(op, Operator2) else getattr(op, "resource_params", {})
        cond_known = True
        try:
            if not r.is_applicable(**kw):
                continue
        except Exception:        # noqa: BLE001 - rule conditions of symbolic ops need the abstract form: try to run it
            cond_known = False
        try:
            with qp.queuing.AnnotatedQueue() as q:
                if isinstance(op, Operator2):
                    r(**op.arguments)
                else:
                    r(*op.parameters, wires=op.wires, **op.hyperparameters)
            ops = list(q.queue)
        except Exception as e:   # noqa: BLE001
            if cond_known:       # an applicable rule must run; one whose condition could not be evaluated is skipped
                out.append((f"rule:{r.name}", None, f"{type(e).__name__}: {e}"))
            continue
        dup = next((j for j, other in enumerate(seen) if _same_ops(ops, other)), None)
        if dup is not None:
            if dup == 0 and dflt is not None and has_mat:
                out[1][0] = f"decomposition()={r.name}"
            elif dup == 0 and dflt is not None and out[0][0] == "device":
                out[0][0] = f"device={r.name}"          # the device default is this rule
            continue             # same expansion as the device default / an earlier rule: already covered
        seen.append(ops)
        out.append((f"rule:{r.name}", pre + ops + post, None))
    if getattr(op, "has_matrix", False) and not pre:
        out.append(("matrix", op, None))
    if only:
        out = [p for p in out if p[0] in only]
    return out


def _read(rows, N, in_idx):
    """rows: (B, 2^(N+e)) amplitudes -> discrete observations"""
    obs = []
    dim = rows.shape[1]
    e = dim.bit_length() - 1 - N
    for i, row in zip(in_idx, rows):
        j = int(np.argmax(np.abs(row)))
        a = row[j]
        if abs(abs(a) - 1) > TOL or (j & ((1 << e) - 1)):
            st = "mixed"
        elif abs(a - 1) > TOL:
            st = "phase"
        else:
            st = "basis"
        obs.append({"i": int(i), "o": int(j >> e), "st": st})
    return obs


def _simulate(ops, N, states):
    dev = qp.device("default.qubit")
    st = states if states.shape[0] > 1 else states[0]
    tape = qp.tape.QuantumScript([qp.StatePrep(st, wires=range(N))] + list(ops), [qp.state()])
    res = np.asarray(qp.execute([tape], dev)[0])
    return res.reshape(states.shape[0], -1)


def _probs_only(ops, N, i):
    """paths with mid-circuit measurements: basis input, exact probabilities on the N wires"""
    dev = qp.device("default.qubit")
    bits = [(i >> (N - 1 - w)) & 1 for w in range(N)]
    tape = qp.tape.QuantumScript([qp.BasisState(np.array(bits), wires=range(N))] + list(ops), [qp.probs(wires=range(N))])
    p = np.asarray(qp.execute([tape], dev)[0]).reshape(-1)
    j = int(np.argmax(p))
    return {"i": int(i), "o": j, "st": "basis" if abs(p[j] - 1) < TOL else "mixed"}


def run_config(job):
    """worker: one configuration, all paths -> list of trace records (without the config)"""
    cid, c, ins, singles = job
    t0 = time.process_time()
    N = c["N"]
    recs = []
    try:
        paths = paths_of(c)
    except Exception as e:       # noqa: BLE001 - construction failed inside the documented preconditions
        return cid, [{"path": "construct", "exc": f"{type(e).__name__}: {e}", "obs": [], "sup": [], "supflat": True, "single": 0}], time.process_time() - t0
    D = len(ins)
    for name, ops, err in paths:
        rec = {"path": name, "exc": "", "obs": [], "sup": [], "supflat": True, "single": 0}
        try:
            if err:
                raise RuntimeError(err)
            if name == "matrix":
                U = np.asarray(qp.matrix(ops, wire_order=list(range(N))))
                rec["obs"] = _read(U[:, ins].T, N, ins)
                col = U[:, ins].sum(axis=1) / math.sqrt(D)
                rows = col.reshape(1, -1)
            elif _has_mcm(ops):
                rec["obs"] = [_probs_only(ops, N, i) for i in ins]
                rows = None
            else:
                B = max(2, MAX_BATCH_AMPS >> N)
                obs, rows = [], None
                for s in range(0, D, B):
                    ch = ins[s:s + B]
                    last = s + B >= D and D > 1
                    st = np.zeros((len(ch) + last, 1 << N), dtype=complex)
                    st[np.arange(len(ch)), ch] = 1
                    if last:
                        st[len(ch), ins] = 1 / math.sqrt(D)        # the uniform superposition over the domain rides along
                    res = _simulate(ops, N, st)
                    obs += _read(res[:len(ch)], N, ch)
                    if last:
                        rows = res[len(ch):]
                rec["obs"] = obs
                # the documented read-out, unbatched: BasisState in, probabilities out
                for i in singles[:1 if N >= 12 else None]:
                    o1 = _probs_only(ops, N, i)
                    ob = next(o for o in obs if o["i"] == i)
                    rec["single"] += 1
                    if o1["o"] != ob["o"] or (o1["st"] == "mixed") != (ob["st"] == "mixed"):
                        ob["o"], ob["st"] = o1["o"], "mixed"          # the two read-outs must agree
            if rows is not None and D > 1:
                row = rows[0]
                e = (row.shape[0].bit_length() - 1) - N
                amp = 1 / math.sqrt(D)
                hit = np.nonzero(np.abs(row - amp) < TOL)[0]
                rest = np.ones(row.shape[0], dtype=bool)
                rest[hit] = False
                rec["supflat"] = bool(np.all(np.abs(row[rest]) < TOL) and np.all((hit & ((1 << e) - 1)) == 0))
                rec["sup"] = sorted({int(h >> e) for h in hit})
        except Exception as e:   # noqa: BLE001
            rec["exc"] = f"{type(e).__name__}: {e}"[:300]
        recs.append(rec)
    return cid, recs, time.process_time() - t0


# ------------------------------------------------------------------------------------------------ helpers for reports
def _decode(c, idx):
    N = c["N"]
    vals = []
    for reg in c["lay"]:
        v = 0
        for w in reg:
            v = (v << 1) | ((idx >> (N - 1 - w)) & 1)
        vals.append(v)
    return vals


def _describe(c):
    d = {k: c[k] for k in ("t", "k", "mod", "flag", "nc") if c[k] or k == "t"}
    if c["t"] in ("TemporaryAND", "AdjTemporaryAND"):
        d["cv"] = c["cv"]
    if c["poly"]:
        d["poly"] = c["poly"]
    d["lay"] = c["lay"]
    return d


_MOD_REG = {"Adder": 0, "PhaseAdder": 0, "Multiplier": 0, "OutAdder": 2, "OutMultiplier": 2, "ModExp": 1}


def _class_tag(c):
    """configuration class used in violation keys (derived from the configuration only, never from the outcome)"""
    t = c["t"]
    lay = c["lay"][1:] if c["nc"] else c["lay"]
    s = [len(r) for r in lay]
    tags = []
    if t in _MOD_REG or t == "OutPoly":
        size = s[-2] if t == "OutPoly" else s[_MOD_REG[t]]
        tags.append("mod=2^n" if c["mod"] == 2 ** size else "mod!=2^n")
    if t in ("OutMultiplier", "SignedOutMultiplier", "OutSquare", "SignedOutSquare"):
        tags.append("zeroed" if c["flag"] else "nonzeroed")
    if t == "SignedOutMultiplier":
        tags.append("out<n+m" if s[2] < s[0] + s[1] else "out>=n+m")
        tags.append("work=min" if s[3] == (2 if c["flag"] else 2 * s[2] + 1) else "work>min")
    if t == "Incrementer":
        tags.append("work>=n-1" if s[1] + 1 >= s[0] + c["nc"] else "work<n-1")
    if t == "OutPoly":
        tags.append("const" if any(not any(m["e"]) for m in c["poly"]) else "noconst")
        if lay[-1] and lay[-1][0] == 0:
            tags.append("workwire0")
    if t == "IntegerComparator":
        tags.append("geq" if c["flag"] else "lt")
        if c["k"] > 2 ** s[0]:
            tags.append("L>2^n")
    name = f"C({t})" if c["nc"] else t
    return f"{name}[{','.join(tags)}]" if tags else name


def _tlc_cfg(c):
    return {k: c[k] for k in ("t", "k", "mod", "flag", "cv", "poly", "nc", "wk", "lay", "N")}


def _outside_preconditions(rng):
    """constructions outside the documented preconditions: must raise or are skipped (evidence only)"""
    tries = [
        ("Adder mod > 2^n", lambda: qp.Adder(1, [0, 1], 5, [2, 3])),
        ("Adder mod != 2^n without work wires", lambda: qp.Adder(1, [0, 1], 3)),
        ("PhaseAdder mod != 2^n without work wire", lambda: qp.PhaseAdder(1, [0, 1, 2], 3)),
        ("Multiplier k not coprime", lambda: qp.Multiplier(2, [0, 1], 4, [2, 3])),
        ("Multiplier without work wires", lambda: qp.Multiplier(3, [0, 1], 4)),
        ("ModExp base not coprime", lambda: qp.ModExp([0], [1, 2], 2, 4, [3, 4])),
        ("OutAdder mod > 2^n", lambda: qp.OutAdder([0], [1], [2, 3], 5, [4, 5])),
        ("OutAdder overlapping registers", lambda: qp.OutAdder([0], [0], [2, 3])),
        ("OutMultiplier mod != 2^n with one work wire", lambda: qp.OutMultiplier([0], [1], [2, 3], 3, [4])),
        ("OutPoly mod != 2^n without work wires", lambda: qp.OutPoly(lambda x: x, [[0]], [1, 2], mod=3)),
        ("OutSquare too few work wires", lambda: qp.OutSquare([0, 1], [2, 3, 4], [5])),
        ("SignedOutSquare too few work wires", lambda: qp.SignedOutSquare([0, 1], [2, 3, 4], [5])),
        ("SemiAdder overlapping registers", lambda: qp.SemiAdder([0, 1], [1, 2])),
        ("IntegerComparator one wire", lambda: qp.IntegerComparator(1, wires=[0])),
        ("IntegerComparator non-int value", lambda: qp.IntegerComparator(1.5, wires=[0, 1])),
    ]
    raised, silent = 0, []
    for name, f in tries:
        try:
            with qp.queuing.QueuingManager.stop_recording():
                f()
            silent.append(name)
        except Exception:        # noqa: BLE001
            raised += 1
    return raised, silent


# ------------------------------------------------------------------------------------------------ the check
_EXPECTED_PATHS = {
    "Adder": ["_adder_decomposition", "_adder_arithmetic_decomposition"], "PhaseAdder": ["_phase_adder_decomposition"],
    "SemiAdder": ["_semi_adder"], "C(SemiAdder)": ["_controlled_semi_adder"], "OutAdder": ["_out_adder_decomposition"],
    "Multiplier": ["_multiplier_decomposition"], "ModExp": ["_mod_exp_decomposition"], "OutPoly": ["_out_poly_decomposition"],
    "OutMultiplier": ["_out_multiplier_with_qft", "_out_multiplier_with_adder", "_out_multiplier_with_caddsub", "_out_multiplier_with_cache"],
    "SignedOutMultiplier": ["_decomposition_not_zeroed", "_decomposition_zeroed"],
    "OutSquare": ["_out_square_with_adder", "_out_square_with_caddsub"], "SignedOutSquare": ["signed_square_from_unsigned_square"],
    "IntegerComparator": ["_lt_decomposition", "_ge_decomposition", "_flip_geq", "matrix"],
    "Incrementer": ["_incrementer_decomposition", "_incrementer_fallback_decomposition"],
    "C(Incrementer)": ["_controlled_incrementer_decomposition"],
    "TemporaryAND": ["_temporary_and", "_temporary_and_to_toffoli", "matrix"], "AdjTemporaryAND": ["matrix", "device"],
    "QubitSum": ["_qubitsum_to_cnots", "matrix"], "QubitCarry": ["_qubitcarry_to_cnot_toffolis", "matrix"]}


def replay(path, tier="quick", seed=0):
    """./check C56 --replay replays/C56/<file>.json : re-run only the configurations of a recorded violation"""
    rec = json.loads(open(path).read())
    return run(tier, seed, cfgs=rec["replay"]["configs"])


def run(tier, seed, cfgs=None):
    rng = random.Random(seed)
    replaying = cfgs is not None
    if cfgs is None:
        cfgs = make_configs(tier, seed)
    only = os.environ.get("VERIF_C56_ONLY")          # development aid: restrict to some templates
    if only:
        cfgs = [c for c in cfgs if c["t"] in only.split(",")]
    wd = lib.workdir("C56", "gen")
    (wd / "configs.json").write_text(json.dumps([_tlc_cfg(c) for c in cfgs]))
    invs = ["PreOK", "FitsOK", "InjectiveOK", "WorkRestoredOK", "EncOK"]
    maxb = 3 if tier == "quick" else 4
    g = lib.run_tlc("ArithGen", lib.cfg(constants={"NCONFIGS": len(cfgs), "MAXB": maxb}, invariants=invs), wd,
                    env={"CFG_FILE": str(wd / "configs.json")}, timeout=3000)
    if g.invariant_violated:
        raise lib.MachineryError(f"the documented-function model violates {g.invariant_violated} (oracle / configuration error): "
                                 + g.out[-1500:])
    lib.require_ok(g, "ArithGen")
    tabs = {j["cid"] - 1: j for j in g.json_lines}
    sweep = next((t[1] for t in g.tuples if t[0] == "SWEEP"), 0)
    if sweep < 100 or g.distinct < 2 * (len(cfgs) + sweep):           # two states per configuration / parameter choice
        raise lib.MachineryError(f"model sweep incomplete: {sweep} parameter choices, {g.distinct} states")
    if len(tabs) != len(cfgs) or not all(j["pre"] and j["n"] >= 1 for j in tabs.values()):
        raise lib.MachineryError(f"generator tables not total: {len(tabs)} of {len(cfgs)}")
    # ---- replay into the real templates (process pool: the simulations are independent)
    jobs = []
    for cid, c in enumerate(cfgs):
        ins = [t[0] for t in tabs[cid]["tab"]]
        singles = rng.sample(ins, min(len(ins), 2 if tier == "quick" else 3))
        jobs.append((cid, c, ins, singles))
    jobs.sort(key=lambda j: -(len(j[2]) << j[1]["N"]))            # heavy ones first
    nproc = int(os.environ.get("VERIF_C56_PROCS", "12"))
    results, cpu, cpus = {}, 0.0, {}
    with mp.get_context("fork").Pool(nproc) as pool:
        for cid, recs, t in pool.imap_unordered(run_config, jobs, chunksize=1):
            results[cid] = recs
            cpu += t
            cpus[cid] = t
    traces, meta = [], []
    for cid, c in enumerate(cfgs):
        for rec in results[cid]:
            traces.append({"c": _tlc_cfg(c), "path": rec["path"], "exc": rec["exc"], "obs": rec["obs"], "sup": rec["sup"],
                           "supflat": rec["supflat"]})
            meta.append((cid, rec["path"], "real"))
    n_real = len(traces)
    # ---- negative controls: corrupted observations must be rejected by the trace spec
    negs = []
    good = [i for i, tr in enumerate(traces) if not tr["exc"] and len(tr["obs"]) >= 2]
    for kind, i in zip(["value", "work", "phase", "drop", "mixed", "sup"] * 3, rng.sample(good, min(len(good), 18))):
        tr = json.loads(json.dumps(traces[i]))
        c = tr["c"]
        if kind == "value":
            w = next(w for r, reg in enumerate(c["lay"]) if r + 1 != c["wk"] for w in reg)
            tr["obs"][0]["o"] ^= 1 << (c["N"] - 1 - w)
            want = "wrong-value"
        elif kind == "work":
            if not c["wk"] or not c["lay"][c["wk"] - 1]:
                continue
            tr["obs"][-1]["o"] ^= 1 << (c["N"] - 1 - c["lay"][c["wk"] - 1][0])
            want = "work-wires-not-restored"
        elif kind == "phase":
            tr["obs"][0]["st"] = "phase"
            want = "stray-phase"
        elif kind == "drop":
            tr["obs"] = tr["obs"][1:]
            want = "domain-not-covered"
        elif kind == "mixed":
            tr["obs"][-1]["st"] = "mixed"
            want = "not-a-basis-state"
        else:
            if len(tr["sup"]) < 2:
                continue
            tr["sup"] = tr["sup"][1:]
            want = "superposition"
        negs.append((len(traces), want))
        traces.append(tr)
        meta.append((meta[i][0], meta[i][1], "neg"))
    wd2 = lib.workdir("C56", "trace")
    (wd2 / "traces.json").write_text(json.dumps(traces))
    r = lib.run_tlc("Trace_Arith", lib.cfg(init="TInit", next_="TNext", constants={"NTRACES": len(traces)}), wd2,
                    env={"TRACE_FILE": str(wd2 / "traces.json")}, timeout=3000)
    lib.require_ok(r, "Trace_Arith")
    verd = {t[1] - 1: t[2] for t in r.tuples if t[0] == "V"}
    if len(verd) != len(traces):
        raise lib.MachineryError(f"verdicts not total: {len(verd)} of {len(traces)}")
    nneg = 0
    for i, want in negs:
        if verd[i] == "ok":
            raise lib.MachineryError(f"negative control accepted ({want}) for trace {i}")
        nneg += want in verd[i].split("+")
    if (len(negs) < 4 and not replaying) or nneg < len(negs) - 2:
        raise lib.MachineryError(f"negative controls: {nneg}/{len(negs)} rejected with the intended clause")
    # ---- verdicts -> violations (one per stable key)
    by_key, n_eval, per_t, nontriv, samples, paths_seen = {}, 0, {}, set(), [], {}
    for i in range(n_real):
        cid, path, _ = meta[i]
        c, tr, v = cfgs[cid], traces[i], verd[i]
        n_eval += len(tr["obs"])
        per_t[c["t"]] = per_t.get(c["t"], 0) + len(tr["obs"])
        paths_seen.setdefault(("C(%s)" % c["t"]) if c["nc"] else c["t"], set()).add(path)
        exp = {t[0]: t[1] for t in tabs[cid]["tab"]}
        if v == "ok":
            moved = sum(1 for o in tr["obs"] if o["o"] != o["i"])
            if moved:
                nontriv.add((cid, path))
            if (len(samples) < 4 and moved and c["t"] in ("SignedOutSquare", "ModExp", "OutPoly", "Multiplier", "OutMultiplier")
                    and c["N"] >= 6 and not any(sm["config"]["t"] == c["t"] for sm in samples)):
                o = tr["obs"][len(tr["obs"]) // 2]
                samples.append({"config": _describe(c), "path": path, "input_registers": _decode(c, o["i"]),
                                "output_registers": _decode(c, o["o"]), "verdict": v})
            continue
        key = f"{_class_tag(c)}:{path}:{v}"
        bad = None
        for o in tr["obs"]:
            if o["o"] != exp.get(o["i"]) or o["st"] != "basis":
                bad = o
                break
        det = {"config": _describe(c)}
        if tr["exc"]:
            det["exception"] = tr["exc"]
        if bad is not None:
            det.update(input_registers=_decode(c, bad["i"]), expected_registers=_decode(c, exp[bad["i"]]),
                       observed_registers=_decode(c, bad["o"]), state=bad["st"])
        ent = by_key.setdefault(key, {"n": 0, "first": det, "cfgs": []})
        ent["n"] += 1
        if len(ent["cfgs"]) < 4 and c not in ent["cfgs"]:
            ent["cfgs"].append(c)
    viol = []
    for key, ent in sorted(by_key.items()):
        viol.append(Violation(key=key, detail=f"{ent['n']} (configuration, path) trace(s); first: {json.dumps(ent['first'])}",
                              replay={"first": ent["first"], "configs": ent["cfgs"], "registers": "values per register of `lay`"}))
    # ---- vacuity: every template and every registered rule of interest must have been exercised
    if not replaying and not only:
        for tname, needles in _EXPECTED_PATHS.items():
            have = paths_seen.get(tname, set())
            missing = [n for n in needles if not any(n in p for p in have)]
            if not have or missing:
                raise lib.MachineryError(f"vacuity: {tname} paths {sorted(have)} lack {missing}")
    raised, silent = _outside_preconditions(rng)
    cov = {"states": g.distinct + r.distinct, "transitions": g.generated + r.generated,
           "traces_validated_against_impl": n_real, "evaluations": n_eval, "distinct_nontrivial": len(nontriv),
           "rule": "ArithGen.tla tabulates every basis input of the documented domain of each configuration; non-trivial = distinct "
                   "(configuration, decomposition path) validated ok in which at least one basis input is mapped to a different basis state",
           "samples": samples, "exhaustive": False, "exhaustive_basis_inputs_per_configuration": True,
           "configurations": len(cfgs), "configurations_skipped_over_size_cap": getattr(make_configs, "skipped", 0),
           "basis_inputs_tabulated": sum(j["n"] for j in tabs.values()),
           "evaluations_per_template": per_t, "paths": {k: sorted(v) for k, v in sorted(paths_seen.items())},
           "unbatched_basisstate_probs_readouts": sum(rec["single"] for recs in results.values() for rec in recs),
           "superposition_checks": sum(1 for tr in traces[:n_real] if tr["sup"]),
           "model_invariants": invs, "model_sweep_parameter_choices": sweep, "model_sweep_max_bits": maxb, "negative_controls_rejected": len(negs), "negative_controls_with_intended_clause": nneg,
           "outside_preconditions_raised": raised, "outside_preconditions_accepted_silently": silent,
           "replay_cpu_s": round(cpu, 1),
           "slowest_configurations": [{"cpu_s": round(t, 1), "config": _class_tag(cfgs[i]), "N": cfgs[i]["N"], "inputs": tabs[i]["n"]}
                                      for i, t in sorted(cpus.items(), key=lambda kv: -kv[1])[:5]],
           "tlc": {"gen_wall_s": round(g.wall_s, 1), "trace_wall_s": round(r.wall_s, 1)}}
    return CheckResult(coverage=cov, violations=viol, assumptions=[
        "default.qubit applies primitive gates correctly (C02/C26); amplitudes are discretised at 1e-6",
        "linearity: basis inputs + one uniform superposition per (configuration, path) fix the action on the documented domain",
        "inputs outside the documented domain (x >= mod, non-zero work wires, non-zero output with output_wires_zeroed) are not exercised"])
