"""C01 Operator representations describe one and the same linear map.

Model: Sem(op) of spec/ir/Ops.tla (reference table Gates.tla + matrix arithmetic for the wrappers) is the single denotation.
TRACE (spec/trace/Trace_Reps.tla): for every instance - every reference-table gate over lattice angles (0, +-pi, 2pi multiples,
generic), Adjoint / Pow / Controlled / Prod / Sum / SProd / Exp / ChangeOpBasis wrappers from C03's generator, mixed labels - the
driver records every representation the operator REPORTS (has_matrix, has_sparse_matrix, has_decomposition,
has_diagonalizing_gates, has_generator, pauli_rep is not None), whether the call produced it and the exception class if not.
TLC decides per representation:  available => produced;  unavailable => the documented undefined-representation error;
decomposition() as a circuit: Sem(circuit) = Sem(op) exactly;  diagonalizing_gates + eigvals: D^dagger diag(ev) D = Sem(op)
exactly (eigenvalues on the lattice) ;  pauli_rep: SUM c_w P_w = Sem(op) exactly.  Numeric slots (dense and sparse matrix in the
operator's and in a permuted/extended wire_order, off-lattice eigenvalues, exp(i theta G) of the generator via scipy expm on TLC's
exact G) are compared at 1e-8 with the exact matrices TLC emits."""
import random

import numpy as np
import scipy.linalg

import pennylane as qp

from .. import bridge, lib
from .. import opterms as ot
from ..codec import MULTI_PARAM, NO_PARAM, ONE_PARAM, OffLattice
from ..lib import CheckResult, Violation
from . import c03

TOL = 1e-8
KINDS = [("matrix", "has_matrix"), ("sparse_matrix", "has_sparse_matrix"), ("decomposition", "has_decomposition"),
         ("diagonalizing_gates", "has_diagonalizing_gates"), ("generator", "has_generator")]
LABELS = ["a", 3, "c", 0, "e", 7]
ARITY = dict(__import__("harness.codec", fromlist=["ARITY"]).ARITY)
G = ot.G


def table_instances(tier, rng):
    """terms for every reference-table gate: lattice angles incl. 0, pi, 2pi, 4pi-eps and negative values, mixed labels."""
    quick = tier == "quick"
    special = [0, 4, 8, 12, 3, 13, -5, 1] if quick else list(range(-8, 24))
    out = []
    for name in NO_PARAM:
        out.append(G(name, rng.sample(LABELS, ARITY[name])))
    for name in ONE_PARAM:
        if name in ("MultiRZ", "PauliRot", "GlobalPhase"):
            continue
        angs = special if ARITY[name] <= 2 or not quick else special[:4]
        for a in angs:
            out.append(G(name, rng.sample(LABELS, ARITY[name]), [a]))
    for name, k in MULTI_PARAM.items():
        for _ in range(6 if quick else 40):
            out.append(G(name, rng.sample(LABELS, ARITY[name]), [rng.choice([0, 4, 8, 3, 13, -5, 2, 6]) for _ in range(k)]))
    for nw in (1, 2, 3):
        for a in special[:5]:
            out.append(G("MultiRZ", rng.sample(LABELS, nw), [a]))
    for pw in ("X", "Y", "Z", "XZ", "YY", "ZXY", "IZ", "XI", "YIZ"):
        for a in (special[:3] if quick else special):
            out.append(G("PauliRot", rng.sample(LABELS, len(pw)), [a], ["IXYZ".index(c) for c in pw]))
    for a in special[:5]:
        out.append(G("GlobalPhase", [], [a]))
        out.append(G("GlobalPhase", rng.sample(LABELS, 1), [a]))
    for cv in ([1], [0], [1, 1], [0, 1], [1, 0, 1], [0, 0, 0]):
        out.append(G("MultiControlledX", rng.sample(LABELS, len(cv) + 1), [], cv))
    for n in (1, 2, 3):
        out.append(G("QFT", rng.sample(LABELS, n)))
    out.append(G("Identity", rng.sample(LABELS, 2)))
    return out


def strip_work(t):
    out = dict(t)
    if "ww" in out:
        out["ww"] = []
    if "a" in t:
        out["a"] = strip_work(t["a"])
    if "as" in t:
        out["as"] = [None if s is None else strip_work(s) for s in t["as"]]
    return out


def _call(op, kind):
    try:
        return 1, getattr(op, kind)(), ""
    except Exception as e:  # the exception CLASS is the observation
        return 0, None, type(e).__name__


def _word(pw, wpos, n):
    x = [0] * n
    for w, c in pw.items():
        x[wpos[w] - 1] = "IXYZ".index(c)
    return x


def observe(op, t, W, level):
    """-> (case for Trace_Reps at ring level `level`, numeric slots, skipped reasons); raises OffLattice upward never."""
    wpos = {w: i + 1 for i, w in enumerate(W)}
    n = len(W)
    tt = t if level == 4 else ot.lift(t)
    case = {"n": n, "emit": 1, "a": ot.prog(tt, wpos, level), "reps": []}
    slots, skipped, offl = [], [], []
    for kind, flag in KINDS:
        try:
            avail = int(bool(getattr(op, flag)))
        except Exception as e:
            skipped.append(f"{kind}:flag-raises:{type(e).__name__}")
            continue
        produced, val, exc = _call(op, kind)
        r = {"kind": kind, "avail": avail, "produced": produced, "exc": exc, "rel": "none", "b": [], "ev": [], "ps": []}
        case["reps"].append(r)
        if not produced:
            continue
        si = len(case["reps"]) - 1
        try:
            if kind == "matrix":
                slots.append((si, "matrix", np.asarray(val)))
            elif kind == "sparse_matrix":
                slots.append((si, "sparse_matrix", np.asarray(val.toarray())))
            elif kind == "decomposition":
                p, exact = ot.encode_circuit(val, wpos, level)
                if exact:
                    r.update(rel="exact", b=p)
                else:
                    offl.append(kind)
                    slots.append((si, "decomposition(bridged)", ("prog", p)))
            elif kind == "diagonalizing_gates":
                try:       # the representation is the pair (eigvals, diagonalizing gates)
                    ev = np.asarray(qp.math.unwrap([op.eigvals()])[0], dtype=complex).reshape(-1)
                except Exception as e:
                    r.update(produced=0, exc=f"eigvals:{type(e).__name__}")
                    continue
                p, exact = ot.encode_circuit(val, wpos, level)
                if not exact:
                    offl.append(kind)
                    slots.append((si, "eigendecomposition(bridged)", ("diagf", p, ev)))
                else:
                    try:
                        r.update(rel="diag", b=p, ev=[ot.ring_scalar_any(z, level) for z in ev])
                    except OffLattice:
                        offl.append(kind + ":eigvals")
                        r.update(rel="emitx", b=p)
                        slots.append((si, "eigendecomposition(numeric product)", ("diagx", ev)))
            elif kind == "generator":
                if type(op).__name__ in ("Exp", "Evolution"):
                    theta = float(np.imag(complex(op.coeff)))
                elif len(op.data) == 1 and np.ndim(op.data[0]) == 0:
                    pz = complex(qp.math.unwrap([op.data[0]])[0])
                    # wrappers of Exp carry the coefficient i*theta as their single parameter
                    theta = float(pz.imag) if abs(pz.real) < 1e-14 and abs(pz.imag) > 0 else float(pz.real)
                else:
                    skipped.append("generator:not-single-parameter")
                    continue
                p, exact = ot.encode_any(val, wpos, level)
                if exact:
                    r.update(rel="emitx", b=p)
                    slots.append((si, "exp(i*theta*generator)", ("genx", theta)))
                else:
                    slots.append((si, "exp(i*theta*generator)(bridged)", ("genf", p, theta)))
        except ot.Unencodable as e:
            skipped.append(f"{kind}:{str(e)[:40]}")
        except Exception as e:           # no image in the spec's term language: counted, never guessed
            skipped.append(f"{kind}:unencodable:{type(e).__name__}:{str(e)[:40]}")
    # pauli_rep
    try:
        pr = op.pauli_rep
    except Exception as e:
        pr = None
        skipped.append(f"pauli_rep:raises:{type(e).__name__}")
    r = {"kind": "pauli_rep", "avail": int(pr is not None), "produced": int(pr is not None), "exc": "", "rel": "none", "b": [], "ev": [], "ps": []}
    case["reps"].append(r)
    if pr is not None:
        si = len(case["reps"]) - 1
        try:
            words = [(complex(qp.math.unwrap([c])[0]), _word(dict(pw), wpos, n)) for pw, c in pr.items()]
            try:
                r.update(rel="pauli", ps=[{"c": ot.ring_scalar(c, level), "w": w} for c, w in words])
            except OffLattice:
                offl.append("pauli_rep")
                slots.append((si, "pauli_rep(numeric sum)", ("pauli", words)))
        except KeyError as e:
            skipped.append(f"pauli_rep:wire-outside-register:{e}")
    # eigenvalues without diagonalizing gates: multiset against the exact matrix (normal operators only)
    if op.has_matrix and not any(r_["kind"] == "diagonalizing_gates" and r_["produced"] for r_ in case["reps"]):
        try:
            ev = np.asarray(qp.math.unwrap([op.eigvals()])[0], dtype=complex).reshape(-1)
            slots.append((None, "eigvals(multiset)", ("evset", ev)))
        except Exception as e:
            skipped.append(f"eigvals:raises:{type(e).__name__}")
    return case, slots, skipped, offl


def _key(op):
    """outermost class plus call-site discriminators of the operator tree (used by the known-findings file): '+composite' when
    a Prod / Sum sits below the top (its eigendecomposition is inherited by the wrappers), '+cv0' when a legacy Controlled
    anywhere in the tree has a False control value, '+legacypow' when a legacy Pow sits below the top."""
    tags = set()

    def walk(o, top):
        name = type(o).__name__
        if not top and name in ("Prod", "Sum"):
            tags.add("composite")
        if not top and name in ("Pow", "PowOperation", "PowOpObs"):
            tags.add("legacypow")
        cv = getattr(o, "control_values", None)
        if name in ("Controlled", "ControlledOp") and cv is not None and not all(cv):
            tags.add("cv0")
        kids = list(getattr(o, "operands", None) or [])
        if getattr(o, "base", None) is not None:
            kids.append(o.base)
        for ch in kids:
            walk(ch, False)

    try:
        walk(op, True)
    except Exception:            # never let the key computation hide a violation
        pass
    return type(op).__name__ + "".join("+" + t for t in sorted(tags))


def _close(a, b):
    a, b = np.asarray(a), np.asarray(b)
    return a.shape == b.shape and np.allclose(a, b, atol=TOL, rtol=0)


def _multiset_close(ev, ref, tol=1e-6):
    ref = list(ref)
    for z in ev:
        j = min(range(len(ref)), key=lambda i: abs(ref[i] - z), default=None)
        if j is None or abs(ref[j] - z) > tol:
            return False
        ref.pop(j)
    return not ref


def run(tier, seed):
    rng = random.Random(1000 + seed)
    quick = tier == "quick"
    insts = [(t, "table") for t in table_instances(tier, rng)]
    wr = c03.gen_terms(tier, random.Random(4000 + seed))
    d1 = [x for x in wr if x[1] != "rand"]
    rnd = [x for x in wr if x[1] == "rand"]
    rng.shuffle(d1)
    insts += [(strip_work(t), "wrapper") for t, _ in d1[:(230 if quick else 3000)]]
    insts += [(strip_work(t), "nested") for t, _ in rnd[:(120 if quick else 2000)]]
    return _run(insts, tier, rng, full=True)


def replay(path, tier="quick", seed=0):
    """re-run one recorded violation: the replay file carries the abstract term of the instance."""
    import json
    t = json.loads(open(path).read())["replay"]["term"]
    return _run([(t, "replay")], tier, random.Random(1000 + seed), full=False)


def _run(insts, tier, rng, full):
    quick = tier == "quick"
    maxn = 4 if quick else 5
    viol = []
    cases = {4: [], 5: []}
    meta = {4: [], 5: []}
    stats = {"instances": 0, "by_origin": {}, "classes": {}, "construct_raised": {}, "skipped": {}, "off_lattice_routes": {},
             "flags": {}, "second_wire_order": 0}
    seen = set()
    for (t, origin) in insts:
        sig = ot.show(t)
        if sig in seen:
            continue
        seen.add(sig)
        try:
            op = ot.build(t, 4, 0)
        except Exception as e:
            stats["construct_raised"][type(e).__name__] = stats["construct_raised"].get(type(e).__name__, 0) + 1
            continue
        W = list(op.wires)
        if len(W) > maxn or set(W) != set(ot.wires_of(t)):
            stats["skipped"]["wires"] = stats["skipped"].get("wires", 0) + 1
            continue
        stats["instances"] += 1
        stats["by_origin"][origin] = stats["by_origin"].get(origin, 0) + 1
        stats["classes"][type(op).__name__] = stats["classes"].get(type(op).__name__, 0) + 1
        case, slots, skipped, offl = observe(op, t, W, 4)
        level = 4
        if offl:
            case5, slots5, skipped5, offl5 = observe(op, t, W, 5)
            if not offl5 and len(W) <= 4:
                case, slots, skipped, offl, level = case5, slots5, skipped5, offl5, 5
        for s_ in skipped:
            stats["skipped"][s_] = stats["skipped"].get(s_, 0) + 1
        for s_ in offl:
            stats["off_lattice_routes"][s_] = stats["off_lattice_routes"].get(s_, 0) + 1
        for r in case["reps"]:
            k = f"{r['kind']}:{'avail' if r['avail'] else 'unavail'}:{'produced' if r['produced'] else (r['exc'] or 'None')}"
            stats["flags"][k] = stats["flags"].get(k, 0) + 1
        cases[level].append(case)
        meta[level].append({"op": op, "term": t, "W": W, "slots": slots, "origin": origin, "alt": None})
        # the same operator in a permuted / extended wire_order: dense and sparse matrix only
        if rng.random() < (0.3 if quick else 0.5) and op.has_matrix and len(W) >= 1:
            idle = [l for l in LABELS if l not in W]
            W2 = W + ([rng.choice(idle)] if idle and len(W) < maxn and rng.random() < 0.6 else [])
            rng.shuffle(W2)
            if W2 != W:
                wpos2 = {w: i + 1 for i, w in enumerate(W2)}
                sl = []
                try:
                    sl.append((None, "qp.matrix(wire_order)", np.asarray(qp.matrix(op, wire_order=W2))))
                    if op.has_sparse_matrix:
                        sl.append((None, "sparse_matrix(wire_order)", np.asarray(op.sparse_matrix(wire_order=W2).toarray())))
                except Exception as e:
                    stats["skipped"][f"wire_order:{type(e).__name__}"] = stats["skipped"].get(f"wire_order:{type(e).__name__}", 0) + 1
                    sl = []
                if sl:
                    stats["second_wire_order"] += 1
                    cases[4].append({"n": len(W2), "emit": 1, "a": ot.prog(t, wpos2, 4), "reps": []})
                    meta[4].append({"op": op, "term": t, "W": W2, "slots": sl, "origin": origin, "alt": True})
    # negative controls (TLC must reject each): corrupted decomposition, swapped eigenvalues, negated Pauli coefficient, lying flags
    neg = {4: [], 5: []}
    want = {"exact": 6, "diag": 6, "pauli": 6, "flag1": 3, "flag0": 3}
    for ci, c in enumerate(list(cases[4])):
        for si, r in enumerate(c["reps"]):
            bad = None
            if r["rel"] == "exact" and want["exact"] and r["produced"]:
                bad = dict(r, b=r["b"] + [{"op": "PUSH", "g": ot.rec("T", [1])}, {"op": "PROD", "k": 2}])
                want["exact"] -= 1
            elif r["rel"] == "diag" and want["diag"] and len({tuple(e["c"]) for e in r["ev"]}) > 1:
                ev = list(r["ev"])
                j = next(j for j in range(1, len(ev)) if ev[j] != ev[0])
                ev[0], ev[j] = ev[j], ev[0]
                bad = dict(r, ev=ev)
                want["diag"] -= 1
            elif r["rel"] == "pauli" and want["pauli"] and r["ps"]:
                ps = [dict(p) for p in r["ps"]]
                ps[0] = dict(ps[0], c=dict(ps[0]["c"], c=[-x for x in ps[0]["c"]["c"]]))
                bad = dict(r, ps=ps)
                want["pauli"] -= 1
            elif r["avail"] and r["produced"] and want["flag1"] and r["kind"] != "pauli_rep":
                bad = dict(r, produced=0, exc="ValueError", rel="none")
                want["flag1"] -= 1
            elif not r["avail"] and not r["produced"] and want["flag0"] and r["kind"] != "pauli_rep":
                bad = dict(r, exc="ValueError")
                want["flag0"] -= 1
            if bad is not None:
                neg[4].append(len(cases[4]))
                cases[4].append({"n": c["n"], "emit": 0, "a": c["a"], "reps": [bad]})
                meta[4].append(None)
    tl = {"distinct": 0, "generated": 0, "runs": 0}
    n_exact = n_num = n_flags = 0
    nontriv, samples = set(), []
    nneg = 0
    rels = {}
    for level in (4, 5):
        if not cases[level]:
            continue
        # wide cases first so that TLC's workers balance
        verdicts, emitted, st = ot.evaluate("C01", cases[level], level, name="reps", module="Trace_Reps", outs="reps")
        for k in tl:
            tl[k] += st[k]
        for ti in neg[level]:
            if verdicts[(ti, 0)][0] != "ok":
                nneg += 1
        for ci, m in enumerate(meta[level]):
            if m is None:
                continue
            op, t = m["op"], m["term"]
            key = _key(op)
            c = cases[level][ci]
            good = True
            for si, r in enumerate(c["reps"]):
                clause, ea, eb = verdicts[(ci, si)]
                n_flags += 1
                if ea == "overflow" or eb == "overflow":
                    raise lib.MachineryError(f"ring overflow for {op!r}")
                if clause == "a-not-evaluated":
                    raise lib.MachineryError(f"instance not evaluated by the spec ({ea}): {ot.show(t)}")
                if clause == "b-not-evaluated":
                    stats["skipped"][f"{r['kind']}:spec-guard:{eb}"] = stats["skipped"].get(f"{r['kind']}:spec-guard:{eb}", 0) + 1
                    continue
                if clause == "not-normal":
                    stats["skipped"]["diagonalizing_gates:not-normal"] = stats["skipped"].get("diagonalizing_gates:not-normal", 0) + 1
                    continue
                if r["rel"] in ("exact", "diag", "pauli"):
                    n_exact += 1
                    rels[r["rel"]] = rels.get(r["rel"], 0) + 1
                if clause != "ok":
                    good = False
                    extra = f":{r['exc']}" if clause in ("available-not-produced", "unavailable-wrong-error") else ""
                    viol.append(Violation(key=f"{r['kind']}:{clause}{extra}:{key}",
                                          detail=f"{op!r}: {r['kind']} reported {'available' if r['avail'] else 'unavailable'}, "
                                                 f"{'produced' if r['produced'] else 'raised ' + r['exc']}; TLC verdict {clause}",
                                          replay={"op": repr(op), "term": t, "rep": {k: r[k] for k in ("kind", "avail", "produced", "exc", "rel")},
                                                  "program_a": c["a"], "program_b": r["b"]}))
            if ci not in emitted:
                raise lib.MachineryError(f"no exact matrix emitted for {ot.show(t)}")
            U = lib.ring_matrix_to_numpy(emitted[ci], level)
            n = len(m["W"])
            for (si, what, data) in m["slots"]:
                if isinstance(data, tuple):
                    tag = data[0]
                    try:
                        if tag == "prog":
                            got = ot.num_eval(data[1], n, level)
                        elif tag in ("diagf", "diagx") and not np.allclose(U @ U.conj().T, U.conj().T @ U, atol=1e-9):
                            stats["skipped"]["diagonalizing_gates:not-normal"] = stats["skipped"].get("diagonalizing_gates:not-normal", 0) + 1
                            continue
                        elif tag == "diagf":
                            D = ot.num_eval(data[1], n, level)
                            got = D.conj().T @ np.diag(data[2]) @ D
                        elif tag == "diagx":
                            if (ci, si) not in emitted:
                                continue
                            D = lib.ring_matrix_to_numpy(emitted[(ci, si)], level)
                            got = D.conj().T @ np.diag(data[1]) @ D
                        elif tag == "genx":
                            if (ci, si) not in emitted:
                                continue
                            got = scipy.linalg.expm(1j * data[1] * lib.ring_matrix_to_numpy(emitted[(ci, si)], level))
                        elif tag == "genf":
                            got = scipy.linalg.expm(1j * data[2] * ot.num_eval(data[1], n, level))
                        elif tag == "pauli":
                            got = sum(c_ * bridge.pauli_word(w) for c_, w in data[1]) if data[1] else np.zeros_like(U)
                        elif tag == "evset":
                            if not np.allclose(U @ U.conj().T, U.conj().T @ U, atol=1e-9):
                                stats["skipped"]["eigvals:non-normal"] = stats["skipped"].get("eigvals:non-normal", 0) + 1
                                continue
                            n_num += 1
                            if not _multiset_close(list(data[1]), np.linalg.eigvals(U)):
                                good = False
                                viol.append(Violation(key=f"eigvals:multiset-differs:{key}", detail=f"eigvals() of {op!r} are not the eigenvalues of its linear map",
                                                      replay={"op": repr(op), "term": t, "eigvals": [str(z) for z in data[1]]}))
                            continue
                    except Exception as e:
                        stats["skipped"][f"{what}:{type(e).__name__}"] = stats["skipped"].get(f"{what}:{type(e).__name__}", 0) + 1
                        continue
                else:
                    got = data
                n_num += 1
                if not _close(got, U):
                    good = False
                    err = float(np.max(np.abs(np.asarray(got) - U))) if np.shape(got) == U.shape else -1.0
                    viol.append(Violation(key=f"{what.split('(')[0]}:differs:{key}", detail=f"{what} of {op!r} differs from Sem(op) (max err {err:.3g}; wire order {m['W']})",
                                          replay={"op": repr(op), "term": t, "wire_order": [str(w) for w in m["W"]], "what": what}))
            if good and not m["alt"]:
                nontriv.add(repr(op))
                if len(samples) < 5 and m["origin"] != "table" and sum(1 for r in c["reps"] if r["rel"] != "none") >= 2:
                    samples.append({"op": repr(op)[:200], "reps": [{k: r[k] for k in ("kind", "avail", "produced", "exc", "rel")} for r in c["reps"]],
                                    "ring_level": level, "verdicts": "ok"})
    nn = sum(len(v) for v in neg.values())
    if (full and nn < 10) or nneg != nn:
        raise lib.MachineryError(f"negative controls rejected {nneg}/{nn}")
    tmp_ok = _close(np.eye(2), np.eye(2) + 1e-5)
    if tmp_ok:
        raise lib.MachineryError("comparator negative control accepted")
    if full and min(rels.get(k, 0) for k in ("exact", "diag", "pauli")) < 20:
        raise lib.MachineryError(f"vacuity: too few exact relations decided {rels}")
    cov = {"states": tl["distinct"], "transitions": tl["generated"], "traces_validated_against_impl": stats["instances"],
           "evaluations": n_flags + n_num, "distinct_nontrivial": len(nontriv),
           "rule": "instances: every reference-table gate over special and generic lattice angles + Adjoint/Pow/Controlled/Prod/Sum/SProd/"
                   "Exp/ChangeOpBasis wrappers (depth 1-3) on mixed labels; non-trivial = distinct operator instances all of whose "
                   "reported representations were validated",
           "samples": samples, "exhaustive": False, "representations_checked": n_flags, "exact_by_tlc": n_exact, "exact_relations": rels,
           "numeric_slots": n_num, "negative_controls_rejected": nneg + 1, "tlc_runs": tl["runs"],
           "ring_levels": {"M=4": len([m for m in meta[4] if m]), "M=5": len([m for m in meta[5] if m])}, **stats}
    vk = {}
    for v in viol:                      # complete list of violation keys with multiplicities (the runner prints only the first 20)
        vk[v.key] = vk.get(v.key, 0) + 1
    cov["violation_keys"] = dict(sorted(vk.items()))
    return CheckResult(coverage=cov, violations=viol, assumptions=[
        "Sem(op) = reference table Gates.tla + matrix arithmetic of Ops.tla; parameters on the lattice pi/4 (pi/8 where a decomposition halves angles)",
        "generator convention op = exp(i * theta * generator) with theta the single parameter (Exp: coeff = i*theta); scipy expm on TLC's exact generator matrix",
        "eigenvalues / Pauli coefficients outside the ring and off-lattice decomposition angles are compared numerically (1e-8) against TLC's exact matrices",
        "operator classes without a reference-table entry (large templates), broadcast batches and non-NumPy tensors are not covered here",
        "work wires are dropped from controlled instances (decompositions on work wires are C10's relation)"])
