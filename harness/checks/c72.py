"""C72 QAOA cost Hamiltonians encode their objectives; the mixers are the documented operators.

(M) spec/alg/QAOAObj.tla defines, from the docstrings of pennylane.qaoa, the objective / penalty value of a bitstring for
    maxcut, max_independent_set, min_vertex_cover, max_clique (constrained and unconstrained), edge_driver, bit_driver and
    max_weight_cycle (loss + net-flow + out-flow penalties), and the mixers (x, xy, bit-flip, cycle) as exact Pauli sentences.
    spec/gen/QAOAModel.tla makes TLC decide ON THE REFERENCE, for EVERY labelled graph on <= 4 nodes and every directed graph on
    <= 3 nodes and ALL bitstrings, that these objectives mean what they should: -cut size, minimisers = maximum independent
    sets / minimum vertex covers / maximum cliques, penalties vanish exactly on cycles, bit-flip mixer flips exactly the
    vertices whose neighbours all carry b.
(T) code -> spec: every Hamiltonian returned by pennylane.qaoa for every such graph (networkx and rustworkx inputs, arbitrary
    node labels, weighted and unweighted, seeded larger graphs) is recorded as an exact Pauli sentence;
    spec/trace/Trace_QAOA.tla evaluates its diagonal on EVERY bitstring (each Z word on each bitstring) and compares with
    the objective; mixers are compared term by term as sentences.
(R) spec -> code: TLC emits the expected diagonal; the dense matrix of the returned operator (qp.matrix) must be diagonal
    with these entries (1e-8), which binds the operator itself and not only its Pauli representation.
"""
import itertools
import json
import math
import random

import networkx as nx
import numpy as np
import rustworkx as rx

import pennylane as qp
from pennylane import qaoa

from .. import lib
from ..lib import CheckResult
from ..paulis import LABEL_POOLS, LET, Agg, ps_to_dict, show_terms

PID = "C72"
M = 3
TOL = 1e-8
REWARDS = [[], ["00"], ["11"], ["01", "10"], ["00", "11"], ["00", "01", "10"], ["11", "10", "01"], ["00", "01", "10", "11"]]


# ------------------------------------------------------------------------------------------------ exact conversion
def to_gd_tol(z, kmax=12, tol=1e-9):
    """float -> [re, im, k] with the value within tol of a dyadic of denominator <= 2^kmax, else None."""
    z = complex(z)
    for k in range(kmax + 1):
        re, im = z.real * (1 << k), z.imag * (1 << k)
        if abs(re - round(re)) < tol * (1 << k) and abs(im - round(im)) < tol * (1 << k):
            if abs(re) < 2 ** 28 and abs(im) < 2 ** 28:
                return [int(round(re)), int(round(im)), k]
            return None
    return None


def op_terms(op, labels):
    """operator -> (terms over labels, exact)"""
    ps = qp.pauli.pauli_sentence(op)
    d = ps_to_dict(ps, labels)
    if d is None:
        return [{"w": [9] * len(labels), "c": [0, 0, 0]}], True
    terms, exact = [], True
    for w, c in sorted(d.items()):
        g = to_gd_tol(c)
        if g is None:
            exact, g = False, [0, 0, 0]
        terms.append({"w": list(w), "c": g})
    return terms, exact


# ------------------------------------------------------------------------------------------------ graphs
def all_graphs(nmax):
    for n in range(nmax + 1):
        pairs = list(itertools.combinations(range(n), 2))
        for mask in range(1 << len(pairs)):
            yield n, [p for k, p in enumerate(pairs) if mask >> k & 1]


def all_digraphs(nmax):
    for n in range(1, nmax + 1):
        pairs = [(i, j) for i in range(n) for j in range(n) if i != j]
        for mask in range(1 << len(pairs)):
            yield n, [p for k, p in enumerate(pairs) if mask >> k & 1]


def pick_labels(rng, n, plain):
    if plain:
        return list(range(n))
    pool = list(rng.choice(LABEL_POOLS))
    if rng.random() < 0.5:
        rng.shuffle(pool)
    return pool[:n]


def build_graph(backend, n, edges, labels, rng, weighted):
    """undirected graph on nodes labels[0..n-1] (node order = label order), edges inserted in a shuffled order / orientation"""
    es = [(a, b) if rng.random() < 0.5 else (b, a) for a, b in edges]
    rng.shuffle(es)
    if backend == "nx":
        g = nx.Graph()
        g.add_nodes_from(labels)
        for a, b in es:
            if weighted:
                g.add_edge(labels[a], labels[b], weight=rng.choice([0.5, 2.0, 3.0, -1.0]))
            else:
                g.add_edge(labels[a], labels[b])
        return g
    g = rx.PyGraph()
    g.add_nodes_from(labels)
    g.add_edges_from([(a, b, {"weight": rng.choice([0.5, 2.0, 3.0, -1.0])} if weighted else "") for a, b in es])
    return g


def build_digraph(backend, n, edges, labels, rng, halfw):
    """directed weighted graph; weight of edge k is exp(halfw[k] / 2) so that log c is the dyadic halfw[k]/2"""
    idx = list(range(len(edges)))
    rng.shuffle(idx)
    if backend == "nx":
        g = nx.DiGraph()
        g.add_nodes_from(labels)
        for k in idx:
            g.add_edge(labels[edges[k][0]], labels[edges[k][1]], weight=math.exp(halfw[k] / 2))
        return g
    g = rx.PyDiGraph()
    g.add_nodes_from(labels)
    g.add_edges_from([(edges[k][0], edges[k][1], {"weight": math.exp(halfw[k] / 2)}) for k in idx])
    return g


# ------------------------------------------------------------------------------------------------ recording
class Rec:
    def __init__(self, quick):
        self.recs, self.meta = [], []
        self.agg = Agg()
        self.stats = {}
        self.quick = quick

    def count(self, k, d=1):
        self.stats[k] = self.stats.get(k, 0) + d

    def add(self, fn, part, op, labels, info, n, e, con=False, rw=(), b=0, lw=(), ge=(), emit=False):
        terms, exact = op_terms(op, labels)
        self.recs.append({"fn": fn, "part": part, "con": bool(con), "n": n, "e": [[a + 1, c + 1] for a, c in e],
                          "rw": [[int(s[0]), int(s[1])] for s in rw], "b": int(b), "lw": [list(x) for x in lw],
                          "ge": [[a + 1, c + 1] for a, c in ge], "out": terms, "exact": exact, "emit": bool(emit)})
        self.meta.append({"op": op, "labels": labels, "info": info})
        self.count(f"records:{fn}:{part}")

    def call(self, key, info, thunk):
        try:
            return thunk()
        except Exception as ex:  # noqa: BLE001 - an exception on a valid graph is a failure of the property
            self.agg.add(f"{key}:raised:{type(ex).__name__}", f"{key} raised {type(ex).__name__}: {ex} on {info}", {"input": info})
            return None


def graph_records(R, backend, n, edges, labels, rng, weighted, emit_every):
    info = {"backend": backend, "n": n, "edges": edges, "labels": [str(l) for l in labels], "weighted": weighted}
    mk = lambda: build_graph(backend, n, edges, labels, rng, weighted)  # noqa: E731 - a fresh graph per call (no aliasing between calls)
    R.count(f"graphs:{backend}")
    if weighted:
        R.count("graphs:weighted")
    if n >= 2 and len(edges) == n * (n - 1) // 2:
        R.count("graphs:complete")
    if n >= 1 and not edges:
        R.count("graphs:edgeless")
    if any(all(v not in e for e in edges) for v in range(n)) and edges:
        R.count("graphs:with-isolated-node")
    em = lambda: rng.random() < emit_every  # noqa: E731
    out = R.call("maxcut", info, lambda: qaoa.maxcut(mk()))
    if out is not None:
        R.add("maxcut", "cost", out[0], labels, info, n, edges, emit=em())
        R.add("maxcut", "mixer", out[1], labels, info, n, edges)
    for fn, f in (("mis", qaoa.max_independent_set), ("mvc", qaoa.min_vertex_cover), ("maxclique", qaoa.max_clique)):
        for con in (True, False):
            out = R.call(f"{fn}:{'constrained' if con else 'unconstrained'}", info, lambda f=f, con=con: f(mk(), constrained=con))
            if out is not None:
                R.add(fn, "cost", out[0], labels, info, n, edges, con=con, emit=em())
                R.add(fn, "mixer", out[1], labels, info, n, edges, con=con)
    for rw in REWARDS:
        rr = list(rw)
        rng.shuffle(rr)
        out = R.call("edge_driver", info, lambda rr=rr: qaoa.edge_driver(mk(), rr))
        if out is not None:
            R.add("edge_driver", "cost", out, labels, info, n, edges, rw=rr, emit=em())
    out = R.call("xy_mixer", info, lambda: qaoa.xy_mixer(mk()))
    if out is not None:
        R.add("xy_mixer", "mixer", out, labels, info, n, edges)
    for b in (0, 1):
        out = R.call("bit_flip_mixer", info, lambda b=b: qaoa.bit_flip_mixer(mk(), b))
        if out is not None:
            R.add("bit_flip", "mixer", out, labels, info, n, edges, b=b)


def wire_records(R, n, labels):
    info = {"wires": [str(l) for l in labels]}
    for b in (0, 1):
        out = R.call("bit_driver", info, lambda b=b: qaoa.bit_driver(labels, b))
        if out is not None:
            R.add("bit_driver", "cost", out, labels, info, n, [], b=b, emit=True)
    out = R.call("x_mixer", info, lambda: qaoa.x_mixer(labels))
    if out is not None:
        R.add("x_mixer", "mixer", out, labels, info, n, [])


def digraph_records(R, backend, n, edges, labels, rng, emit_every):
    halfw = [rng.randint(-3, 5) for _ in edges]
    info = {"backend": backend, "n": n, "edges": edges, "labels": [str(l) for l in labels], "log_weights_x2": halfw}
    mk = lambda: build_digraph(backend, n, edges, labels, rng, halfw)  # noqa: E731
    R.count(f"digraphs:{backend}")
    pos = {l: i for i, l in enumerate(labels)}
    m = len(edges)
    for con in (True, False):
        out = R.call(f"max_weight_cycle:{'constrained' if con else 'unconstrained'}", info, lambda con=con: qaoa.max_weight_cycle(mk(), constrained=con))
        if out is None:
            continue
        cost, mixer, mapping = out
        try:
            if backend == "nx":
                wired = [(pos[mapping[k][0]], pos[mapping[k][1]]) for k in range(m)]
            else:
                wired = [(int(mapping[k][0]), int(mapping[k][1])) for k in range(m)]
            if len(mapping) != m:
                raise KeyError("size")
        except Exception:  # noqa: BLE001 - the returned mapping does not list the wires 0..m-1 / the graph's nodes
            R.agg.add("max_weight_cycle:mapping-malformed", f"returned mapping {mapping} is not a map from wires 0..{m - 1} to edges on {info}", {"input": info})
            continue
        lw = []
        for e in wired:
            lw.append([halfw[edges.index(e)], 0, 1] if e in edges else [0, 0, 0])
        wl = list(range(m))
        R.add("mwc", "cost", cost, wl, info, n, wired, con=con, lw=lw, ge=edges, emit=rng.random() < emit_every and m <= 8)
        R.add("mwc", "mixer", mixer, wl, info, n, wired, con=con, lw=lw, ge=edges)
    def both():
        gr = mk()
        return qaoa.cycle_mixer(gr), qaoa.wires_to_edges(gr)
    out = R.call("cycle_mixer", info, both)
    if out is not None:
        mapping = out[1]
        try:
            wired = [(pos[mapping[k][0]], pos[mapping[k][1]]) if backend == "nx" else (int(mapping[k][0]), int(mapping[k][1])) for k in range(m)]
            R.add("cycle_mixer", "mixer", out[0], list(range(m)), info, n, wired, ge=edges)
        except Exception:  # noqa: BLE001
            R.agg.add("wires_to_edges:mapping-malformed", f"wires_to_edges returned {mapping} on {info}", {"input": info})


def show(terms):
    if any(c not in (0, 1, 2, 3) for t in terms for c in t["w"]):
        return "<operator acting on a wire that is not a node of the graph>"
    return show_terms(terms)


# ------------------------------------------------------------------------------------------------ TLC
def run_trace(name, recs):
    wd = lib.workdir(PID, name)
    (wd / "traces.json").write_text(json.dumps(recs))
    r = lib.run_tlc("Trace_QAOA", lib.cfg(constants={"M": M, "NTRACES": len(recs)}), wd, env={"TRACE_FILE": str(wd / "traces.json")})
    lib.require_ok(r, f"Trace_QAOA {name}")
    verd = {t[1] - 1: (t[2], t[3]) for t in r.tuples if t[0] == "V"}
    if len(verd) != len(recs):
        raise lib.MachineryError(f"verdicts are not total: {len(verd)} of {len(recs)}")
    diags = {j["tid"] - 1: j["diag"] for j in r.json_lines}
    return verd, diags, r


def short(rec):
    s = f"{rec['fn']}/{rec['part']}" + (" constrained" if rec["con"] and rec["fn"] in ("mis", "mvc", "maxclique", "mwc") else "")
    if rec["fn"] == "edge_driver":
        s += " reward=" + ",".join(f"{a}{b}" for a, b in rec["rw"])
    if rec["fn"] in ("bit_flip", "bit_driver"):
        s += f" b={rec['b']}"
    return s + f" n={rec['n']} edges={rec['e']}"


def vkey(rec, info, what):
    k = f"{rec['fn']}:{rec['part']}"
    if rec["fn"] in ("mis", "mvc", "maxclique", "mwc"):
        k += ":constrained" if rec["con"] else ":unconstrained"
    if rec["fn"] == "edge_driver":
        k += ":reward=" + "+".join(sorted(f"{a}{b}" for a, b in rec["rw"]))
    if rec["fn"] in ("bit_flip", "bit_driver"):
        k += f":b={rec['b']}"
    return f"{k}:{info.get('backend', 'wires')}:{what}"


def run(tier, seed):
    rng = random.Random(seed)
    quick = tier == "quick"
    # ---- (M) the objectives decided on the reference: every graph, every bitstring
    NN, ND = (4, 3)
    wd = lib.workdir(PID, "model")
    g = lib.run_tlc("QAOAModel", lib.cfg(constants={"M": M, "NN": NN, "ND": ND}, invariants=["Lawful"]), wd, timeout=3000)
    if g.invariant_violated:
        raise lib.MachineryError("the reference objectives disagree with their combinatorial meaning (oracle error): " + g.out[-1500:])
    lib.require_ok(g, "QAOAModel")
    n_model = sum(1 for _ in all_graphs(NN)) + sum(1 for _ in all_digraphs(ND))
    if g.distinct != 2 * n_model:
        raise lib.MachineryError(f"QAOAModel explored {g.distinct} states, expected {2 * n_model}")
    # ---- (T) every Hamiltonian of the implementation for every small graph
    R = Rec(quick)
    emit_every = 0.25 if quick else 1.0
    for n, edges in all_graphs(4):
        for backend in ("nx", "rx"):
            plain = rng.random() < 0.4
            graph_records(R, backend, n, edges, pick_labels(rng, n, plain), rng, weighted=rng.random() < 0.3, emit_every=emit_every)
    for n in range(0, 6):
        wire_records(R, n, pick_labels(rng, n, n % 2 == 0))
    # seeded larger graphs (5 nodes; thorough: all 5-node graphs and seeded 6-node graphs)
    if quick:
        big = []
        for _ in range(24):
            pairs = list(itertools.combinations(range(5), 2))
            dens = rng.choice([0.2, 0.5, 0.8, 1.0])
            big.append((5, [p for p in pairs if rng.random() < dens]))
    else:
        big = [(n, e) for n, e in all_graphs(5) if n == 5]
        for _ in range(150):
            pairs = list(itertools.combinations(range(6), 2))
            dens = rng.choice([0.15, 0.3, 0.5, 0.8, 1.0])
            big.append((6, [p for p in pairs if rng.random() < dens]))
    for i, (n, edges) in enumerate(big):
        backend = "nx" if (i + seed) % 2 == 0 else "rx"
        graph_records(R, backend, n, edges, pick_labels(rng, n, rng.random() < 0.3), rng, weighted=rng.random() < 0.4, emit_every=emit_every / 2)
    # max_weight_cycle: every directed graph on <= 3 nodes, seeded 4-node digraphs with <= 8 edges
    for n, edges in all_digraphs(3):
        for backend in ("nx", "rx"):
            labels = list(range(n)) if backend == "rx" else pick_labels(rng, n, rng.random() < 0.5)
            digraph_records(R, backend, n, edges, labels, rng, emit_every)
    pairs4 = [(i, j) for i in range(4) for j in range(4) if i != j]
    for i in range(12 if quick else 150):
        edges = sorted(rng.sample(pairs4, rng.randint(3, 8 if quick else 9)))
        backend = "nx" if i % 2 == 0 else "rx"
        labels = list(range(4)) if backend == "rx" else pick_labels(rng, 4, rng.random() < 0.5)
        digraph_records(R, backend, 4, edges, labels, rng, emit_every)
    recs, meta = R.recs, R.meta
    # ---- negative controls
    ctrl = []
    costs = [r for r in recs if r["part"] == "cost" and r["exact"] and len(r["out"]) >= 2 and len(r["e"]) >= 2 and r["fn"] in ("maxcut", "mis", "mvc", "maxclique", "mwc")]
    mixers = [r for r in recs if r["part"] == "mixer" and r["exact"] and len(r["out"]) >= 2 and r["fn"] in ("bit_flip", "xy_mixer", "mis", "cycle_mixer")]
    if len(costs) < 4 or len(mixers) < 4:
        raise lib.MachineryError("no recorded Hamiltonian suitable for the negative controls")
    for base in (costs[0], costs[len(costs) // 2], costs[-1]):
        b1 = json.loads(json.dumps(base)); b1["out"][-1]["c"][0] += 1                     # one coefficient off
        b2 = json.loads(json.dumps(base)); b2["out"] = b2["out"][:-1]                      # a term dropped
        b3 = json.loads(json.dumps(base)); b3["out"][-1]["w"] = [1 if c == 3 else c for c in b3["out"][-1]["w"]]   # Z -> X: not diagonal
        ctrl += [b1, b2, b3]
    for base in (mixers[0], mixers[len(mixers) // 2], mixers[-1]):
        b1 = json.loads(json.dumps(base)); b1["out"][0]["c"][0] = -b1["out"][0]["c"][0]    # sign of one mixer term
        b2 = json.loads(json.dumps(base)); b2["out"] = b2["out"][1:]
        ctrl += [b1, b2]
    for x in ctrl:
        x["emit"] = False
    verd, diags, tr = run_trace("trace", recs + ctrl)
    neg = 0
    for i in range(len(recs), len(recs) + len(ctrl)):
        if verd[i][0] == "ok":
            raise lib.MachineryError("negative control accepted by Trace_QAOA: " + json.dumps(ctrl[i - len(recs)])[:500])
        neg += 1
    # ---- verdicts
    ok, lit_same, lit_diff, nontriv, bitstrings = 0, 0, 0, set(), 0
    for i, r in enumerate(recs):
        v, lit = verd[i]
        info = meta[i]["info"]
        if lit == "lit-same":
            lit_same += 1
        elif lit == "lit-differs":
            lit_diff += 1
        if v != "ok":
            R.agg.add(vkey(r, info, v), f"{short(r)}: returned operator {show(r['out'])[:600]} -> {v} (input {info})",
                      {"record": r, "input": info})
            continue
        ok += 1
        if r["part"] == "cost":
            bitstrings += 2 ** (len(r["e"]) if r["fn"] == "mwc" else r["n"])
        if len(r["e"]) >= 1 or r["fn"] in ("bit_driver", "x_mixer"):
            nontriv.add(json.dumps([r["fn"], r["part"], r["con"], r["n"], sorted(map(tuple, r["e"])), sorted(map(tuple, r["rw"])), r["b"], r["lw"]]))
    # ---- (R) expected diagonals vs the dense matrix of the returned operator
    n_mat = 0
    for i, dg in sorted(diags.items()):
        r, m = recs[i], meta[i]
        op, labels = m["op"], m["labels"]
        if not len(op.wires) or not labels:
            continue
        exp = np.array([complex(c[0], c[1]) / (1 << c[2]) for c in dg])
        try:
            mat = np.asarray(qp.matrix(op, wire_order=labels))
        except Exception as ex:  # noqa: BLE001
            R.agg.add(vkey(r, m["info"], f"matrix-raised:{type(ex).__name__}"), f"qp.matrix raised {ex} for {short(r)}", {"record": r, "input": m["info"]})
            continue
        n_mat += 1
        if mat.shape != (len(exp), len(exp)):
            why = f"shape {mat.shape}"
        elif not np.allclose(mat - np.diag(np.diag(mat)), 0, atol=TOL):
            why = "matrix is not diagonal"
        elif not np.allclose(np.diag(mat), exp, atol=TOL, rtol=0):
            q = int(np.argmax(np.abs(np.diag(mat) - exp)))
            why = f"diagonal entry of bitstring {q:0{len(labels)}b} is {np.diag(mat)[q]}, objective {exp[q]}"
        else:
            continue
        R.agg.add(vkey(r, m["info"], "matrix-diagonal-differs"), f"{short(r)}: {why} (input {m['info']})", {"record": r, "input": m["info"]})
    # negative control of the numeric comparator
    i0 = next(i for i in sorted(diags) if len(meta[i]["op"].wires) and len(recs[i]["e"]) >= 1)
    bad = np.array([complex(c[0], c[1]) / (1 << c[2]) for c in diags[i0]])
    bad[-1] += 0.25
    if np.allclose(np.diag(np.asarray(qp.matrix(meta[i0]["op"], wire_order=meta[i0]["labels"]))), bad, atol=TOL, rtol=0):
        raise lib.MachineryError("negative control accepted by the matrix comparator")
    neg += 1
    # ---- vacuity
    need = ["records:maxcut:cost", "records:mis:cost", "records:mvc:cost", "records:maxclique:cost", "records:edge_driver:cost", "records:bit_driver:cost",
            "records:mwc:cost", "records:mwc:mixer", "records:cycle_mixer:mixer", "records:bit_flip:mixer", "records:xy_mixer:mixer", "records:x_mixer:mixer",
            "graphs:nx", "graphs:rx", "graphs:weighted", "graphs:complete", "graphs:edgeless", "graphs:with-isolated-node", "digraphs:nx", "digraphs:rx"]
    for k in need:
        if not R.stats.get(k):
            raise lib.MachineryError(f"vacuity: nothing exercised '{k}'")
    if n_mat < 50:
        raise lib.MachineryError(f"vacuity: only {n_mat} dense matrices compared")
    def sample(fn, part, pred=lambda r: True):
        for i, r in enumerate(recs):
            if r["fn"] == fn and r["part"] == part and len(r["e"]) >= 2 and pred(r) and verd[i][0] == "ok":
                return {"call": short(r), "backend": meta[i]["info"].get("backend"), "labels": meta[i]["info"].get("labels"),
                        "returned": show(r["out"])[:300], "verdict": verd[i][0], "literal_docstring_formula": verd[i][1]}
        return None
    samples = [s for s in (sample("maxcut", "cost"), sample("mis", "cost", lambda r: not r["con"]), sample("mvc", "mixer", lambda r: r["con"]),
                           sample("mwc", "cost", lambda r: not r["con"]), sample("cycle_mixer", "mixer", lambda r: len(r["out"]) >= 4)) if s]
    cov = {"states": g.distinct + tr.distinct, "transitions": g.generated + tr.generated,
           "traces_validated_against_impl": len(recs), "traces_ok": ok, "evaluations": len(recs) + n_mat,
           "bitstrings_evaluated_by_tlc": bitstrings,
           "distinct_nontrivial": len(nontriv),
           "rule": "distinct (function, variant, graph with >= 1 edge / wire set, reward set or bit, weights) whose returned operator TLC accepted on every bitstring (cost) or term by term (mixer)",
           "samples": samples, "exhaustive": True,
           "exhaustive_part": "every labelled graph on 0..4 nodes x {networkx, rustworkx} x every cost function / variant / valid reward set / mixer, all bitstrings; every directed graph on 1..3 nodes x {networkx, rustworkx} for max_weight_cycle / cycle_mixer",
           "sampled_part": f"{len(big)} larger graphs ({'seeded 5-node' if quick else 'all 5-node and seeded 6-node'}), seeded 4-node digraphs, seeded node labels / edge order / weights",
           "model_graphs": n_model, "dense_matrices_compared": n_mat, "negative_controls_rejected": neg,
           "model_drift": {"docstring_formula_without_quarter_factor_differs": lit_diff, "docstring_formula_agrees": lit_same,
                           "note": "the docstrings of the unconstrained max_independent_set / min_vertex_cover / max_clique print the edge term as 3*sum(ZZ -/+ Z -/+ Z) "
                                   "while edge_driver (which they are built from, and whose docstring gives -1/4 and 3/4) carries a factor 1/4; the objective "
                                   "checked is the edge_driver one; the literal reading is counted here only"},
           "counts": dict(sorted(R.stats.items())),
           "tlc": {"model": {"generated": g.generated, "distinct": g.distinct, "wall_s": round(g.wall_s, 1), "invariant": "Lawful"},
                   "trace": {"generated": tr.generated, "distinct": tr.distinct, "wall_s": round(tr.wall_s, 1)}}}
    return CheckResult(coverage=cov, violations=R.agg.violations(),
                       assumptions=["edge weights of max_weight_cycle are exp(k/2) for integers k, so that log c is a dyadic; coefficients are read back as dyadics at 1e-9",
                                    "node labels are hashable python ints / strings; rustworkx directed graphs for max_weight_cycle carry node payloads equal to the node indices (as in the documentation)",
                                    "edge weights are ignored by every cost function except max_weight_cycle, as documented (no weighted variants are documented)",
                                    "float comparison of dense matrices at 1e-8 against exact values"])
