"""C53 Fermion-to-qubit mappings are faithful representations.

(M) spec/sys/FermiMap.tla defines, on top of the exact Pauli algebra, the Jordan-Wigner letters (a_j = Z..Z (X+iY)/2, the
    DEFINITION), the parity mapping as documented, the ladder operator of an arbitrary GF(2)-linear encoding q = B f
    (a_j = X_U Z_P (1 - Z_F)/2) with B = identity / prefix sums / Fenwick tree (Bravyi-Kitaev), the fixed Clifford |f> -> |B f>
    on Pauli words and as an exact permutation matrix.  spec/gen/FermiMapGen.tla makes TLC decide the laws on the reference:
    CAR for all three letter tables, JW letters = textbook matrices, encoded letters = P_B (JW matrix) P_B^T, the documented
    parity formula = the prefix-sum encoding, Fenwick closed form = block recursion, ConjB = matrix conjugation on every word.
(R) spec -> code: TLC enumerates EVERY fermi word of length <= 3 over NM modes and all letters of each mapping on 1..NQ qubits
    with the expected images; they are replayed into jordan_wigner / parity_transform / bravyi_kitaev (ps=True, ps=False,
    wire maps, tolerances, three ways of building the word) and compared exactly.  TLC also enumerates EVERY two-term sentence
    1/2 w1 + (-3+2i)/4 w2 (|w1| <= 1, |w2| = 2) over NS modes with its images RELABELLED by every injective wire map of the NS wires
    into NK > NS labels (the identity, permutations of the wires, maps that overlap the wires and leave them; relabelling decided
    by FermiMap.SRelabel, its additivity / multiplicativity checked on the reference); they are replayed into the FermiSentence
    path of the three functions (ps=True / ps=False, tol, sentence built from a dict or by arithmetic) with that wire_map.
(T) code -> spec: seeded words / sentences on up to 6 modes (and letters up to 10 qubits) are pushed through the real mappings and
    FermiWord / FermiSentence arithmetic; spec/trace/Trace_FermiMap.tla decides on the recorded images: products -> products,
    sums -> sums, adjoints -> adjoints, CAR, shift_operator (rewriting by the anticommutation rules) preserves the image,
    parity / BK image = C (JW image) C^dagger for the fixed basis change C, image = definitional image.  Half of the samples
    call the mappings with a wire_map (a permutation of the wires, an overlapping injection, foreign labels) on words AND sentences
    alike; the images are read back through the map, so every clause must hold unchanged.
"""
import json
import math
import random

import pennylane as qp
from pennylane.fermi import FermiA, FermiC, FermiSentence, FermiWord, from_string

from .. import lib
from ..lib import CheckResult
from ..paulis import LET, Agg, dict_to_terms, gd_to_number, ps_to_dict, sentence_diff, show_terms, terms_to_dict

PID = "C53"
M = 3
MAPS = ("jw", "par", "bk")
LABEL_POOLS = [["a", "b", "c", "d", "e", "f", "g", "h", "i", "j", "k"], [10, 9, 8, 7, 6, 5, 4, 3, 2, 1, 0],
               [3, "x", 7, -1, "q", 10, "w0", 12, "y", 5, 99], [2, 3, 4, 5, 6, 7, 8, 9, 10, 11, 12]]
COEFS = [[1, 0, 0], [-1, 0, 0], [1, 0, 1], [3, 0, 2], [0, 1, 0], [0, -1, 1], [1, 1, 1], [-3, 2, 2], [2, 0, 0], [5, 0, 3]]


# ------------------------------------------------------------------------------------------------ codec
def make_fw(letters, route=0):
    """FermiWord of a spec word (letters [j, t], j 1-based mode, t = 1 creation) built in one of three ways."""
    if route == 1 and letters:
        return from_string(" ".join(f"{j - 1}{'+' if t else '-'}" for j, t in letters))
    if route == 2 and letters:
        w = None
        for j, t in letters:
            f = FermiC(j - 1) if t else FermiA(j - 1)
            w = f if w is None else w * f
        return w
    return FermiWord({(p, j - 1): ("+" if t else "-") for p, (j, t) in enumerate(letters)})


def letters_of(fw):
    return [[orb + 1, 1 if s == "+" else 0] for (_, orb), s in fw.items()]


def make_fs(fterms):
    d = {}
    for t in fterms:
        w = make_fw(t["w"])
        d[w] = d.get(w, 0) + gd_to_number(t["c"])
    return FermiSentence(d)


def fs_terms(fs):
    """FermiSentence / FermiWord -> spec fermi terms (exact coefficients) or None when a coefficient is not a Gaussian dyadic."""
    if isinstance(fs, FermiWord):
        return [{"w": letters_of(fs), "c": [1, 0, 0]}]
    out = []
    for w, c in fs.items():
        from ..paulis import to_gd
        g = to_gd(c)
        if g is None:
            return None
        out.append({"w": letters_of(w), "c": g})
    return out


def image(mp, op, n, ps=True, wire_map=None, tol=None):
    if mp == "jw":
        return qp.jordan_wigner(op, ps=ps, wire_map=wire_map, tol=tol)
    if mp == "par":
        return qp.parity_transform(op, n, ps=ps, wire_map=wire_map, tol=tol)
    return qp.bravyi_kitaev(op, n, ps=ps, wire_map=wire_map, tol=tol)


def image_terms(mp, op, n, wm=None):
    """(terms, exact) of the image on wires 0..n-1 (read through the wire map wm: position i <-> label wm[i]); a marker term that
    no clause accepts when the image leaves the wires."""
    d = ps_to_dict(image(mp, op, n, wire_map=wm), [wm[i] for i in range(n)] if wm else list(range(n)))
    if d is None:
        return [{"w": [9] * n, "c": [0, 0, 0]}], True
    return dict_to_terms({w: c for w, c in d.items() if c != 0})


def show_fw(letters):
    return " ".join(f"a{'+' if t else ''}({j - 1})" for j, t in letters) or "I"


def show_fs(fterms):
    return " + ".join(f"({complex(t['c'][0], t['c'][1]) / (1 << t['c'][2])}) {show_fw(t['w'])}" for t in fterms) or "0"


class Ctx:
    def __init__(self):
        self.agg = Agg()
        self.n_eval = 0
        self.stats = {}

    def count(self, k, d=1):
        self.stats[k] = self.stats.get(k, 0) + d

    def sent(self, key, thunk, exp_terms, labels, what):
        self.n_eval += 1
        try:
            got = thunk()
            if not isinstance(got, qp.pauli.PauliSentence):
                got = qp.pauli.pauli_sentence(got)
            d = ps_to_dict(got, labels)
            why = f"image {got!r} acts outside the expected wires" if d is None else sentence_diff(d, terms_to_dict(exp_terms))
        except Exception as e:  # noqa: BLE001 - an exception on a valid input is itself a failure
            why = f"raised {type(e).__name__}: {e}"
            key = f"{key}:{type(e).__name__}"
        if why:
            self.agg.add(key, f"{why}; expected {show_terms(exp_terms)} for {what}", {"check": key, "input": what, "expected": exp_terms,
                                                                                       "labels": [str(l) for l in labels]})
            return False
        return True


# ------------------------------------------------------------------------------------------------ REPLAY
def replay_word(cx, case, rng, full):
    n, w = case["n"], case["w"]
    what = f"word {show_fw(w)} on {n} qubits"
    wires = list(range(n))
    for mp in MAPS:
        exp = case[mp]
        route = rng.randrange(3)
        fw = make_fw(w, route)
        ok = cx.sent(f"replay:{mp}:word", lambda: image(mp, fw, n), exp, wires, what)
        if full or rng.random() < 0.35:
            cx.sent(f"replay:{mp}:word:operator", lambda: image(mp, fw, n, ps=False), exp, wires, what)
            pool = list(rng.choice(LABEL_POOLS))
            rng.shuffle(pool)
            wm = {i: pool[i] for i in range(n)}
            cx.sent(f"replay:{mp}:word:wire_map", lambda: image(mp, fw, n, wire_map=wm), exp, [wm[i] for i in wires], what + f" wire_map={wm}")
            cx.sent(f"replay:{mp}:word:wire_map:operator", lambda: image(mp, fw, n, ps=False, wire_map=wm), exp, [wm[i] for i in wires],
                    what + f" wire_map={wm}")
            tol = rng.choice([1e-12, 1e-8, 1e-3])
            cx.sent(f"replay:{mp}:word:tol", lambda: image(mp, fw, n, tol=tol), exp, wires, what + f" tol={tol}")
            cx.sent(f"replay:{mp}:sentence-of-word", lambda: image(mp, FermiSentence({fw: 1.0}), n, tol=rng.choice([None, tol])), exp, wires, what)
            cx.count("replay_variant_calls", 5)
        if ok and len(exp) >= 2:
            cx.nontriv.add((mp, json.dumps(w)))
        if not exp and w:
            cx.count("words_with_zero_image")
        if any(t["c"][1] != 0 for t in exp):
            cx.count("images_with_imaginary_coefficients")


def replay_gens(cx, case, rng):
    mp, n = case["map"], case["n"]
    for j in range(1, n + 1):
        for t in (0, 1):
            exp = case["letters"][j - 1][t]
            op = FermiC(j - 1) if t else FermiA(j - 1)
            if cx.sent(f"replay:{mp}:letter", lambda: image(mp, op, n), exp, list(range(n)), f"{'a+' if t else 'a'}({j - 1}) on {n} qubits"):
                cx.nontriv.add((mp, n, j, t))
            cx.count("letters_replayed")
            if mp == "bk" and n not in (1, 2, 4, 8, 16):
                cx.count("bk_letters_on_non_power_of_two_register")


def replay_sent(cx, case, rng, full):
    """A two-term sentence with every (full) / a stratified sample of the wire maps TLC relabelled its image by."""
    n, K, ts, wms = case["n"], case["k"], case["ts"], case["wms"]
    labels = list(range(K))
    ident = [q for q, wm in enumerate(wms) if wm == list(range(1, n + 1))]
    perms = [q for q, wm in enumerate(wms) if sorted(wm) == list(range(1, n + 1)) and q not in ident]
    over = [q for q, wm in enumerate(wms) if sorted(wm) != list(range(1, n + 1))]
    if len(ident) != 1 or not perms or not over:
        raise lib.MachineryError("generator did not emit the identity, a permutation and an overlapping wire map")
    for mp in MAPS:
        for q in (range(len(wms)) if full else [ident[0], rng.choice(perms), rng.choice(over)]):
            wm = {i: wms[q][i] - 1 for i in range(n)}
            if rng.random() < 0.5:
                fs = make_fs(ts)
            else:
                fs = gd_to_number(ts[0]["c"]) * make_fw(ts[0]["w"], rng.randrange(3)) + gd_to_number(ts[1]["c"]) * make_fw(ts[1]["w"], rng.randrange(3))
            if not isinstance(fs, FermiSentence):
                raise lib.MachineryError("sentence case did not build a FermiSentence")
            ps = rng.random() < 0.5
            tol = rng.choice([None, None, 1e-12, 1e-3])
            kind = "identity" if q in ident else "wire_map"
            what = f"sentence {show_fs(ts)} on {n} qubits" + ("" if q in ident else f" wire_map={wm}") + ("" if tol is None else f" tol={tol}")
            # the identity map is replayed as wire_map=None
            ok = cx.sent(f"replay:{mp}:sentence" + ("" if q in ident else ":wire_map") + ("" if ps else ":operator"),
                         lambda: image(mp, fs, n, ps=ps, wire_map=None if q in ident else wm, tol=tol), case[mp][q], labels, what)
            cx.count("sentence_replays_" + ("without_wire_map" if q in ident else "with_wire_map_permuting_the_wires" if q in perms
                                            else "with_wire_map_overlapping_and_leaving_the_wires"))
            if ok and kind == "wire_map" and len(case[mp][q]) >= 2 and case[mp][q] != case[mp][ident[0]]:
                cx.nontriv.add((mp, "sent", json.dumps(ts), q))
                cx.count("sentence_replays_where_the_wire_map_changes_the_image")


# ------------------------------------------------------------------------------------------------ TRACE
def rand_wire_map(rng, n):
    """None, a permutation of the wires, an injection into 0..n+1 (overlaps the wires and leaves them), or foreign labels."""
    r = rng.random()
    if r < 0.45:
        return None, "none"
    if r < 0.7:
        tgt = list(range(n))
        rng.shuffle(tgt)
        return {i: tgt[i] for i in range(n)}, "permutation"
    if r < 0.85:
        tgt = list(range(n + 2))
        rng.shuffle(tgt)
        return {i: tgt[i] for i in range(n)}, "overlapping"
    pool = list(rng.choice(LABEL_POOLS))
    rng.shuffle(pool)
    return {i: pool[i] for i in range(n)}, "foreign"


def rand_word(rng, n, lmax, lmin=0):
    return [[rng.randint(1, n), rng.randint(0, 1)] for _ in range(rng.randint(lmin, lmax))]


def rand_fterms(rng, n, kmax, lmax):
    return [{"w": rand_word(rng, n, lmax), "c": list(rng.choice(COEFS))} for _ in range(rng.randint(1, kmax))]


def rec(op, mp, n, a=None, b=None, out=None, cf=None, fs=None, i=0, j=0, ta=0, tb=0, exact=True):
    return {"op": op, "map": mp, "n": n, "a": a or [], "b": b or [], "out": out or [], "cf": cf or [1, 0, 0], "fs": fs or [],
            "i": i, "j": j, "ta": ta, "tb": tb, "exact": exact}


def trace_part(cx, rng, nsamples, car_ns, big_ns):
    recs, meta = [], []

    def add(r, desc):
        recs.append(r)
        meta.append(desc + (f" [every image taken with wire_map={wmap[0]}]" if wmap[0] else ""))

    wmap = [None]

    def img(mp, op, n):
        cx.n_eval += 1
        return image_terms(mp, op, n, wmap[0])

    # canonical anticommutation relations on the images of ALL letters of n modes
    for n in car_ns:
        for mp in MAPS:
            im = {(j, t): img(mp, FermiC(j - 1) if t else FermiA(j - 1), n) for j in range(1, n + 1) for t in (0, 1)}
            for i in range(1, n + 1):
                for j in range(1, n + 1):
                    for ta, tb in ((0, 1), (0, 0), (1, 1)):
                        (a, ea), (b, eb) = im[(i, ta)], im[(j, tb)]
                        add(rec("car", mp, n, a=a, b=b, i=i, j=j, ta=ta, tb=tb, exact=ea and eb), f"{{{show_fw([[i, ta]])}, {show_fw([[j, tb]])}}} on {n} qubits")
    # wider registers: sampled pairs (the Bravyi-Kitaev sets depend on the index in a non-trivial way)
    for n in big_ns:
        for mp in ("par", "bk"):
            for _ in range(12):
                i, j = rng.randint(1, n), rng.randint(1, n)
                if rng.random() < 0.3:
                    j = i
                ta, tb = rng.choice(((0, 1), (0, 0), (1, 1), (1, 0)))
                (a, ea), (b, eb) = img(mp, FermiC(i - 1) if ta else FermiA(i - 1), n), img(mp, FermiC(j - 1) if tb else FermiA(j - 1), n)
                add(rec("car", mp, n, a=a, b=b, i=i, j=j, ta=ta, tb=tb, exact=ea and eb), f"{{{show_fw([[i, ta]])}, {show_fw([[j, tb]])}}} on {n} qubits")
                (jw, ej) = img("jw", FermiC(i - 1) if ta else FermiA(i - 1), n)
                add(rec("equiv", mp, n, a=jw, out=a, exact=ea and ej), f"{show_fw([[i, ta]])} on {n} qubits")
    for _ in range(nsamples):
        n = rng.choice([2, 3, 4, 4, 5, 5, 6, 6])
        mp = rng.choice(MAPS)
        wmap[0], wkind = rand_wire_map(rng, n)      # the same wire map for every call of this sample (words and sentences alike)
        cx.count("trace_samples_wire_map_" + wkind)
        x, y = rand_word(rng, n, 3), rand_word(rng, n, 3)
        fx, fy = make_fw(x, rng.randrange(3)), make_fw(y, rng.randrange(3))
        cf = list(rng.choice(COEFS))
        c = gd_to_number(cf)
        (ix, ex), (iy, ey) = img(mp, fx, n), img(mp, fy, n)
        try:
            # products of words and of sentences
            (o, eo) = img(mp, fx * fy, n)
            add(rec("prod", mp, n, a=ix, b=iy, out=o, exact=ex and ey and eo), f"({show_fw(x)}) * ({show_fw(y)})")
            s1t, s2t = rand_fterms(rng, n, 2, 2), rand_fterms(rng, n, 2, 2)
            s1, s2 = make_fs(s1t), make_fs(s2t)
            (i1, e1), (i2, e2), (i12, e12) = img(mp, s1, n), img(mp, s2, n), img(mp, s1 * s2, n)
            add(rec("prod", mp, n, a=i1, b=i2, out=i12, exact=e1 and e2 and e12), f"({show_fs(s1t)}) * ({show_fs(s2t)})")
            # sums
            (o, eo) = img(mp, c * fx + fy, n)
            add(rec("sum", mp, n, a=ix, b=iy, out=o, cf=cf, exact=ex and ey and eo), f"{c} * ({show_fw(x)}) + ({show_fw(y)})")
            (o, eo) = img(mp, c * s1 + s2, n)
            add(rec("sum", mp, n, a=i1, b=i2, out=o, cf=cf, exact=e1 and e2 and eo), f"{c} * ({show_fs(s1t)}) + ({show_fs(s2t)})")
            (o, eo) = img(mp, s1 - fy, n)
            add(rec("sum", mp, n, a=iy, b=i1, out=o, cf=[-1, 0, 0], exact=e1 and ey and eo), f"({show_fs(s1t)}) - ({show_fw(y)})")
            # adjoints
            (o, eo) = img(mp, fx.adjoint(), n)
            add(rec("adj", mp, n, a=ix, out=o, exact=ex and eo), f"adjoint of {show_fw(x)}")
            (o, eo) = img(mp, s1.adjoint(), n)
            add(rec("adj", mp, n, a=i1, out=o, exact=e1 and eo), f"adjoint of {show_fs(s1t)}")
            # rewriting by the anticommutation relations keeps the image
            z = rand_word(rng, n, 4, 2)
            if rng.random() < 0.5:       # make equal-mode neighbours likely (the delta term of the rewriting)
                z[rng.randrange(len(z))][0] = z[0][0]
            fz = make_fw(z)
            p, q = rng.randrange(len(z)), rng.randrange(len(z))
            (iz, ez) = img(mp, fz, n)
            sh = fz.shift_operator(p, q)
            (o, eo) = img(mp, sh, n)
            add(rec("same", mp, n, a=iz, out=o, exact=ez and eo), f"shift_operator({p}, {q}) of {show_fw(z)} = {show_fs(fs_terms(sh) or [])}")
            if len(sh) >= 2:
                cx.count("rewritings_with_a_contraction_term")
            if p != q:
                cx.count("rewritings_moving_an_operator")
            # unitary equivalence through the fixed basis change
            if mp != "jw":
                (jx, ejx) = img("jw", fx, n)
                add(rec("equiv", mp, n, a=jx, out=ix, exact=ex and ejx), f"{show_fw(x)} on {n} qubits")
                (j1, ej1) = img("jw", s1, n)
                add(rec("equiv", mp, n, a=j1, out=i1, exact=e1 and ej1), f"{show_fs(s1t)} on {n} qubits")
            # definitional image of a sentence
            ft = rand_fterms(rng, n, 3, 4)
            (o, eo) = img(mp, make_fs(ft), n)
            add(rec("def", mp, n, out=o, fs=fs_terms(make_fs(ft)), exact=eo), f"image of {show_fs(ft)} on {n} qubits")
        except Exception as e:  # noqa: BLE001
            cx.agg.add(f"trace:{mp}:{type(e).__name__}", f"{type(e).__name__}: {e} for x={show_fw(x)} y={show_fw(y)} n={n}", {"x": x, "y": y, "n": n, "map": mp})
    return recs, meta


def run_trace(name, recs):
    wd = lib.workdir(PID, name)
    (wd / "traces.json").write_text(json.dumps(recs))
    r = lib.run_tlc("Trace_FermiMap", lib.cfg(constants={"M": M, "NTRACES": len(recs)}), wd, env={"TRACE_FILE": str(wd / "traces.json")})
    lib.require_ok(r, f"Trace_FermiMap {name}")
    verd = {t[1] - 1: t[2] for t in r.tuples if t[0] == "V"}
    if len(verd) != len(recs):
        raise lib.MachineryError(f"verdicts are not total: {len(verd)} of {len(recs)}")
    return verd, r


def corrupt(r, how):
    x = json.loads(json.dumps(r))
    tgt = "out" if x["op"] != "car" else "a"
    if how == 0:
        x[tgt][0]["c"][0] += 1
    elif how == 1:
        x[tgt] = x[tgt][1:]
    else:
        x[tgt][-1]["w"][0] = (x[tgt][-1]["w"][0] + 1) % 4
    return x


# ------------------------------------------------------------------------------------------------ run
def run(tier, seed):
    rng = random.Random(seed)
    quick = tier == "quick"
    cx = Ctx()
    cx.nontriv = set()
    consts = ({"M": M, "NL": 4, "NMAT": 3, "NQ": 8, "NM": 4, "LMAX": 3, "NS": 3, "NK": 4} if quick else
              {"M": M, "NL": 6, "NMAT": 3, "NQ": 12, "NM": 6, "LMAX": 3, "NS": 3, "NK": 5})
    wd = lib.workdir(PID, "gen")
    g = lib.run_tlc("FermiMapGen", lib.cfg(constants=consts, invariants=["Lawful"]), wd, timeout=3000)
    if g.invariant_violated:
        bad = [l for l in g.out.splitlines() if "bad" in l][:3]
        raise lib.MachineryError(f"the reference mappings violate their own laws (oracle error): {bad} " + g.out[-800:])
    lib.require_ok(g, "FermiMapGen")
    kinds = {k: [c for c in g.json_lines if c["kind"] == k] for k in ("law", "gens", "word", "sent")}
    nm = consts["NM"]
    nwords = sum((2 * nm) ** l for l in range(consts["LMAX"] + 1))
    ns, nk = consts["NS"], consts["NK"]
    nsent, nwm = (1 + 2 * ns) * (2 * ns) ** 2, math.perm(nk, ns)
    if (len(kinds["word"]) != nwords or len(kinds["gens"]) != 3 * consts["NQ"] or len(kinds["law"]) != consts["NL"] or len(kinds["sent"]) != nsent
            or any(len(c["wms"]) != nwm or any(len(c[mp]) != nwm for mp in MAPS) for c in kinds["sent"])):
        raise lib.MachineryError(f"generator emitted an unexpected number of cases: { {k: len(v) for k, v in kinds.items()} }")
    for c in sorted(kinds["word"], key=lambda c: (len(c["w"]), c["w"])):
        replay_word(cx, c, rng, full=not quick)
    for c in sorted(kinds["gens"], key=lambda c: (c["map"], c["n"])):
        replay_gens(cx, c, rng)
    for c in sorted(kinds["sent"], key=lambda c: json.dumps(c["ts"])):
        replay_sent(cx, c, rng, full=not quick)
    # ---- TRACE
    recs, meta = trace_part(cx, rng, 150 if quick else 2500, range(1, 7), (7, 8, 10) if quick else (7, 8, 9, 10, 11, 12, 13, 16))
    ctrl = []
    for op in ("prod", "sum", "adj", "same", "equiv", "def", "car"):
        base = next((r for r in recs if r["op"] == op and r["exact"] and len(r["out"] if op != "car" else r["a"]) >= 2
                     and (op != "car" or r["i"] == r["j"])), None)
        if base is None:
            raise lib.MachineryError(f"no recorded call suitable for the negative control of '{op}'")
        ctrl += [corrupt(base, h) for h in range(3)]
    verd, tr = run_trace("trace", recs + ctrl)
    neg = 0
    for k in range(len(recs), len(recs) + len(ctrl)):
        if verd[k] == "ok":
            raise lib.MachineryError("negative control accepted by Trace_FermiMap: " + json.dumps(ctrl[k - len(recs)])[:400])
        neg += 1
    t_ok, by_op = 0, {}
    for k, r in enumerate(recs):
        if verd[k] != "ok":
            cx.agg.add(f"trace:{r['map']}:{verd[k]}", f"{verd[k]} for {meta[k]} under '{r['map']}' on {r['n']} qubits: a={show_terms(r['a'])[:300]} "
                       f"b={show_terms(r['b'])[:300]} out={show_terms(r['out'])[:300]}", {"record": r, "what": meta[k]})
        else:
            t_ok += 1
            by_op[r["op"]] = by_op.get(r["op"], 0) + 1
            if r["op"] in ("prod", "equiv", "def", "same") and len(r["out"]) >= 2:
                cx.nontriv.add((r["op"], r["map"], meta[k]))
    # ---- negative control of the replay comparator
    tmp = Ctx()
    tmp.nontriv = set()
    c0 = next(c for c in kinds["word"] if len(c["jw"]) >= 2)
    badexp = json.loads(json.dumps(c0["jw"]))
    badexp[0]["c"][0] = -badexp[0]["c"][0] if badexp[0]["c"][0] else 1
    tmp.sent("neg", lambda: image("jw", make_fw(c0["w"]), c0["n"]), badexp, list(range(c0["n"])), "negative control")
    if len(tmp.agg.d) != 1:
        raise lib.MachineryError("negative control accepted by the replay comparator")
    neg += 1
    # the comparator must tell the wire maps apart: the image relabelled by a permutation of the wires is not the un-mapped image,
    # and the image under one wire map is not the image under another one
    for mp in MAPS:
        cs, qa, qb = next((c, qa, qb) for c in kinds["sent"] for qa in range(nwm) for qb in range(nwm)
                          if sorted(c["wms"][qa]) == list(range(1, ns + 1)) and qa != qb and len(c[mp][qa]) >= 2
                          and terms_to_dict(c[mp][qa]) != terms_to_dict(c[mp][qb]))
        tmp = Ctx()
        wm = {i: cs["wms"][qa][i] - 1 for i in range(ns)}
        tmp.sent("neg", lambda: image(mp, make_fs(cs["ts"]), ns, wire_map=wm), cs[mp][qb], list(range(nk)), "negative control")
        if len(tmp.agg.d) != 1:
            raise lib.MachineryError("negative control accepted: the replay comparator does not distinguish two wire maps")
        neg += 1
    for need in ("sentence_replays_without_wire_map", "sentence_replays_with_wire_map_permuting_the_wires",
                 "sentence_replays_with_wire_map_overlapping_and_leaving_the_wires", "sentence_replays_where_the_wire_map_changes_the_image",
                 "trace_samples_wire_map_permutation", "trace_samples_wire_map_overlapping", "trace_samples_wire_map_foreign",
                 "trace_samples_wire_map_none", "words_with_zero_image", "images_with_imaginary_coefficients", "bk_letters_on_non_power_of_two_register",
                 "rewritings_with_a_contraction_term", "rewritings_moving_an_operator"):
        if not cx.stats.get(need):
            raise lib.MachineryError(f"vacuity: no case exercised '{need}'")
    for op in ("prod", "sum", "adj", "car", "same", "equiv", "def"):
        if not by_op.get(op) and not cx.agg.d:
            raise lib.MachineryError(f"vacuity: no accepted trace record for clause '{op}'")
    samples = [{"kind": "word", "word": show_fw(c["w"]), "jw": show_terms(c["jw"]), "parity": show_terms(c["par"]), "bravyi_kitaev": show_terms(c["bk"])}
               for c in kinds["word"] if len(c["w"]) == 2 and c["w"][0][0] != c["w"][1][0] and c["w"][0][0] >= 3][:2]
    samples += [{"kind": "letter", "map": c["map"], "n": c["n"], "a(n-1)": show_terms(c["letters"][-1][0])} for c in kinds["gens"]
                if c["map"] == "bk" and c["n"] in (6, 7)][:2]
    samples += [{"kind": "sentence with wire map", "sentence": show_fs(c["ts"]), "wire_map": {i: c["wms"][q][i] - 1 for i in range(ns)},
                 "parity": show_terms(c["par"][q]), "parity_without_wire_map": show_terms(c["par"][0])}
                for c in kinds["sent"] for q in (nwm // 2,) if len(c["par"][q]) >= 3][:1]
    samples += [{"kind": "trace", "clause": r["op"], "map": r["map"], "what": meta[k][:200], "recorded": show_terms(r["out"])[:300]}
                for k, r in enumerate(recs) if r["op"] == "same" and len(r["out"]) >= 2][:1]
    cov = {"states": g.distinct + tr.distinct, "transitions": g.generated + tr.generated,
           "traces_validated_against_impl": len(recs), "traces_ok": t_ok, "evaluations": cx.n_eval,
           "distinct_nontrivial": len(cx.nontriv),
           "rule": "distinct (mapping, fermi word) whose replayed image has >= 2 Pauli terms and agreed, distinct (mapping, n, letter) replayed, distinct (mapping, sentence, wire map) replayed "
                   "whose relabelled image has >= 2 terms and differs from the un-mapped image, plus "
                   "distinct accepted product / equivalence / definitional / rewriting trace records whose image has >= 2 terms",
           "samples": samples, "exhaustive": True,
           "exhaustive_part": f"every fermi word of length <= {consts['LMAX']} over {nm} modes ({nwords} words) x 3 mappings; every letter of every mapping "
                              f"on 1..{consts['NQ']} qubits; every sentence 1/2 w1 + (-3+2i)/4 w2 (|w1| <= 1, |w2| = 2, {nsent} sentences) over {ns} modes "
                              f"relabelled by every injective wire map into {nk} labels ({nwm} maps) x 3 mappings in TLC"
                              + ("" if quick else ", all replayed") + "; CAR on the recorded images of all letter pairs on 1..6 modes x 3 mappings",
           "sampled_part": ("replay of the sentence x wire-map cases: per sentence and mapping the identity, one permutation of the wires and one "
                            "overlapping map (seeded); " if quick else "") + "seeded words / sentences on 2..6 modes (products, sums, adjoints, shift_operator, equivalence, definitional image); "
                           "sampled letter pairs on wider registers",
           "laws_checked_on_reference_for_modes": consts["NL"], "accepted_by_clause": dict(sorted(by_op.items())),
           "negative_controls_rejected": neg, "counts": dict(sorted(cx.stats.items())),
           "tlc": {"generator": {"generated": g.generated, "distinct": g.distinct, "wall_s": round(g.wall_s, 1),
                                 "invariant": "Lawful (CAR, textbook matrices, encodings, fixed Clifford: exact)"},
                   "trace": {"generated": tr.generated, "distinct": tr.distinct, "wall_s": round(tr.wall_s, 1)}}}
    return CheckResult(coverage=cov, violations=cx.agg.violations(),
                       assumptions=["coefficients are Gaussian dyadics, so images are observable exactly; general complex coefficients follow by linearity",
                                    "the pinned tree has no fermionic normal_order; the rewriting by the anticommutation relations that exists "
                                    "(FermiWord.shift_operator) is checked to preserve the image",
                                    "unitary equivalence is decided as: CAR on n qubits for all letters (uniqueness of the irreducible CAR representation) "
                                    "and, more strongly, image = C (JW image) C^dagger for the fixed permutation C |f> = |B f>, B = prefix sums / Fenwick tree",
                                    "tolerances used (<= 1e-3) are below every non-zero imaginary part that occurs, so tol must not change the image",
                                    "a wire map is injective and defined on every wire 0..n-1 of the register (partial maps that collide with unmapped "
                                    "wires are not exercised); it is a pure relabelling applied once to the whole image",
                                    "numpy interface only"])
